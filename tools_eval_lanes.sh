#!/bin/bash
# Parallel (scratch-copy) evaluation of the seeded changes: N lanes, each with its own git worktree of /repo,
# its own copy of the harness (path dependencies redirected to the lane's worktree) and its own target dir
# under /tmp/lanes. /repo itself and /verif/evidence are never touched (VERIF_OUT_DIR). Results go to
# seeded/<id>/result_lane.json. The check is a pure function of the code, so this is equivalent to
# tools_eval_seeded.sh (apply to /repo itself), only faster; the official table uses tools_eval_seeded.sh.
# usage: tools_eval_lanes.sh [-n lanes] [-t tier] [id ...]     (default: 5 lanes, quick, all ids)
N=5; TIER=quick
while getopts "n:t:" o; do case $o in n) N=$OPTARG;; t) TIER=$OPTARG;; esac; done; shift $((OPTIND-1))
cd /verif || exit 2
ids="$@"; [ -z "$ids" ] && ids=$(ls seeded)
ROOT=/tmp/lanes
mkdir -p $ROOT
lane() {
  k=$1; shift
  L=$ROOT/$k
  if [ ! -d $L/repo ]; then git -C /repo worktree add --detach $L/repo HEAD >/dev/null 2>&1 || { echo "lane $k: worktree failed"; return; }; fi
  git -C $L/repo checkout -q --detach $(git -C /repo rev-parse HEAD); git -C $L/repo checkout -q -- .; git -C $L/repo clean -fdq
  rm -rf $L/harness; mkdir -p $L/harness $L/out
  rsync -a --exclude target /verif/harness/ $L/harness/
  sed -i "s#/repo/crates#$L/repo/crates#g" $L/harness/Cargo.toml
  sed -i "s#/verif/target#$L/target#" $L/harness/.cargo/config.toml
  for id in "$@"; do
    d=/verif/seeded/$id; p=$(jq -r .property $d/meta.json)
    git -C $L/repo checkout -q -- .; git -C $L/repo clean -fdq
    if ! git -C $L/repo apply $d/patch.diff 2>$L/apply.err; then echo "$id: patch does not apply: $(head -1 $L/apply.err)"; continue; fi
    if ! (cd $L/harness && CARGO_NET_OFFLINE=true cargo build --release --offline >$L/build.log 2>&1); then echo "$id: build failed"; tail -5 $L/build.log; continue; fi
    start=$(date +%s)
    (cd /verif && VERIF_OUT_DIR=$L/out $L/target/release/vcheck $p --tier $TIER >$L/run.log 2>&1); rc=$?
    end=$(date +%s)
    v=$(grep -m1 "^violation" $L/run.log | cut -c1-300)
    out=$d/result_lane.json; [ $TIER = thorough ] && out=$d/result_lane_thorough.json
    jq -n --arg id "$id" --arg check "vcheck $p --tier $TIER (scratch lane)" --argjson rc $rc --argjson wall $((end-start)) --arg v "$v" --arg head "$(git -C /repo log --format=%h -1)" --arg verif "$(git -C /verif log --format=%h -1)" \
     '{id:$id, check:$check, exit:$rc, caught:($rc==1), wall_s:$wall, first_violation:$v, repo_head:$head, verif_commit:$verif}' > $out
    echo "$id rc=$rc wall=$((end-start))s ${v:0:140}"
  done
  git -C $L/repo checkout -q -- .; git -C $L/repo clean -fdq
}
# round-robin assignment
declare -a buckets
i=0; for id in $ids; do buckets[$((i%N))]+=" $id"; i=$((i+1)); done
for k in $(seq 0 $((N-1))); do [ -n "${buckets[$k]:-}" ] && lane $k ${buckets[$k]} & done
wait
echo "lanes done (scratch under $ROOT kept for re-use; remove with: tools_eval_lanes_clean.sh)"
