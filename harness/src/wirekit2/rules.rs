//! Rule-chain reference model shared by the two halves of C19 (own wire / built-in fixtures).
//!
//! From the property text: every non-loopback packet is decided by the first installed rule, in
//! installation order, that returns something other than Pass; no rules or all Pass means Pass;
//! a rule stops applying the moment its guard is dropped.

use serde::{Deserialize, Serialize};
use std::time::Duration;
use turmoil_net::{Packet, Transport, Verdict};

#[derive(Clone, Copy, Debug, PartialEq, Eq, Serialize, Deserialize)]
pub enum V {
    Pass,
    Drop,
    /// microseconds
    Deliver(u32),
}

impl V {
    pub fn verdict(self) -> Verdict {
        match self {
            V::Pass => Verdict::Pass,
            V::Drop => Verdict::Drop,
            V::Deliver(us) => Verdict::Deliver(Duration::from_micros(us as u64)),
        }
    }
    pub fn name(self) -> String {
        match self {
            V::Pass => "Pass".into(),
            V::Drop => "Drop".into(),
            V::Deliver(us) => format!("Deliver({us}us)"),
        }
    }
}

/// A verdict function as data: `table[key % len]` where `key` is the packet's tag.
#[derive(Clone, Debug, PartialEq, Serialize, Deserialize)]
pub struct RuleSpec {
    pub id: u32,
    pub table: Vec<V>,
}

impl RuleSpec {
    pub fn decide(&self, key: u64) -> V {
        if self.table.is_empty() {
            V::Pass
        } else {
            self.table[(key % self.table.len() as u64) as usize]
        }
    }
}

/// Packet tag: the 8-byte payload tag when there is one (UDP probes, tagged TCP messages), else a
/// digest of the TCP header fields. Pure function of the packet.
pub fn key_of(p: &Packet) -> u64 {
    let fnv = |xs: &[u64]| -> u64 {
        let mut h: u64 = 0xcbf2_9ce4_8422_2325;
        for x in xs {
            for b in x.to_le_bytes() {
                h ^= b as u64;
                h = h.wrapping_mul(0x1000_0000_01b3);
            }
        }
        h >> 8
    };
    match &p.payload {
        Transport::Udp(d) => crate::wirekit2::tag_of(&d.payload).unwrap_or_else(|| fnv(&[d.src_port as u64, d.dst_port as u64, d.payload.len() as u64])),
        Transport::Tcp(s) => {
            if let Some(t) = crate::wirekit2::tag_of(&s.payload) {
                return t;
            }
            let fl = (s.flags.syn as u64) | (s.flags.ack as u64) << 1 | (s.flags.fin as u64) << 2 | (s.flags.rst as u64) << 3;
            fnv(&[fl, s.src_port as u64, s.dst_port as u64, s.seq as u64, s.payload.len() as u64])
        }
    }
}

/// The rules the model expects to be consulted for `key`, in order, and the verdict.
pub fn expected_chain(alive: &[RuleSpec], key: u64) -> (Vec<u32>, V) {
    let mut ids = Vec::new();
    for r in alive {
        ids.push(r.id);
        let v = r.decide(key);
        if v != V::Pass {
            return (ids, v);
        }
    }
    (ids, V::Pass)
}

/// Do at least two alive rules give different verdicts for `key`?
pub fn rules_disagree(alive: &[RuleSpec], key: u64) -> bool {
    let mut first: Option<V> = None;
    for r in alive {
        let v = r.decide(key);
        match first {
            None => first = Some(v),
            Some(f) if f != v => return true,
            _ => {}
        }
    }
    false
}

#[cfg(test)]
mod tests {
    use super::*;

    #[test]
    fn chain() {
        let a = RuleSpec { id: 1, table: vec![V::Pass, V::Drop] };
        let b = RuleSpec { id: 2, table: vec![V::Deliver(5)] };
        let c = RuleSpec { id: 3, table: vec![V::Drop] };
        let alive = vec![a.clone(), b.clone(), c.clone()];
        assert_eq!(expected_chain(&alive, 0), (vec![1, 2], V::Deliver(5)));
        assert_eq!(expected_chain(&alive, 1), (vec![1], V::Drop));
        assert_eq!(expected_chain(&[], 7), (vec![], V::Pass));
        assert_eq!(expected_chain(&[a.clone()], 2), (vec![1], V::Pass));
        // removal keeps the order of the rest
        let alive = vec![a, c];
        assert_eq!(expected_chain(&alive, 0), (vec![1, 3], V::Drop));
        assert!(rules_disagree(&alive, 0));
        assert!(!rules_disagree(&alive, 1));
    }
}
