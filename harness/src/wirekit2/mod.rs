//! wirekit2: socket-table / routing / rule-chain driver for turmoil-net (C13, C17, C19).
