//! wirekit2: socket-table / routing / rule-chain driver for turmoil-net (C13, C17, C19).
//!
//! The harness *is the wire*: it builds a `Net`, enters it, polls application futures by hand
//! (flag wakers, `set_current` before every poll), moves packets from `egress_all` to `deliver`
//! and decides the fate of each of them. Nothing here draws random numbers or reads a clock.

pub mod fixrun;
pub mod rules;
pub mod table;

use serde::{Deserialize, Serialize};
use std::future::Future;
use std::net::IpAddr;
use std::pin::Pin;
use std::sync::atomic::{AtomicBool, Ordering};
use std::sync::Arc;
use std::task::{Context, Poll, Wake, Waker};
use turmoil_net::{EnterGuard, HostId, KernelConfig, Net, Packet, Transport, Verdict};

// ------------------------------------------------------------------------------------------------
// wakers

pub struct Flag(AtomicBool);

impl Wake for Flag {
    fn wake(self: Arc<Self>) {
        self.0.store(true, Ordering::SeqCst);
    }
    fn wake_by_ref(self: &Arc<Self>) {
        self.0.store(true, Ordering::SeqCst);
    }
}

/// A waker that only sets a flag; the driver polls a task again when its flag is set.
pub struct WakeFlag {
    flag: Arc<Flag>,
    pub waker: Waker,
}

impl WakeFlag {
    /// Starts set: a fresh task is polled once.
    pub fn new() -> Self {
        let flag = Arc::new(Flag(AtomicBool::new(true)));
        let waker = Waker::from(flag.clone());
        WakeFlag { flag, waker }
    }
    pub fn take(&self) -> bool {
        self.flag.0.swap(false, Ordering::SeqCst)
    }
    pub fn is_set(&self) -> bool {
        self.flag.0.load(Ordering::SeqCst)
    }
    pub fn set(&self) {
        self.flag.0.store(true, Ordering::SeqCst);
    }
}

impl Default for WakeFlag {
    fn default() -> Self {
        Self::new()
    }
}

// ------------------------------------------------------------------------------------------------
// configuration shared by the three properties

#[derive(Clone, Debug, Serialize, Deserialize)]
pub struct NetCfg {
    pub retx_threshold: u32,
    pub retx_max: u32,
    pub backlog: usize,
    /// receive buffer cap in bytes (0 = the kernel's default)
    #[serde(default)]
    pub recv_cap: u32,
}

impl NetCfg {
    pub fn kernel(&self) -> KernelConfig {
        let k = KernelConfig::default()
            .retx_threshold(self.retx_threshold)
            .retx_max(self.retx_max)
            .default_backlog(self.backlog);
        if self.recv_cap > 0 {
            k.recv_buf_cap(self.recv_cap as usize)
        } else {
            k
        }
    }
    /// Egress rounds after which a handshake / data retransmission has certainly given up.
    pub fn give_up_rounds(&self) -> u64 {
        (self.retx_threshold as u64) * (self.retx_max as u64 + 2)
    }
}

pub fn parse_ip(s: &str) -> IpAddr {
    s.parse().unwrap_or_else(|_| panic!("scenario holds a bad ip literal {s:?}"))
}

// ------------------------------------------------------------------------------------------------
// the driver

pub struct Driver {
    guard: EnterGuard,
    pub hosts: Vec<HostId>,
    pub addrs: Vec<Vec<IpAddr>>,
}

impl Driver {
    /// Build the `Net` (hosts in order, each with its literal addresses), let `pre` install
    /// permanent rules, and enter it.
    pub fn new(addrs: &[Vec<IpAddr>], cfg: &NetCfg, pre: impl FnOnce(&mut Net)) -> Driver {
        let mut net = Net::with_config(cfg.kernel());
        let mut hosts = Vec::new();
        for a in addrs {
            hosts.push(net.add_host(a.clone()));
        }
        pre(&mut net);
        let guard = net.enter();
        Driver { guard, hosts, addrs: addrs.to_vec() }
    }

    pub fn guard(&self) -> &EnterGuard {
        &self.guard
    }

    pub fn set(&self, h: usize) {
        self.guard.set_current(self.hosts[h]);
    }

    /// Run `f` with host `h` current and a context made from `waker`.
    pub fn with_cx<T>(&self, h: usize, waker: &Waker, f: impl FnOnce(&mut Context<'_>) -> T) -> T {
        self.set(h);
        let mut cx = Context::from_waker(waker);
        f(&mut cx)
    }

    pub fn poll_fut<F: Future + ?Sized>(&self, h: usize, waker: &Waker, fut: Pin<&mut F>) -> Poll<F::Output> {
        self.with_cx(h, waker, |cx| fut.poll(cx))
    }

    /// Poll a future exactly once on host `h`; `None` if it is pending (the future is dropped).
    pub fn once<F: Future>(&self, h: usize, fut: F) -> Option<F::Output> {
        let mut fut = std::pin::pin!(fut);
        match self.poll_fut(h, Waker::noop(), fut.as_mut()) {
            Poll::Ready(v) => Some(v),
            Poll::Pending => None,
        }
    }

    /// Run a synchronous socket call (local_addr, try_recv_from, drop ...) with host `h` current.
    pub fn on<T>(&self, h: usize, f: impl FnOnce() -> T) -> T {
        self.set(h);
        f()
    }

    pub fn egress(&self, out: &mut Vec<Packet>) {
        self.guard.egress_all(out);
    }

    pub fn deliver(&self, p: Packet) {
        self.guard.deliver(p);
    }

    pub fn evaluate(&self, p: &Packet) -> Verdict {
        self.guard.evaluate(p)
    }

    /// Which host owns `ip` (non-loopback)?
    pub fn owner(&self, ip: IpAddr) -> Option<usize> {
        self.addrs.iter().position(|a| a.contains(&ip))
    }

    pub fn counts(&self, h: usize) -> (usize, usize, usize) {
        let c = turmoil_net::verif::socket_counts(self.hosts[h]);
        (c.sockets, c.bindings, c.connections)
    }
}

// ------------------------------------------------------------------------------------------------
// packets

#[derive(Clone, Copy, Debug, PartialEq, Eq, Serialize, Deserialize)]
pub enum PktKind {
    Udp,
    Syn,
    SynAck,
    Rst,
    Fin,
    Data,
    Ack,
}

impl PktKind {
    pub fn name(self) -> &'static str {
        match self {
            PktKind::Udp => "UDP",
            PktKind::Syn => "SYN",
            PktKind::SynAck => "SYNACK",
            PktKind::Rst => "RST",
            PktKind::Fin => "FIN",
            PktKind::Data => "DATA",
            PktKind::Ack => "ACK",
        }
    }
}

pub fn kind(p: &Packet) -> PktKind {
    match &p.payload {
        Transport::Udp(_) => PktKind::Udp,
        Transport::Tcp(s) => {
            if s.flags.rst {
                PktKind::Rst
            } else if s.flags.syn && s.flags.ack {
                PktKind::SynAck
            } else if s.flags.syn {
                PktKind::Syn
            } else if s.flags.fin {
                PktKind::Fin
            } else if !s.payload.is_empty() {
                PktKind::Data
            } else {
                PktKind::Ack
            }
        }
    }
}

pub fn ports(p: &Packet) -> (u16, u16) {
    match &p.payload {
        Transport::Udp(d) => (d.src_port, d.dst_port),
        Transport::Tcp(s) => (s.src_port, s.dst_port),
    }
}

/// Deterministic one-line rendering (no pointers, no hash order).
pub fn desc(p: &Packet) -> String {
    let (sp, dp) = ports(p);
    match &p.payload {
        Transport::Udp(d) => format!("UDP {}:{}>{}:{} len{} tag{:?}", p.src, sp, p.dst, dp, d.payload.len(), tag_of(&d.payload)),
        Transport::Tcp(s) => format!(
            "{} {}:{}>{}:{} seq{} ack{} len{}",
            kind(p).name(),
            p.src,
            sp,
            p.dst,
            dp,
            s.seq,
            s.ack,
            s.payload.len()
        ),
    }
}

/// Probe payloads are 8 bytes, little endian tag.
pub fn tag_bytes(tag: u64) -> [u8; 8] {
    tag.to_le_bytes()
}

pub fn tag_of(b: &[u8]) -> Option<u64> {
    if b.len() == 8 {
        Some(u64::from_le_bytes(b.try_into().unwrap()))
    } else {
        None
    }
}

pub fn ek(e: &std::io::Error) -> String {
    format!("{:?}", e.kind())
}

pub fn res_kind<T>(r: &std::io::Result<T>) -> String {
    match r {
        Ok(_) => "Ok".into(),
        Err(e) => ek(e),
    }
}
