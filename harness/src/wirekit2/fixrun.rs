//! C19, second half: the built-in fixtures (`fixture::ClientServer`, `fixture::lo`) on their own
//! paused current-thread tokio runtime. An observer rule (installed first, always `Pass`) stamps
//! the instant each packet leaves its host; receivers stamp receipt; both on the virtual clock.
//!
//! Oracle (property text): a packet given Deliver(d) is delivered no earlier than d after it left
//! its host and within one tick after that deadline; equal deadlines keep emission order; a
//! dropped packet is never delivered; first non-Pass rule in installation order decides; a rule
//! stops applying when its guard is dropped; loopback / own-address traffic is never shown to
//! rules yet is delivered.

use crate::core::{self, Log, Report, Violation};
use crate::wirekit2::rules::{expected_chain, key_of, rules_disagree, RuleSpec, V};
use crate::wirekit2::{parse_ip, tag_bytes, tag_of};
use serde::{Deserialize, Serialize};
use std::cell::RefCell;
use std::collections::BTreeMap;
use std::future::Future;
use std::net::{IpAddr, SocketAddr};
use std::pin::Pin;
use std::rc::Rc;
use std::task::{Context, Poll};
use std::time::Duration;
use tokio::io::{AsyncRead, AsyncWriteExt, ReadBuf};
use tokio::time::{sleep_until, Instant};
use turmoil_net::fixture::{self, ClientServer};
use turmoil_net::shim::tokio::net::{TcpListener, TcpStream, UdpSocket};
use turmoil_net::{KernelConfig, Packet, Verdict};

pub const UDP_PORT: u16 = 7000;
pub const TCP_PORT: u16 = 8000;
/// Tick of the built-in fixtures (`fixture::TICK`, crate-private constant): 1 ms.
pub const FIX_TICK: Duration = Duration::from_millis(1);

#[derive(Clone, Debug, Serialize, Deserialize, PartialEq)]
pub struct FixRule {
    pub spec: RuleSpec,
    /// node that calls `rule()` from its task
    pub node: usize,
    /// >= 1 (the observer goes in at 0)
    pub at_ms: u32,
    /// guard dropped at this instant; None = `forget`
    pub until_ms: Option<u32>,
}

#[derive(Clone, Debug, Serialize, Deserialize, PartialEq)]
pub struct FixSend {
    pub at_ms: u32,
    pub from: usize,
    pub to: usize,
    /// index into the addresses of `to`; beyond = loopback (only when from == to)
    pub sel: u8,
    /// datagrams sent back to back (UDP)
    pub burst: u8,
    /// a TCP connection carrying one tagged 8-byte message instead of datagrams
    pub tcp: bool,
}

#[derive(Clone, Debug, Serialize, Deserialize)]
pub struct FixSc {
    /// `fixture::lo` (one host, loopback only) instead of `ClientServer`
    pub lo: bool,
    /// node addresses; the last node is the client
    pub nodes: Vec<Vec<String>>,
    pub rules: Vec<FixRule>,
    pub sends: Vec<FixSend>,
    pub run_ms: u32,
}

#[derive(Clone, Debug)]
enum FEv {
    Install(u32),
    Remove(u32),
    Invoke { rule: u32, key: u64, at: Duration },
    Send { tag: u64, from: usize, to: usize, local: bool, tcp: bool, fam4: bool, at: Duration },
    Recv { tag: u64, node: usize, tcp: bool, at: Duration },
}

#[derive(Default)]
struct FixLog {
    t0: Option<Instant>,
    next_tag: u64,
    evs: Vec<FEv>,
}

type Shared = Rc<RefCell<FixLog>>;

fn now(l: &Shared) -> Duration {
    let t0 = l.borrow().t0.expect("t0 set");
    Instant::now() - t0
}

fn fix_rule(spec: RuleSpec, l: Shared) -> impl FnMut(&Packet) -> Verdict + 'static {
    move |p: &Packet| {
        let key = key_of(p);
        let at = now(&l);
        l.borrow_mut().evs.push(FEv::Invoke { rule: spec.id, key, at });
        spec.decide(key).verdict()
    }
}

type BoxFut = Pin<Box<dyn Future<Output = ()>>>;

/// Polls every sub-future on each wake (no spawning: the fixture scopes the current host per
/// root task only) and finishes at the deadline.
struct JoinUntil {
    futs: Vec<Option<BoxFut>>,
    deadline: Pin<Box<tokio::time::Sleep>>,
}

impl Future for JoinUntil {
    type Output = ();
    fn poll(mut self: Pin<&mut Self>, cx: &mut Context<'_>) -> Poll<()> {
        let this = &mut *self;
        for f in this.futs.iter_mut() {
            if let Some(fu) = f {
                if fu.as_mut().poll(cx).is_ready() {
                    *f = None;
                }
            }
        }
        this.deadline.as_mut().poll(cx)
    }
}

fn dst_ip(sc: &FixSc, from: usize, to: usize, sel: u8) -> Option<IpAddr> {
    let a = &sc.nodes[to];
    if (sel as usize) < a.len() {
        Some(parse_ip(&a[sel as usize]))
    } else if from == to {
        Some(if sel % 2 == 0 { "127.0.0.1".parse().unwrap() } else { "::1".parse().unwrap() })
    } else {
        None
    }
}

async fn recv_loop(u: Rc<UdpSocket>, node: usize, l: Shared) {
    let mut b = [0u8; 64];
    loop {
        match u.recv_from(&mut b).await {
            Ok((n, _)) => {
                if let Some(tag) = tag_of(&b[..n]) {
                    let at = now(&l);
                    l.borrow_mut().evs.push(FEv::Recv { tag, node, tcp: false, at });
                }
            }
            Err(_) => return,
        }
    }
}

/// Accepts on both listeners and reads every accepted stream, all inside one future.
async fn acceptor(ls: Vec<TcpListener>, node: usize, l: Shared) {
    let mut streams: Vec<Option<TcpStream>> = Vec::new();
    std::future::poll_fn(move |cx| {
        for li in &ls {
            while let Poll::Ready(Ok((s, _))) = li.poll_accept(cx) {
                streams.push(Some(s));
            }
        }
        for slot in streams.iter_mut() {
            loop {
                let Some(s) = slot else { break };
                let mut raw = [0u8; 64];
                let mut rb = ReadBuf::new(&mut raw);
                match Pin::new(s).poll_read(cx, &mut rb) {
                    Poll::Ready(Ok(())) => {
                        let n = rb.filled().len();
                        if n == 0 {
                            *slot = None;
                            break;
                        }
                        if let Some(tag) = tag_of(rb.filled()) {
                            let at = now(&l);
                            l.borrow_mut().evs.push(FEv::Recv { tag, node, tcp: true, at });
                        }
                    }
                    Poll::Ready(Err(_)) => {
                        *slot = None;
                        break;
                    }
                    Poll::Pending => break,
                }
            }
        }
        Poll::<()>::Pending
    })
    .await
}

fn node_future(ix: usize, sc: Rc<FixSc>, l: Shared) -> BoxFut {
    Box::pin(async move {
        let t0 = Instant::now();
        {
            let mut g = l.borrow_mut();
            if g.t0.is_none() {
                g.t0 = Some(t0);
            }
        }
        let t0 = l.borrow().t0.unwrap();
        let last = sc.nodes.len() - 1;
        if ix == last {
            // the observer: first in the chain for the whole run
            turmoil_net::rule(fix_rule(RuleSpec { id: 0, table: vec![] }, l.clone())).forget();
            l.borrow_mut().evs.push(FEv::Install(0));
        }
        let wild4: IpAddr = "0.0.0.0".parse().unwrap();
        let wild6: IpAddr = "::".parse().unwrap();
        let u4 = Rc::new(UdpSocket::bind((wild4, UDP_PORT)).await.expect("bind"));
        let u6 = Rc::new(UdpSocket::bind((wild6, UDP_PORT)).await.expect("bind"));
        let l4 = TcpListener::bind((wild4, TCP_PORT)).await.expect("bind");
        let l6 = TcpListener::bind((wild6, TCP_PORT)).await.expect("bind");
        let mut futs: Vec<Option<BoxFut>> = Vec::new();
        futs.push(Some(Box::pin(recv_loop(u4.clone(), ix, l.clone()))));
        futs.push(Some(Box::pin(recv_loop(u6.clone(), ix, l.clone()))));
        futs.push(Some(Box::pin(acceptor(vec![l4, l6], ix, l.clone()))));
        for r in sc.rules.iter().filter(|r| r.node == ix) {
            let r = r.clone();
            let l = l.clone();
            futs.push(Some(Box::pin(async move {
                sleep_until(t0 + Duration::from_millis(r.at_ms.max(1) as u64)).await;
                let g = turmoil_net::rule(fix_rule(r.spec.clone(), l.clone()));
                l.borrow_mut().evs.push(FEv::Install(r.spec.id));
                match r.until_ms {
                    Some(u) if u > r.at_ms => {
                        sleep_until(t0 + Duration::from_millis(u as u64)).await;
                        drop(g);
                        l.borrow_mut().evs.push(FEv::Remove(r.spec.id));
                    }
                    Some(_) => {
                        drop(g);
                        l.borrow_mut().evs.push(FEv::Remove(r.spec.id));
                    }
                    None => g.forget(),
                }
            })));
        }
        for s in sc.sends.iter().filter(|s| s.from == ix) {
            let s = s.clone();
            let l = l.clone();
            let sc2 = sc.clone();
            let (u4, u6) = (u4.clone(), u6.clone());
            futs.push(Some(Box::pin(async move {
                let Some(ip) = dst_ip(&sc2, s.from, s.to, s.sel) else { return };
                // a host without an address of the destination family cannot reach it
                if !ip.is_loopback() && !sc2.nodes[s.from].iter().any(|a| parse_ip(a).is_ipv4() == ip.is_ipv4()) {
                    return;
                }
                sleep_until(t0 + Duration::from_millis(s.at_ms as u64)).await;
                let local = s.from == s.to;
                if s.tcp {
                    let tag = {
                        let mut g = l.borrow_mut();
                        g.next_tag += 1;
                        g.next_tag
                    };
                    if let Ok(mut st) = TcpStream::connect(SocketAddr::new(ip, TCP_PORT)).await {
                        let at = now(&l);
                        l.borrow_mut().evs.push(FEv::Send { tag, from: s.from, to: s.to, local, tcp: true, fam4: ip.is_ipv4(), at });
                        let _ = st.write_all(&tag_bytes(tag)).await;
                        std::future::pending::<()>().await;
                    }
                } else {
                    let u = if ip.is_ipv4() { u4 } else { u6 };
                    for _ in 0..s.burst.max(1) {
                        let tag = {
                            let mut g = l.borrow_mut();
                            g.next_tag += 1;
                            g.next_tag
                        };
                        let at = now(&l);
                        if u.send_to(&tag_bytes(tag), SocketAddr::new(ip, UDP_PORT)).await.is_ok() {
                            l.borrow_mut().evs.push(FEv::Send { tag, from: s.from, to: s.to, local, tcp: false, fam4: ip.is_ipv4(), at });
                        }
                    }
                }
            })));
        }
        // servers stop one tick before the client so that they are torn down by themselves
        let extra = if ix == last { 1 } else { 0 };
        let deadline = Box::pin(sleep_until(t0 + Duration::from_millis(sc.run_ms as u64 + extra)));
        JoinUntil { futs, deadline }.await;
    })
}

fn us(d: Duration) -> u64 {
    d.as_micros() as u64
}

struct Emission {
    at: Duration,
    v: V,
    seq: usize,
}

fn judge(sc: &FixSc, evs: &[FEv], log: &mut Log, rep: &mut Report) -> (Option<Violation>, bool) {
    let specs: BTreeMap<u32, RuleSpec> = sc.rules.iter().map(|r| (r.spec.id, r.spec.clone())).chain([(0, RuleSpec { id: 0, table: vec![] })]).collect();
    let mut alive: Vec<RuleSpec> = Vec::new();
    let mut removed: Vec<u32> = Vec::new();
    let mut emissions: BTreeMap<u64, Vec<Emission>> = BTreeMap::new();
    let mut sends: BTreeMap<u64, (usize, usize, bool, bool, bool, Duration)> = BTreeMap::new();
    let mut recvs: BTreeMap<u64, Vec<(usize, bool, Duration, usize)>> = BTreeMap::new();
    let mut nontrivial = false;
    let end = Duration::from_millis(sc.run_ms as u64);
    let mut i = 0;
    while i < evs.len() {
        match &evs[i] {
            FEv::Install(id) => {
                alive.push(specs[id].clone());
                log.ev(format!("install rule{id}"));
                log.tag("install");
                if *id != 0 {
                    rep.probes.inc("rule_installed_from_task");
                }
            }
            FEv::Remove(id) => {
                if let Some(p) = alive.iter().position(|r| r.id == *id) {
                    if p + 1 < alive.len() {
                        rep.probes.inc("guard_dropped_not_last");
                    }
                    alive.remove(p);
                }
                removed.push(*id);
                rep.faults.inc("guard_dropped");
                log.ev(format!("drop guard of rule{id}"));
                log.tag("uninstall");
            }
            FEv::Send { tag, from, to, local, tcp, fam4, at } => {
                sends.insert(*tag, (*from, *to, *local, *tcp, *fam4, *at));
                log.ev(format!("send tag {tag} n{from}->n{to} {} {} at {}us", if *tcp { "tcp" } else { "udp" }, if *local { "own-host" } else { "remote" }, us(*at)));
                log.tag(if *local { "send-local" } else { "send" });
                if *local {
                    rep.probes.inc("own_host_messages");
                }
            }
            FEv::Recv { tag, node, tcp, at } => {
                recvs.entry(*tag).or_default().push((*node, *tcp, *at, i));
                log.ev(format!("recv tag {tag} at n{node} at {}us", us(*at)));
            }
            FEv::Invoke { .. } => {
                // one evaluation: a maximal run of invocations starting at the observer
                let mut j = i;
                let mut calls: Vec<(u32, u64, Duration)> = Vec::new();
                while j < evs.len() {
                    if let FEv::Invoke { rule, key, at } = &evs[j] {
                        if *rule == 0 && !calls.is_empty() {
                            break;
                        }
                        calls.push((*rule, *key, *at));
                        j += 1;
                    } else {
                        break;
                    }
                }
                let key = calls[0].1;
                let at = calls[0].2;
                let ids: Vec<u32> = calls.iter().map(|c| c.0).collect();
                let (exp_ids, v) = expected_chain(&alive, key);
                rep.probes.inc("packets_evaluated");
                if rules_disagree(&alive[1.min(alive.len())..], key) {
                    nontrivial = true;
                    rep.probes.inc("evaluated_with_disagreeing_rules");
                }
                log.ev(format!("eval key {key} at {}us rules {ids:?} -> {}", us(at), v.name()));
                log.tag(&v.name());
                if let Some(d) = ids.iter().find(|x| removed.contains(x)) {
                    return (Some(Violation::new("DeadRuleInvoked", format!("rule{d} was consulted at {}us for packet tag {key} after its guard had been dropped", us(at)))), nontrivial);
                }
                if ids != exp_ids || calls.iter().any(|c| c.1 != key) {
                    return (Some(Violation::new("RuleChain", format!("at {}us packet tag {key}: rules consulted {ids:?}; alive rules in installation order up to the first non-Pass are {exp_ids:?}", us(at)))), nontrivial);
                }
                emissions.entry(key).or_default().push(Emission { at, v, seq: i });
                i = j;
                continue;
            }
        }
        i += 1;
    }
    // per message
    let mut groups: BTreeMap<(usize, bool), Vec<(u64, usize, usize, u64)>> = BTreeMap::new();
    for (tag, (from, to, local, tcp, fam4, sent_at)) in &sends {
        let em = emissions.get(tag).map(|v| v.as_slice()).unwrap_or(&[]);
        let rc = recvs.get(tag).map(|v| v.as_slice()).unwrap_or(&[]);
        let what = format!("{} tag {tag} n{from}->n{to} sent at {}us", if *tcp { "tcp message" } else { "datagram" }, us(*sent_at));
        if rc.len() > 1 {
            return (Some(Violation::new("Duplicated", format!("{what} was received {} times", rc.len()))), nontrivial);
        }
        if let Some((node, _, _, _)) = rc.first() {
            if node != to {
                return (Some(Violation::new("Misdelivered", format!("{what} was received by n{node}"))), nontrivial);
            }
        }
        if *local {
            if !em.is_empty() {
                return (Some(Violation::new("LoopbackShownToRules", format!("{what} stays on its host but was shown to the rule chain at {}us", us(em[0].at)))), nontrivial);
            }
            if rc.is_empty() && *sent_at + 3 * FIX_TICK <= end && !*tcp {
                return (Some(Violation::new("LoopbackNotDelivered", format!("{what} to the sending host itself was never received"))), nontrivial);
            }
            if !rc.is_empty() {
                rep.probes.inc("own_host_messages_delivered");
            }
            continue;
        }
        if em.is_empty() {
            continue; // never left its host before the run ended
        }
        let window = |e: &Emission| -> Option<(Duration, Duration)> {
            match e.v {
                V::Drop => None,
                V::Pass => Some((e.at, e.at + FIX_TICK)),
                V::Deliver(d) => Some((e.at + Duration::from_micros(d as u64), e.at + Duration::from_micros(d as u64) + FIX_TICK)),
            }
        };
        if *tcp {
            if let Some((_, _, r, _)) = rc.first() {
                let ok = em.iter().filter_map(window).any(|(lo, hi)| *r >= lo && *r <= hi);
                if em.iter().all(|e| e.v == V::Drop) {
                    return (Some(Violation::new("DroppedPacketDelivered", format!("{what}: every emission of its segment was dropped by a rule, yet it was read at {}us", us(*r)))), nontrivial);
                }
                if !ok {
                    let ws: Vec<String> = em.iter().map(|e| format!("{}us {}", us(e.at), e.v.name())).collect();
                    return (Some(Violation::new("DeliveryWindow", format!("{what} was read at {}us; emissions of its segment: {ws:?}; no emission has the read inside [egress+d, egress+d+1ms]", us(*r)))), nontrivial);
                }
                rep.probes.inc("tcp_messages_timed");
            }
            continue;
        }
        if em.len() > 1 {
            return (Some(Violation::new("RuleChain", format!("{what} was shown to the rule chain {} times", em.len()))), nontrivial);
        }
        let e = &em[0];
        match window(e) {
            None => {
                rep.faults.inc("verdict_drop");
                if let Some((_, _, r, _)) = rc.first() {
                    return (Some(Violation::new("DroppedPacketDelivered", format!("{what} got Drop at {}us yet was received at {}us", us(e.at), us(*r)))), nontrivial);
                }
            }
            Some((lo, hi)) => {
                match e.v {
                    V::Deliver(d) if d > 0 => {
                        rep.faults.inc("verdict_delay");
                        if d % 1000 != 0 {
                            rep.probes.inc("delay_not_multiple_of_tick");
                        }
                    }
                    _ => {}
                }
                match rc.first() {
                    None => {
                        if hi + FIX_TICK <= end {
                            return (Some(Violation::new("NotDelivered", format!("{what} left its host at {}us with {}; not received by {}us (run end {}us)", us(e.at), e.v.name(), us(hi), us(end)))), nontrivial);
                        }
                    }
                    Some((_, _, r, rseq)) => {
                        if *r < lo {
                            return (Some(Violation::new("DeliveredEarly", format!("{what} left its host at {}us with {}; received at {}us, before the deadline {}us", us(e.at), e.v.name(), us(*r), us(lo)))), nontrivial);
                        }
                        if *r > hi {
                            return (Some(Violation::new("DeliveredLate", format!("{what} left its host at {}us with {}; received at {}us, more than one tick after the deadline {}us", us(e.at), e.v.name(), us(*r), us(lo)))), nontrivial);
                        }
                        groups.entry((*to, *fam4)).or_default().push((us(lo), e.seq, *rseq, *tag));
                    }
                }
            }
        }
    }
    // equal deadlines keep emission order (per receiving socket)
    for ((node, _), mut g) in groups {
        g.sort();
        for w in g.windows(2) {
            if w[0].0 == w[1].0 {
                rep.probes.inc("equal_deadline_pairs");
                if w[0].2 > w[1].2 {
                    return (
                        Some(Violation::new("EqualDeadlineOrder", format!("datagrams tag {} and tag {} for n{node} share the deadline {}us; tag {} left its host first but was received second", w[0].3, w[1].3, w[0].0, w[0].3))),
                        nontrivial,
                    );
                }
            }
        }
        // crossing deadlines: a later emission with an earlier deadline
        let mut by_em = g.clone();
        by_em.sort_by_key(|x| x.1);
        if by_em.windows(2).any(|w| w[1].0 < w[0].0) {
            rep.probes.inc("crossing_deadlines");
        }
    }
    (None, nontrivial)
}

pub fn run_fixture(sc: &FixSc, keep: bool) -> Report {
    let mut log = Log::new(keep);
    let mut rep = Report::default();
    let shared: Shared = Rc::new(RefCell::new(FixLog::default()));
    let scr = Rc::new(sc.clone());
    let n = sc.nodes.len();
    let cfg = KernelConfig::default();
    let l2 = shared.clone();
    let r = core::catch(move || {
        if scr.lo {
            fixture::lo_with_config(cfg, node_future(0, scr.clone(), l2.clone()));
        } else {
            let mut cs = ClientServer::with_config(cfg);
            for ix in 0..n - 1 {
                let addrs: Vec<IpAddr> = scr.nodes[ix].iter().map(|a| parse_ip(a)).collect();
                cs = cs.server(addrs, node_future(ix, scr.clone(), l2.clone()));
            }
            let addrs: Vec<IpAddr> = scr.nodes[n - 1].iter().map(|a| parse_ip(a)).collect();
            cs.run(addrs, node_future(n - 1, scr.clone(), l2.clone()));
        }
    });
    let evs = std::mem::take(&mut shared.borrow_mut().evs);
    let (v, nontrivial) = match r {
        Err(msg) => (Some(Violation::new("Panic", format!("fixture run panicked: {msg}"))), false),
        Ok(()) => {
            let (mut v, nt) = judge(sc, &evs, &mut log, &mut rep);
            if sc.lo && evs.iter().any(|e| matches!(e, FEv::Invoke { .. })) && v.is_none() {
                v = Some(Violation::new("LoopbackShownToRules", "a rule was invoked in a loopback-only fixture".to_string()));
            }
            (v, nt)
        }
    };
    if let Some(v) = &v {
        log.ev(format!("VIOLATION {}: {}", v.class, v.message));
    }
    rep.steps = sc.run_ms as u64;
    rep.sim_ms = sc.run_ms as u64;
    rep.abstract_digest = log.abs_digest();
    rep.full_digest = log.full_digest();
    rep.log = log.lines;
    rep.violation = v;
    rep.nontrivial = nontrivial;
    rep
}
