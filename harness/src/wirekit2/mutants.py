#!/usr/bin/env python3
"""Sensitivity mutants for C13 / C17 / C19 on a scratch copy of /repo (never /repo itself): the harness is
built with cargo's `paths` override so that only turmoil-net comes from the scratch copy.
env BASEFIX=1: apply /verif/proposed/C13-*.diff to the scratch copy first (C13 needs a quiet baseline);
env COUNT=n: --count n.  Scratch dirs: /tmp/w2/repo-mut, target dir /tmp/tgt-w2m.
usage: mut.py <mutant> <ID> [<ID>...]   -> builds vcheck against the mutated turmoil-net and runs the quick tier"""
import subprocess, sys, os, shutil
SCR='/tmp/w2/repo-mut'
TN=SCR+'/crates/turmoil-net/src/'
M={
 'remove_binding': [('kernel/socket.rs','''        self.bindings.retain(|_, fds| {
            fds.retain(|&f| f != fd);
            !fds.is_empty()
        });
        self.connections.retain(|_, f| *f != fd);''','''        self.connections.retain(|_, f| *f != fd);''')],
 'wild_first': [('kernel/udp.rs','''    let target = k.sockets.find_by_bind(&exact).first().copied().or_else(|| {
        k.sockets
            .find_by_bind(&BindKey {
                domain,
                ty: Type::Dgram,
                local_addr: wildcard_ip,
                local_port: d.dst_port,
            })
            .first()
            .copied()
    });''','''    let target = k
        .sockets
        .find_by_bind(&BindKey {
            domain,
            ty: Type::Dgram,
            local_addr: wildcard_ip,
            local_port: d.dst_port,
        })
        .first()
        .copied()
        .or_else(|| k.sockets.find_by_bind(&exact).first().copied());'''),
   ('kernel/tcp.rs','for key in [&exact, &wildcard] {','for key in [&wildcard, &exact] {')],
 'no_wild_fallback': [('kernel/tcp.rs','for key in [&exact, &wildcard] {','for key in [&exact] {')],
 'listener_first': [('kernel/tcp.rs','''    if let Some(fd) = k.sockets.find_connection(local, remote) {
        handle_on_connection(k, fd, local, remote, s);
        return;
    }

    // Listener fallback''','''    if s.flags.syn && !s.flags.ack {
        if let Some(listener) = find_listener(k, local) {
            accept_syn(k, listener, local, remote, s);
            return;
        }
    }
    if let Some(fd) = k.sockets.find_connection(local, remote) {
        handle_on_connection(k, fd, local, remote, s);
        return;
    }

    // Listener fallback''')],
 'listener_first_all': [('kernel/tcp.rs','''    if let Some(fd) = k.sockets.find_connection(local, remote) {
        handle_on_connection(k, fd, local, remote, s);
        return;
    }

    // Listener fallback''','''    if find_listener(k, local).is_none() || (s.flags.syn && !s.flags.ack) && k.sockets.find_connection(local, remote).is_none() {
    } else if !s.flags.syn {
        if !s.flags.rst { emit_rst(k, local, remote, s); }
        return;
    }
    if let Some(fd) = k.sockets.find_connection(local, remote) {
        handle_on_connection(k, fd, local, remote, s);
        return;
    }

    // Listener fallback''')],
 'udp_nonpeer': [('kernel/udp.rs','''    if let Some(peer) = &st.peer {
        if peer != &from {
            return;
        }
    }''','''''')],
 'bind_nowild': [('kernel/mod.rs','''            if existing.local_addr == key.local_addr
                || existing.local_addr.is_unspecified()
                || key.local_addr.is_unspecified()
            {''','''            if existing.local_addr == key.local_addr {''')],
 'alloc_ignores_family': [('kernel/socket.rs','''                .any(|k| k.domain == domain && k.ty == ty && k.local_port == p)
        })''','''                .any(|k| k.domain == domain && k.ty == ty && k.local_port == p && k.local_addr.is_unspecified())
        })''')],
 'no_reap': [('kernel/tcp.rs','''    for fd in victims {
        k.sockets.remove(fd);
    }
}

/// Mark a connection as aborted.''','''    let _ = victims;
}

/// Mark a connection as aborted.''')],
 'backlog_off_by_one': [('kernel/tcp.rs','if in_flight + ready >= backlog {','if in_flight + ready > backlog {')],
 'accept_lifo': [('kernel/mod.rs','if let Some(child) = listen.ready.pop_front() {','if let Some(child) = listen.ready.pop_back() {')],
 'listener_drop_keeps_children': [('kernel/tcp.rs','                );\n                k.sockets.remove(child);\n            }\n            true','                );\n            }\n            true')],
 'no_fdguard': [('shim/tokio/net/tcp/stream.rs','        if self.armed {\n            sys(|k| k.close(self.fd));\n        }','        let _ = self.armed;')],
 'swap_remove': [('lib.rs','self.rules.shift_remove(&id);','self.rules.swap_remove(&id);')],
 'last_wins': [('lib.rs','''        for rule in self.rules.values_mut() {
            match rule.on_packet(pkt) {
                Verdict::Pass => continue,
                v => return v,
            }
        }
        Verdict::Pass''','''        let mut out = Verdict::Pass;
        for rule in self.rules.values_mut() {
            match rule.on_packet(pkt) {
                Verdict::Pass => continue,
                v => out = v,
            }
        }
        out''')],
 'sched_deadline_only': [('fixture/scheduler.rs','.binary_search_by(|s| (s.deliver_at, s.seq).cmp(&(entry.deliver_at, entry.seq)))','.binary_search_by(|s| s.deliver_at.cmp(&entry.deliver_at))')],
 'sched_late': [('fixture/scheduler.rs','.position(|s| s.deliver_at > self.now)','.position(|s| s.deliver_at + dt > self.now)')],
 'sched_early': [('fixture/scheduler.rs','.position(|s| s.deliver_at > self.now)','.position(|s| s.deliver_at > self.now + dt)')],
 'loopback_to_rules': [('kernel/mod.rs','''                if self.is_local(pkt.dst) {
                    self.deliver(pkt);''','''                if pkt.dst.is_loopback() {
                    self.deliver(pkt);''')],
 'drop_delivered': [('fixture/scheduler.rs','Verdict::Drop => {}','Verdict::Drop => self.schedule(pkt, Duration::from_millis(7)),')],
}
def sync():
    subprocess.run(['rsync','-a','--delete','--exclude','target','--exclude','.git','/repo/',SCR+'/'],check=True)
    if os.environ.get('BASEFIX'):
        for d in ['C13-synreceived-child-never-reaped.diff','C13-orphan-finwait2-never-reclaimed.diff']:
            subprocess.run(['patch','-p1','-s','-i','/verif/proposed/'+d],cwd=SCR,check=True)
def main():
    name=sys.argv[1]; ids=sys.argv[2:]
    sync()
    for f,old,new in M[name]:
        p=TN+f; s=open(p).read()
        if s.count(old)!=1:
            print('MUTANT DOES NOT APPLY (count=%d): %s %s'%(s.count(old),name,f)); sys.exit(3)
        open(p,'w').write(s.replace(old,new))
    env=dict(os.environ,CARGO_TARGET_DIR='/tmp/tgt-w2m')
    r=subprocess.run(['cargo','build','--release','--offline','--no-default-features','--features','kit-wire2','--config','paths=["/tmp/w2/repo-mut/crates/turmoil-net"]'],cwd='/verif/harness',env=env,capture_output=True,text=True)
    if r.returncode!=0:
        print(r.stderr[-3000:]); sync(); sys.exit(3)
    for i in ids:
        r=subprocess.run(['/tmp/tgt-w2m/release/vcheck',i,'--tier','quick']+(['--count',os.environ['COUNT']] if os.environ.get('COUNT') else []),capture_output=True,text=True,env=dict(os.environ,VERIF_SEED=os.environ.get('VERIF_SEED','1')))
        lines=r.stdout.strip().split('\n')
        print('== mutant %s on %s: exit %d'%(name,i,r.returncode))
        for l in lines:
            if l.startswith('violation') or l.startswith('VIOLATION') or l.startswith(i+' tier') or l.startswith('KNOWN'):
                print('   '+l[:600])
        if r.stderr.strip(): print('   stderr: '+r.stderr.strip()[:500])
    sync()
main()
