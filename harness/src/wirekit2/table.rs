//! Reference socket table, written from the text of property C17 only.
//!
//! * bind succeeds iff the address is local (or the wildcard) and no live socket of the same
//!   protocol conflicts on the port: same address, or a wildcard against any address;
//!   otherwise AddrInUse / AddrNotAvailable;
//! * port 0 yields an ephemeral port not in use at any local address; close frees;
//! * an inbound packet goes to the host owning the destination address and there to the socket
//!   whose binding matches: exact address before wildcard, established connection before
//!   listener, connected UDP only from its peer; otherwise to nobody.
//!
//! Where the text is silent the model answers `Either`/`OneOf` and the oracle does not judge:
//! IPv4 and IPv6 are separate port spaces here (a v4 address never equals a v6 address), but a
//! wildcard of one family against a socket of the other family on the same port is ambiguous
//! ("a wildcard against any address") and is left unjudged.

use std::collections::BTreeSet;
use std::net::{IpAddr, SocketAddr};

pub const EPH_LO: u16 = 49152;
pub const EPH_HI: u16 = 65535;
pub const EPH_SIZE: usize = (EPH_HI as usize) - (EPH_LO as usize) + 1;

#[derive(Clone, Copy, Debug, PartialEq, Eq, PartialOrd, Ord, serde::Serialize, serde::Deserialize)]
pub enum Proto {
    Udp,
    Tcp,
}

#[derive(Clone, Debug, PartialEq, Eq)]
pub enum Role {
    Udp { peer: Option<SocketAddr> },
    Listener,
    Conn { remote: SocketAddr },
}

#[derive(Clone, Debug)]
pub struct MSock {
    pub id: u32,
    pub proto: Proto,
    /// ip may be the wildcard
    pub local: SocketAddr,
    pub role: Role,
}

/// Many sockets of one protocol bound to one address on distinct ports (range-filling in the
/// thorough tier); kept as a set so that the model stays cheap.
#[derive(Clone, Debug)]
pub struct Bulk {
    pub proto: Proto,
    pub ip: IpAddr,
    pub ports: BTreeSet<u16>,
}

#[derive(Clone, Debug, Default)]
pub struct MHost {
    pub addrs: Vec<IpAddr>,
    pub socks: Vec<MSock>,
    pub bulk: Vec<Bulk>,
}

#[derive(Clone, Debug, Default)]
pub struct Model {
    pub hosts: Vec<MHost>,
}

#[derive(Clone, Debug, PartialEq, Eq)]
pub enum BindExp {
    Ok,
    /// must fail with one of these kinds
    Err(Vec<&'static str>),
    /// text silent: Ok or AddrInUse
    Either,
}

#[derive(Clone, Debug, PartialEq, Eq)]
pub enum UdpExp {
    /// exactly this socket (host, id) or nobody
    Exactly(Option<(usize, u32)>),
    /// unjudged between these
    OneOf(Vec<Option<(usize, u32)>>),
}

#[derive(Clone, Debug, PartialEq, Eq)]
pub enum SynExp {
    Listener(usize, u32),
    Refused,
    /// nobody owns the address: the attempt must not succeed, nobody may accept it
    Unreachable,
    Unjudged,
}

fn same_family(a: IpAddr, b: IpAddr) -> bool {
    a.is_ipv4() == b.is_ipv4()
}

impl Model {
    pub fn new(addrs: &[Vec<IpAddr>]) -> Model {
        Model { hosts: addrs.iter().map(|a| MHost { addrs: a.clone(), ..Default::default() }).collect() }
    }

    pub fn is_local(&self, h: usize, ip: IpAddr) -> bool {
        ip.is_loopback() || self.hosts[h].addrs.contains(&ip)
    }

    pub fn owner(&self, ip: IpAddr) -> Option<usize> {
        self.hosts.iter().position(|m| m.addrs.contains(&ip))
    }

    pub fn has_family(&self, h: usize, v4: bool) -> bool {
        self.hosts[h].addrs.iter().any(|a| a.is_ipv4() == v4)
    }

    /// All (ip, port) pairs of live sockets of `proto` on host `h`, bulk included.
    fn bound(&self, h: usize, proto: Proto) -> impl Iterator<Item = (IpAddr, u16)> + '_ {
        let m = &self.hosts[h];
        m.socks
            .iter()
            .filter(move |s| s.proto == proto)
            .map(|s| (s.local.ip(), s.local.port()))
            .chain(m.bulk.iter().filter(move |b| b.proto == proto).flat_map(|b| b.ports.iter().map(move |p| (b.ip, *p))))
    }

    fn bound_on_port(&self, h: usize, proto: Proto, port: u16) -> Vec<IpAddr> {
        let m = &self.hosts[h];
        let mut v: Vec<IpAddr> = m.socks.iter().filter(|s| s.proto == proto && s.local.port() == port).map(|s| s.local.ip()).collect();
        for b in m.bulk.iter().filter(|b| b.proto == proto) {
            if b.ports.contains(&port) {
                v.push(b.ip);
            }
        }
        v
    }

    /// Expectation for `bind(ip:port)` with a fixed (non-zero) port.
    pub fn bind_fixed(&self, h: usize, proto: Proto, ip: IpAddr, port: u16) -> BindExp {
        let nonlocal = !ip.is_unspecified() && !self.is_local(h, ip);
        let on_port = self.bound_on_port(h, proto, port);
        let definite = on_port.iter().any(|e| same_family(*e, ip) && (*e == ip || e.is_unspecified() || ip.is_unspecified()));
        let ambiguous = on_port.iter().any(|e| !same_family(*e, ip) && (e.is_unspecified() || ip.is_unspecified()));
        match (nonlocal, definite, ambiguous) {
            (true, true, _) | (true, _, true) => BindExp::Err(vec!["AddrNotAvailable", "AddrInUse"]),
            (true, false, false) => BindExp::Err(vec!["AddrNotAvailable"]),
            (false, true, _) => BindExp::Err(vec!["AddrInUse"]),
            (false, false, true) => BindExp::Either,
            (false, false, false) => BindExp::Ok,
        }
    }

    /// Is `port` in use by a live socket of `proto` in the family of `v4` at any local address?
    pub fn port_in_use(&self, h: usize, proto: Proto, v4: bool, port: u16) -> bool {
        self.bound_on_port(h, proto, port).iter().any(|e| e.is_ipv4() == v4)
    }

    /// Number of ephemeral ports not in use (same protocol and family) on host `h`.
    pub fn free_ephemeral(&self, h: usize, proto: Proto, v4: bool) -> usize {
        let used: BTreeSet<u16> = self.bound(h, proto).filter(|(ip, p)| ip.is_ipv4() == v4 && *p >= EPH_LO).map(|(_, p)| p).collect();
        EPH_SIZE - used.len()
    }

    /// Expectation for `bind(ip:0)`: Ok (then the port is checked with `port_in_use`) or an error.
    pub fn bind_zero(&self, h: usize, proto: Proto, ip: IpAddr) -> BindExp {
        let nonlocal = !ip.is_unspecified() && !self.is_local(h, ip);
        let free = self.free_ephemeral(h, proto, ip.is_ipv4());
        match (nonlocal, free == 0) {
            (true, true) => BindExp::Err(vec!["AddrNotAvailable", "AddrInUse"]),
            (true, false) => BindExp::Err(vec!["AddrNotAvailable"]),
            (false, true) => BindExp::Err(vec!["AddrInUse"]),
            (false, false) => BindExp::Ok,
        }
    }

    pub fn add(&mut self, h: usize, s: MSock) {
        self.hosts[h].socks.push(s);
    }

    pub fn remove(&mut self, h: usize, id: u32) -> Option<MSock> {
        let i = self.hosts[h].socks.iter().position(|s| s.id == id)?;
        Some(self.hosts[h].socks.remove(i))
    }

    pub fn get(&self, h: usize, id: u32) -> Option<&MSock> {
        self.hosts[h].socks.iter().find(|s| s.id == id)
    }

    pub fn get_mut(&mut self, h: usize, id: u32) -> Option<&mut MSock> {
        self.hosts[h].socks.iter_mut().find(|s| s.id == id)
    }

    /// Host a packet to `dst` ends up on when sent from host `from`.
    pub fn dest_host(&self, from: usize, dst: IpAddr) -> Option<usize> {
        if dst.is_loopback() {
            Some(from)
        } else {
            self.owner(dst)
        }
    }

    /// Who observes a UDP datagram sent from host `from` (source port `sport`, source ip known only
    /// when the sender is bound to a specific address) to `dst`?
    pub fn route_udp(&self, from: usize, src_ip: Option<IpAddr>, sport: u16, dst: SocketAddr) -> UdpExp {
        let Some(dh) = self.dest_host(from, dst.ip()) else {
            return UdpExp::Exactly(None);
        };
        let cand = |want_wild: bool, want_same_family: bool| -> Option<&MSock> {
            self.hosts[dh].socks.iter().find(|s| {
                s.proto == Proto::Udp
                    && s.local.port() == dst.port()
                    && same_family(s.local.ip(), dst.ip()) == want_same_family
                    && if want_wild { s.local.ip().is_unspecified() } else { s.local.ip() == dst.ip() }
            })
        };
        let target = cand(false, true).or_else(|| cand(true, true));
        // range-filling sockets are kept as a set and never read: a datagram for one of them is
        // simply not observed
        if target.is_none() && self.hosts[dh].bulk.iter().any(|b| b.proto == Proto::Udp && b.ports.contains(&dst.port()) && (b.ip == dst.ip() || b.ip.is_unspecified())) {
            return UdpExp::Exactly(None);
        }
        let Some(t) = target else {
            // a wildcard of the other family on that port: dual-stack behaviour is not specified
            if let Some(x) = cand(true, false) {
                return UdpExp::OneOf(vec![None, Some((dh, x.id))]);
            }
            return UdpExp::Exactly(None);
        };
        let Role::Udp { peer } = &t.role else {
            return UdpExp::Exactly(None);
        };
        match peer {
            None => UdpExp::Exactly(Some((dh, t.id))),
            Some(p) => match src_ip {
                Some(ip) => {
                    if SocketAddr::new(ip, sport) == *p {
                        UdpExp::Exactly(Some((dh, t.id)))
                    } else {
                        UdpExp::Exactly(None)
                    }
                }
                None => {
                    // wildcard-bound sender: the source address is the stack's choice among the
                    // sender's addresses; only a certain mismatch is judged
                    let could_be = p.port() == sport && self.is_local(from, p.ip());
                    if could_be {
                        UdpExp::OneOf(vec![None, Some((dh, t.id))])
                    } else {
                        UdpExp::Exactly(None)
                    }
                }
            },
        }
    }

    /// The UDP socket whose binding matches `dst` (exact before wildcard, same family), peer filter
    /// not applied. Used for coverage counters only.
    pub fn udp_binding_match(&self, from: usize, dst: SocketAddr) -> Option<(usize, &MSock)> {
        let dh = self.dest_host(from, dst.ip())?;
        let socks = &self.hosts[dh].socks;
        let on = |ip: IpAddr| socks.iter().find(|s| s.proto == Proto::Udp && s.local.port() == dst.port() && s.local.ip() == ip);
        let wild: IpAddr = if dst.is_ipv4() { "0.0.0.0".parse().unwrap() } else { "::".parse().unwrap() };
        on(dst.ip()).or_else(|| on(wild)).map(|s| (dh, s))
    }

    /// Who gets a connection attempt from host `from` to `dst`?
    pub fn route_syn(&self, from: usize, dst: SocketAddr) -> SynExp {
        let Some(dh) = self.dest_host(from, dst.ip()) else {
            return SynExp::Unreachable;
        };
        let find = |wild: bool, same: bool| -> Option<&MSock> {
            self.hosts[dh].socks.iter().find(|s| {
                s.proto == Proto::Tcp
                    && s.role == Role::Listener
                    && s.local.port() == dst.port()
                    && same_family(s.local.ip(), dst.ip()) == same
                    && if wild { s.local.ip().is_unspecified() } else { s.local.ip() == dst.ip() }
            })
        };
        if let Some(l) = find(false, true).or_else(|| find(true, true)) {
            return SynExp::Listener(dh, l.id);
        }
        if find(true, false).is_some() {
            return SynExp::Unjudged;
        }
        // range-filling listeners (kept as a set, never accepted from) are not probed
        if self.hosts[dh].bulk.iter().any(|b| b.proto == Proto::Tcp && b.ports.contains(&dst.port()) && (b.ip == dst.ip() || b.ip.is_unspecified())) {
            return SynExp::Unjudged;
        }
        SynExp::Refused
    }

    /// Do at least two live sockets share a port number on one host?
    pub fn port_shared(&self) -> bool {
        self.hosts.iter().any(|m| {
            let mut seen = BTreeSet::new();
            m.socks.iter().any(|s| !seen.insert(s.local.port()))
        })
    }
}

#[cfg(test)]
mod tests {
    use super::*;

    fn ip(s: &str) -> IpAddr {
        s.parse().unwrap()
    }
    fn sa(s: &str) -> SocketAddr {
        s.parse().unwrap()
    }
    fn udp(id: u32, local: &str, peer: Option<&str>) -> MSock {
        MSock { id, proto: Proto::Udp, local: sa(local), role: Role::Udp { peer: peer.map(sa) } }
    }
    fn lst(id: u32, local: &str) -> MSock {
        MSock { id, proto: Proto::Tcp, local: sa(local), role: Role::Listener }
    }
    fn two_hosts() -> Model {
        Model::new(&[vec![ip("10.0.0.1"), ip("10.0.0.2"), ip("fd00::1")], vec![ip("10.0.1.1")]])
    }

    #[test]
    fn bind_matrix() {
        let mut m = two_hosts();
        assert_eq!(m.bind_fixed(0, Proto::Udp, ip("10.0.0.1"), 5000), BindExp::Ok);
        assert_eq!(m.bind_fixed(0, Proto::Udp, ip("10.0.1.1"), 5000), BindExp::Err(vec!["AddrNotAvailable"]));
        assert_eq!(m.bind_fixed(0, Proto::Udp, ip("127.0.0.1"), 5000), BindExp::Ok);
        m.add(0, udp(1, "10.0.0.1:5000", None));
        // same address
        assert_eq!(m.bind_fixed(0, Proto::Udp, ip("10.0.0.1"), 5000), BindExp::Err(vec!["AddrInUse"]));
        // other specific address, other protocol, other host: fine
        assert_eq!(m.bind_fixed(0, Proto::Udp, ip("10.0.0.2"), 5000), BindExp::Ok);
        assert_eq!(m.bind_fixed(0, Proto::Tcp, ip("10.0.0.1"), 5000), BindExp::Ok);
        assert_eq!(m.bind_fixed(1, Proto::Udp, ip("10.0.1.1"), 5000), BindExp::Ok);
        // wildcard against any address
        assert_eq!(m.bind_fixed(0, Proto::Udp, ip("0.0.0.0"), 5000), BindExp::Err(vec!["AddrInUse"]));
        // other family wildcard: unjudged; other family specific: fine
        assert_eq!(m.bind_fixed(0, Proto::Udp, ip("::"), 5000), BindExp::Either);
        assert_eq!(m.bind_fixed(0, Proto::Udp, ip("fd00::1"), 5000), BindExp::Ok);
        m.remove(0, 1);
        assert_eq!(m.bind_fixed(0, Proto::Udp, ip("0.0.0.0"), 5000), BindExp::Ok);
        m.add(0, udp(2, "0.0.0.0:5000", None));
        assert_eq!(m.bind_fixed(0, Proto::Udp, ip("10.0.0.2"), 5000), BindExp::Err(vec!["AddrInUse"]));
        assert_eq!(m.bind_fixed(0, Proto::Udp, ip("9.9.9.9"), 5000), BindExp::Err(vec!["AddrNotAvailable", "AddrInUse"]));
    }

    #[test]
    fn ephemeral() {
        let mut m = two_hosts();
        assert_eq!(m.free_ephemeral(0, Proto::Udp, true), EPH_SIZE);
        m.add(0, udp(1, "10.0.0.1:49152", None));
        assert!(m.port_in_use(0, Proto::Udp, true, 49152));
        assert!(!m.port_in_use(0, Proto::Udp, false, 49152));
        assert!(!m.port_in_use(0, Proto::Tcp, true, 49152));
        assert_eq!(m.free_ephemeral(0, Proto::Udp, true), EPH_SIZE - 1);
        m.hosts[0].bulk.push(Bulk { proto: Proto::Udp, ip: ip("10.0.0.2"), ports: (49153..=65535).collect() });
        assert_eq!(m.free_ephemeral(0, Proto::Udp, true), 0);
        assert_eq!(m.bind_zero(0, Proto::Udp, ip("127.0.0.1")), BindExp::Err(vec!["AddrInUse"]));
        assert_eq!(m.bind_zero(0, Proto::Udp, ip("::1")), BindExp::Ok);
        assert_eq!(m.bind_zero(0, Proto::Tcp, ip("0.0.0.0")), BindExp::Ok);
        assert_eq!(m.bind_fixed(0, Proto::Udp, ip("10.0.0.2"), 50000), BindExp::Err(vec!["AddrInUse"]));
        assert_eq!(m.bind_fixed(0, Proto::Udp, ip("10.0.0.1"), 50000), BindExp::Ok);
    }

    #[test]
    fn udp_routing() {
        let mut m = two_hosts();
        m.add(0, udp(1, "10.0.0.1:5000", None));
        m.add(0, udp(2, "10.0.0.2:5000", Some("10.0.1.1:7000")));
        m.add(1, udp(3, "0.0.0.0:5000", None));
        // exact socket on the owning host
        assert_eq!(m.route_udp(1, Some(ip("10.0.1.1")), 7000, sa("10.0.0.1:5000")), UdpExp::Exactly(Some((0, 1))));
        // connected: only from the peer
        assert_eq!(m.route_udp(1, Some(ip("10.0.1.1")), 7000, sa("10.0.0.2:5000")), UdpExp::Exactly(Some((0, 2))));
        assert_eq!(m.route_udp(1, Some(ip("10.0.1.1")), 7001, sa("10.0.0.2:5000")), UdpExp::Exactly(None));
        assert_eq!(m.route_udp(1, None, 7000, sa("10.0.0.2:5000")), UdpExp::OneOf(vec![None, Some((0, 2))]));
        assert_eq!(m.route_udp(1, None, 7001, sa("10.0.0.2:5000")), UdpExp::Exactly(None));
        // wildcard catches any local address incl. loopback, on its own host only
        assert_eq!(m.route_udp(0, Some(ip("10.0.0.1")), 5000, sa("10.0.1.1:5000")), UdpExp::Exactly(Some((1, 3))));
        assert_eq!(m.route_udp(1, None, 9, sa("127.0.0.1:5000")), UdpExp::Exactly(Some((1, 3))));
        assert_eq!(m.route_udp(0, None, 9, sa("127.0.0.1:5000")), UdpExp::Exactly(None));
        // unknown address, unbound port, v6 to v4-only port
        assert_eq!(m.route_udp(0, None, 9, sa("10.9.9.9:5000")), UdpExp::Exactly(None));
        assert_eq!(m.route_udp(0, None, 9, sa("10.0.1.1:5001")), UdpExp::Exactly(None));
        assert_eq!(m.route_udp(0, None, 9, sa("[fd00::1]:5000")), UdpExp::Exactly(None));
    }

    #[test]
    fn syn_routing() {
        let mut m = two_hosts();
        m.add(0, lst(1, "10.0.0.1:80"));
        m.add(1, lst(2, "0.0.0.0:80"));
        assert_eq!(m.route_syn(1, sa("10.0.0.1:80")), SynExp::Listener(0, 1));
        assert_eq!(m.route_syn(1, sa("10.0.0.2:80")), SynExp::Refused);
        assert_eq!(m.route_syn(0, sa("10.0.1.1:80")), SynExp::Listener(1, 2));
        assert_eq!(m.route_syn(1, sa("127.0.0.1:80")), SynExp::Listener(1, 2));
        assert_eq!(m.route_syn(0, sa("127.0.0.1:80")), SynExp::Refused);
        assert_eq!(m.route_syn(0, sa("10.7.7.7:80")), SynExp::Unreachable);
        assert_eq!(m.route_syn(0, sa("[fd00::1]:80")), SynExp::Refused);
        assert!(m.port_shared() == false);
        m.add(0, lst(3, "10.0.0.2:80"));
        assert!(m.port_shared());
    }
}
