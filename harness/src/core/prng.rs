//! The harness's own PRNG (SplitMix64 seeding xoshiro256**). Implemented here, not taken from
//! `rand`, so that the stream of a given VERIF_SEED never changes with a dependency.

#[derive(Clone, Debug)]
pub struct Rng {
    s: [u64; 4],
}

pub fn splitmix(x: &mut u64) -> u64 {
    *x = x.wrapping_add(0x9E37_79B9_7F4A_7C15);
    let mut z = *x;
    z = (z ^ (z >> 30)).wrapping_mul(0xBF58_476D_1CE4_E5B9);
    z = (z ^ (z >> 27)).wrapping_mul(0x94D0_49BB_1331_11EB);
    z ^ (z >> 31)
}

/// Mix three integers into one seed (property id hash, VERIF_SEED, scenario index).
pub fn mix(a: u64, b: u64, c: u64) -> u64 {
    let mut x = a ^ 0x243F_6A88_85A3_08D3;
    let mut r = splitmix(&mut x);
    x ^= b.wrapping_mul(0x9E37_79B9_7F4A_7C15);
    r ^= splitmix(&mut x);
    x ^= c.wrapping_mul(0xC2B2_AE3D_27D4_EB4F);
    r ^= splitmix(&mut x).rotate_left(17);
    r
}

pub fn hash_str(s: &str) -> u64 {
    let mut h: u64 = 0xcbf2_9ce4_8422_2325;
    for b in s.bytes() {
        h ^= b as u64;
        h = h.wrapping_mul(0x1000_0000_01b3);
    }
    h
}

impl Rng {
    pub fn new(seed: u64) -> Self {
        let mut x = seed;
        let s = [
            splitmix(&mut x),
            splitmix(&mut x),
            splitmix(&mut x),
            splitmix(&mut x),
        ];
        Rng { s }
    }

    pub fn next_u64(&mut self) -> u64 {
        let result = self.s[1].wrapping_mul(5).rotate_left(7).wrapping_mul(9);
        let t = self.s[1] << 17;
        self.s[2] ^= self.s[0];
        self.s[3] ^= self.s[1];
        self.s[1] ^= self.s[2];
        self.s[0] ^= self.s[3];
        self.s[2] ^= t;
        self.s[3] = self.s[3].rotate_left(45);
        result
    }

    /// Uniform in `0..n` (n > 0).
    pub fn below(&mut self, n: u64) -> u64 {
        debug_assert!(n > 0);
        // multiply-shift; bias is irrelevant here
        ((self.next_u64() as u128 * n as u128) >> 64) as u64
    }

    /// Uniform in `lo..=hi`.
    pub fn range(&mut self, lo: u64, hi: u64) -> u64 {
        debug_assert!(lo <= hi);
        lo + self.below(hi - lo + 1)
    }

    pub fn usize(&mut self, lo: usize, hi: usize) -> usize {
        self.range(lo as u64, hi as u64) as usize
    }

    /// True with probability num/den.
    pub fn chance(&mut self, num: u64, den: u64) -> bool {
        self.below(den) < num
    }

    pub fn bool(&mut self) -> bool {
        self.next_u64() & 1 == 1
    }

    pub fn pick<'a, T>(&mut self, xs: &'a [T]) -> &'a T {
        &xs[self.below(xs.len() as u64) as usize]
    }

    pub fn pick_copy<T: Copy>(&mut self, xs: &[T]) -> T {
        xs[self.below(xs.len() as u64) as usize]
    }

    /// Pick an index by integer weights.
    pub fn weighted(&mut self, weights: &[u32]) -> usize {
        let total: u64 = weights.iter().map(|w| *w as u64).sum();
        let mut x = self.below(total.max(1));
        for (i, w) in weights.iter().enumerate() {
            if x < *w as u64 {
                return i;
            }
            x -= *w as u64;
        }
        weights.len() - 1
    }

    pub fn shuffle<T>(&mut self, xs: &mut [T]) {
        for i in (1..xs.len()).rev() {
            let j = self.below(i as u64 + 1) as usize;
            xs.swap(i, j);
        }
    }

    pub fn fork(&mut self) -> Rng {
        Rng::new(self.next_u64())
    }
}

/// 64-bit FNV-style running digest for event logs (order sensitive).
#[derive(Clone, Copy, Debug)]
pub struct Digest(pub u64);

impl Default for Digest {
    fn default() -> Self {
        Digest(0xcbf2_9ce4_8422_2325)
    }
}

impl Digest {
    pub fn bytes(&mut self, b: &[u8]) {
        for x in b {
            self.0 ^= *x as u64;
            self.0 = self.0.wrapping_mul(0x1000_0000_01b3);
        }
        // separator so that ("ab","c") != ("a","bc")
        self.0 ^= 0xff;
        self.0 = self.0.wrapping_mul(0x1000_0000_01b3);
    }
    pub fn str(&mut self, s: &str) {
        self.bytes(s.as_bytes())
    }
    pub fn u64(&mut self, v: u64) {
        self.bytes(&v.to_le_bytes())
    }
    pub fn finish(&self) -> u64 {
        let mut x = self.0;
        splitmix(&mut x)
    }
}
