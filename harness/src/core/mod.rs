//! Core of the harness: property trait, seeded runner, minimiser, replay files, known findings, evidence.

pub mod prng;

use prng::{hash_str, mix, Digest, Rng};
use serde::{de::DeserializeOwned, Deserialize, Serialize};
use std::cell::RefCell;
use std::collections::{BTreeMap, HashSet};
use std::panic::{catch_unwind, AssertUnwindSafe};
use std::path::{Path, PathBuf};
use std::sync::atomic::{AtomicBool, AtomicU64, Ordering};
use std::sync::Mutex;
use std::time::Instant;

pub const HARNESS_VERSION: u32 = 1;
pub const VERIF_DIR: &str = "/verif";

/// Where evidence and replay files are written. `/verif` unless `VERIF_OUT_DIR` is set (used only by
/// `tools_eval_lanes.sh`, which evaluates seeded changes in scratch copies and must not touch /verif/evidence).
/// Inputs (known_findings.json, findings/) are always read from `VERIF_DIR`.
pub fn out_dir() -> PathBuf {
    match std::env::var("VERIF_OUT_DIR") {
        Ok(d) if !d.is_empty() => PathBuf::from(d),
        _ => PathBuf::from(VERIF_DIR),
    }
}

#[derive(Clone, Copy, Debug, PartialEq, Eq)]
pub enum Tier {
    Quick,
    Thorough,
}

impl Tier {
    pub fn name(self) -> &'static str {
        match self {
            Tier::Quick => "quick",
            Tier::Thorough => "thorough",
        }
    }
}

#[derive(Clone, Debug, Serialize, Deserialize, PartialEq)]
pub struct Violation {
    /// Per-property violation class (stable identifier used by minimisation and known-finding matchers).
    pub class: String,
    /// Human readable: the first bad event and why.
    pub message: String,
}

impl Violation {
    pub fn new(class: &str, message: impl Into<String>) -> Self {
        Violation {
            class: class.to_string(),
            message: message.into(),
        }
    }
}

/// Event log of one run. Every line goes into the full digest (determinism / replay check); the
/// abstract digest only gets the tags the property chooses (distinctness measure). Lines are stored
/// only when `keep` is set (samples, replay output) so that logging costs nothing in bulk runs.
#[derive(Default)]
pub struct Log {
    pub keep: bool,
    pub lines: Vec<String>,
    full: Digest,
    abs: Digest,
    pub seq: u64,
}

impl Log {
    pub fn new(keep: bool) -> Self {
        Log {
            keep,
            ..Default::default()
        }
    }
    /// Record an event; returns its global sequence number.
    pub fn ev(&mut self, line: impl AsRef<str>) -> u64 {
        let s = line.as_ref();
        self.full.str(s);
        self.seq += 1;
        if self.keep && self.lines.len() < 4000 {
            self.lines.push(format!("{:>5} {}", self.seq, s));
        }
        self.seq
    }
    /// Record an abstract tag (event kind / outcome kind with payloads stripped).
    pub fn tag(&mut self, t: &str) {
        self.abs.str(t);
    }
    pub fn tag_u64(&mut self, v: u64) {
        self.abs.u64(v);
    }
    pub fn full_digest(&self) -> u64 {
        self.full.finish()
    }
    pub fn abs_digest(&self) -> u64 {
        self.abs.finish()
    }
}

#[derive(Default, Clone, Debug)]
pub struct Counters(pub BTreeMap<String, u64>);

impl Counters {
    pub fn add(&mut self, k: &str, n: u64) {
        if n > 0 {
            *self.0.entry(k.to_string()).or_insert(0) += n;
        }
    }
    pub fn inc(&mut self, k: &str) {
        self.add(k, 1)
    }
    pub fn get(&self, k: &str) -> u64 {
        self.0.get(k).copied().unwrap_or(0)
    }
    pub fn merge(&mut self, o: &Counters) {
        for (k, v) in &o.0 {
            *self.0.entry(k.clone()).or_insert(0) += *v;
        }
    }
}

/// What one execution of one scenario reports.
#[derive(Default)]
pub struct Report {
    pub violation: Option<Violation>,
    pub abstract_digest: u64,
    pub full_digest: u64,
    pub nontrivial: bool,
    /// faults that actually fired, by kind
    pub faults: Counters,
    /// "this rare condition was hit" probes
    pub probes: Counters,
    pub sim_ms: u64,
    pub steps: u64,
    pub log: Vec<String>,
    /// the generator stepped outside a documented limit of the subject: harness error (exit 2)
    pub harness_error: Option<String>,
}

impl Report {
    pub fn from_log(log: Log) -> Report {
        Report {
            abstract_digest: log.abs_digest(),
            full_digest: log.full_digest(),
            log: log.lines,
            ..Default::default()
        }
    }
}

pub trait Property: 'static {
    const ID: &'static str;
    /// "exploration" | "fault_enumeration"
    const LEVEL: &'static str;
    type Scenario: Serialize + DeserializeOwned + Clone + Send + Sync + 'static;

    /// true for properties whose violations are themselves nondeterminism (C01): a violation that does
    /// not reproduce on re-execution is still reported, with the originally observed message.
    const VIOLATION_MAY_NOT_REPRODUCE: bool = false;
    /// How cases are generated and what makes one non-trivial / distinct (goes into evidence).
    fn rule() -> String;
    fn components_real() -> Vec<&'static str>;
    fn components_stub() -> Vec<&'static str>;
    fn assumptions() -> Vec<String>;
    /// Number of base scenarios for a tier (fixed counts, not wall-clock budgets).
    fn budget(tier: Tier) -> u64;
    /// The only consumer of the PRNG.
    fn generate(rng: &mut Rng, idx: u64, tier: Tier) -> Self::Scenario;
    /// Systematic fault placements for one seeded workload (default: just the workload itself).
    fn variants(base: &Self::Scenario, _tier: Tier) -> Vec<Self::Scenario> {
        vec![base.clone()]
    }
    /// Pure function of the scenario and the code under /repo.
    fn run(sc: &Self::Scenario, keep_log: bool) -> Report;
    /// Simpler candidates, most aggressive first.
    fn shrink(_sc: &Self::Scenario) -> Vec<Self::Scenario> {
        Vec::new()
    }
    /// Does the (minimised) scenario + violation fall under the named known-finding matcher?
    fn known_match(_matcher: &str, _sc: &Self::Scenario, _v: &Violation) -> bool {
        false
    }
    /// Short signature of a (minimised) scenario, used by `survey` to group violations.
    fn signature(_sc: &Self::Scenario) -> String {
        String::new()
    }
    /// Optional extra phase run once per check (e.g. C01's cross-process comparison). Returns
    /// violations as (scenario json, violation).
    fn extra_phase(_seed: u64, _tier: Tier, _stats: &mut Stats) -> Vec<(serde_json::Value, Violation)> {
        Vec::new()
    }
}

// ------------------------------------------------------------------------------------------------
// panic capture

thread_local! {
    static LAST_PANIC: RefCell<Option<String>> = const { RefCell::new(None) };
    static QUIET: std::cell::Cell<bool> = const { std::cell::Cell::new(false) };
}

pub fn install_panic_hook() {
    let default = std::panic::take_hook();
    std::panic::set_hook(Box::new(move |info| {
        let msg = if let Some(s) = info.payload().downcast_ref::<&str>() {
            s.to_string()
        } else if let Some(s) = info.payload().downcast_ref::<String>() {
            s.clone()
        } else {
            "<non-string panic>".to_string()
        };
        let loc = info
            .location()
            .map(|l| format!("{}:{}", l.file(), l.line()))
            .unwrap_or_default();
        if std::env::var_os("VERIF_LOUD").is_some() {
            eprintln!("panic: {msg} @ {loc}");
        }
        if QUIET.with(|q| q.get()) {
            // keep the first panic of a chain (tokio re-panics "a spawned task panicked ..." afterwards)
            LAST_PANIC.with(|p| {
                let mut p = p.borrow_mut();
                *p = Some(match p.take() {
                    None => format!("{msg} @ {loc}"),
                    Some(first) if first.len() < 600 => format!("{first} | then: {msg} @ {loc}"),
                    Some(first) => first,
                });
            });
        } else {
            default(info);
        }
    }));
}

/// Run `f`, turning a panic into `Err(message @ location)` without printing.
pub fn catch<R>(f: impl FnOnce() -> R) -> Result<R, String> {
    let prev = QUIET.with(|q| q.replace(true));
    if !prev {
        LAST_PANIC.with(|p| *p.borrow_mut() = None);
    }
    let r = catch_unwind(AssertUnwindSafe(f));
    QUIET.with(|q| q.set(prev));
    match r {
        Ok(v) => Ok(v),
        Err(_) => Err(LAST_PANIC
            .with(|p| p.borrow_mut().take())
            .unwrap_or_else(|| "<panic>".into())),
    }
}

fn run_caught<P: Property>(sc: &P::Scenario, keep: bool) -> Report {
    match catch(|| P::run(sc, keep)) {
        Ok(r) => r,
        Err(msg) => Report {
            violation: Some(Violation::new("HarnessPanic", format!("uncaught panic while executing scenario: {msg}"))),
            ..Default::default()
        },
    }
}

// ------------------------------------------------------------------------------------------------
// the beacon: where every worker is, on disk, for the supervising process (see `supervise`)

pub const BEACON_SLOTS: usize = 64;
const BEACON_NONE: u64 = u64::MAX;

fn beacon_file() -> &'static Option<std::fs::File> {
    static B: std::sync::OnceLock<Option<std::fs::File>> = std::sync::OnceLock::new();
    B.get_or_init(|| {
        let p = std::env::var_os("VCHECK_BEACON")?;
        std::fs::OpenOptions::new().write(true).open(p).ok()
    })
}

/// Note, before a scenario is executed, which one this worker is about to execute (`variant`
/// `u64::MAX - 1`: generating it). A process that dies leaves this behind.
fn beacon_mark(slot: usize, idx: u64, variant: u64) {
    use std::os::unix::fs::FileExt;
    if let Some(f) = beacon_file() {
        let mut b = [0u8; 16];
        b[..8].copy_from_slice(&idx.to_le_bytes());
        b[8..].copy_from_slice(&variant.to_le_bytes());
        let _ = f.write_at(&b, (slot.min(BEACON_SLOTS - 1) * 16) as u64);
    }
}

pub const VARIANT_GENERATING: u64 = u64::MAX - 1;

thread_local! {
    static BEACON_SLOT: std::cell::Cell<usize> = const { std::cell::Cell::new(0) };
}

/// While a violation is being minimised the scenarios that are executed are no longer "scenario idx of
/// the seed": each candidate is noted as JSON next to the beacon before it runs (and removed afterwards).
fn beacon_shrink_path() -> Option<PathBuf> {
    let p = std::env::var_os("VCHECK_BEACON")?;
    let mut s = p.into_string().ok()?;
    s.push_str(&format!(".shrink{}", BEACON_SLOT.with(|c| c.get())));
    Some(PathBuf::from(s))
}

/// `vcheck probe-json <ID> <file>`: execute the scenario in the file and nothing else.
pub fn probe_json<P: Property>(file: &Path) -> i32 {
    let Ok(s) = std::fs::read_to_string(file) else { return 2 };
    let Ok(sc) = serde_json::from_str::<P::Scenario>(&s) else { return 2 };
    let _ = run_caught::<P>(&sc, false);
    0
}

/// `vcheck probe <ID> <seed> <idx> <variant> <tier>`: execute that one scenario and nothing else (exit 0
/// whatever it finds); `vcheck scenario-at ...`: print it as JSON. Both are run as child processes by the
/// supervisor after the checking process died.
pub fn probe<P: Property>(seed: u64, idx: u64, variant: u64, tier: Tier, print: bool) -> i32 {
    let mut rng = Rng::new(scenario_seed(P::ID, seed, idx));
    let base = P::generate(&mut rng, idx, tier);
    if variant == VARIANT_GENERATING {
        if print {
            println!("{}", serde_json::to_string(&base).unwrap());
        } else {
            let _ = P::variants(&base, tier);
        }
        return 0;
    }
    let vars = P::variants(&base, tier);
    let Some(sc) = vars.get(variant as usize) else { return 2 };
    if print {
        println!("{}", serde_json::to_string(sc).unwrap());
    } else {
        let _ = run_caught::<P>(sc, false);
    }
    0
}

/// Candidates left in a beacon file: (idx, variant) per worker slot.
pub fn beacon_read(path: &Path) -> Vec<(u64, u64)> {
    let Ok(b) = std::fs::read(path) else { return vec![] };
    let mut out = Vec::new();
    for c in b.chunks_exact(16) {
        let idx = u64::from_le_bytes(c[..8].try_into().unwrap());
        let var = u64::from_le_bytes(c[8..].try_into().unwrap());
        if idx != BEACON_NONE && !out.contains(&(idx, var)) {
            out.push((idx, var));
        }
    }
    out
}

// ------------------------------------------------------------------------------------------------
// replay files and known findings

#[derive(Serialize, Deserialize, Clone)]
pub struct ReplayFile {
    pub property: String,
    pub harness_version: u32,
    pub verif_seed: u64,
    pub scenario_index: u64,
    pub variant: u64,
    pub minimised: bool,
    pub violation: Violation,
    pub full_digest: String,
    pub scenario: serde_json::Value,
    #[serde(default)]
    pub log: Vec<String>,
}

#[derive(Serialize, Deserialize, Clone, Debug)]
pub struct KnownFinding {
    pub id: String,
    pub property: String,
    /// "known" | "fixed"
    pub status: String,
    pub what: String,
    /// path relative to /verif
    pub repro: String,
    /// matcher name implemented in props/<id>.rs; listed here so that a reader can audit what is forgiven
    #[serde(default)]
    pub matcher: String,
    #[serde(default)]
    pub matcher_text: String,
    #[serde(default)]
    pub fix_commit: String,
}

#[derive(Serialize, Deserialize, Default)]
pub struct KnownFindingsFile {
    pub findings: Vec<KnownFinding>,
    /// one line per repaired defect: "fixed: property=<id> <commit> <what failed>"
    #[serde(default)]
    pub fixed_log: Vec<String>,
}

pub fn load_known() -> KnownFindingsFile {
    let p = Path::new(VERIF_DIR).join("known_findings.json");
    match std::fs::read_to_string(&p) {
        Ok(s) => match serde_json::from_str(&s) {
            Ok(k) => k,
            Err(e) => {
                eprintln!("harness error: cannot parse {}: {e}", p.display());
                std::process::exit(2);
            }
        },
        Err(_) => KnownFindingsFile::default(),
    }
}

// ------------------------------------------------------------------------------------------------
// statistics

#[derive(Default)]
pub struct Stats {
    pub evaluations: u64,
    pub base_scenarios: u64,
    pub nontrivial: u64,
    pub digests: HashSet<u64>,
    pub all_digests: HashSet<u64>,
    pub faults: Counters,
    pub probes: Counters,
    pub sim_ms: u64,
    pub steps: u64,
    pub extra: BTreeMap<String, serde_json::Value>,
    pub minimise_runs: u64,
    pub known_hits: BTreeMap<String, u64>,
}

impl Stats {
    fn absorb(&mut self, r: &Report) {
        self.evaluations += 1;
        if r.nontrivial {
            self.nontrivial += 1;
            self.digests.insert(r.abstract_digest);
        }
        if self.all_digests.len() < 4_000_000 {
            self.all_digests.insert(r.full_digest);
        }
        self.faults.merge(&r.faults);
        self.probes.merge(&r.probes);
        self.sim_ms += r.sim_ms;
        self.steps += r.steps;
    }
    fn merge(&mut self, o: Stats) {
        self.evaluations += o.evaluations;
        self.base_scenarios += o.base_scenarios;
        self.nontrivial += o.nontrivial;
        self.digests.extend(o.digests);
        self.all_digests.extend(o.all_digests);
        self.faults.merge(&o.faults);
        self.probes.merge(&o.probes);
        self.sim_ms += o.sim_ms;
        self.steps += o.steps;
        self.extra.extend(o.extra);
        self.minimise_runs += o.minimise_runs;
        for (k, v) in o.known_hits {
            *self.known_hits.entry(k).or_insert(0) += v;
        }
    }
}

struct Found<S> {
    idx: u64,
    variant: u64,
    /// as generated
    sc: S,
    /// minimised
    msc: S,
    /// violation of the minimised scenario
    v: Violation,
}

// ------------------------------------------------------------------------------------------------
// minimisation: greedy delta debugging through Property::shrink, same violation class

pub fn minimise<P: Property>(sc: &P::Scenario, v: &Violation, max_runs: usize) -> (P::Scenario, Violation, usize) {
    let mut cur = sc.clone();
    let mut cur_v = v.clone();
    let mut runs = 0usize;
    'outer: loop {
        let cands = P::shrink(&cur);
        for c in cands {
            if runs >= max_runs {
                break 'outer;
            }
            runs += 1;
            let note = beacon_shrink_path();
            if let Some(p) = &note {
                let _ = std::fs::write(p, serde_json::to_string(&c).unwrap_or_default());
            }
            let r = run_caught::<P>(&c, false);
            if let Some(p) = &note {
                let _ = std::fs::remove_file(p);
            }
            if r.harness_error.is_some() {
                continue;
            }
            if let Some(nv) = r.violation {
                if nv.class == cur_v.class {
                    cur = c;
                    cur_v = nv;
                    continue 'outer;
                }
            }
        }
        break;
    }
    (cur, cur_v, runs)
}

fn write_replay<P: Property>(
    dir: &Path,
    name: &str,
    seed: u64,
    idx: u64,
    variant: u64,
    minimised: bool,
    sc: &P::Scenario,
) -> (PathBuf, Option<Violation>) {
    let r = run_caught::<P>(sc, true);
    std::fs::create_dir_all(dir).ok();
    let path = dir.join(name);
    let v = r.violation.clone();
    let file = ReplayFile {
        property: P::ID.to_string(),
        harness_version: HARNESS_VERSION,
        verif_seed: seed,
        scenario_index: idx,
        variant,
        minimised,
        violation: v.clone().unwrap_or(Violation::new("None", "")),
        full_digest: format!("{:016x}", r.full_digest),
        scenario: serde_json::to_value(sc).expect("scenario serialises"),
        log: r.log,
    };
    std::fs::write(&path, serde_json::to_string_pretty(&file).unwrap()).expect("write replay");
    (path, v)
}

/// `vcheck replay <file>`: re-execute in this (fresh) process; exit 1 iff the same violation class
/// reproduces with the identical event log digest.
pub fn replay<P: Property>(path: &Path) -> i32 {
    let s = std::fs::read_to_string(path).unwrap_or_else(|e| {
        eprintln!("harness error: cannot read {}: {e}", path.display());
        std::process::exit(2)
    });
    let f: ReplayFile = serde_json::from_str(&s).unwrap_or_else(|e| {
        eprintln!("harness error: cannot parse {}: {e}", path.display());
        std::process::exit(2)
    });
    let sc: P::Scenario = serde_json::from_value(f.scenario.clone()).unwrap_or_else(|e| {
        eprintln!("harness error: scenario in {} does not match this harness: {e}", path.display());
        std::process::exit(2)
    });
    let r = run_caught::<P>(&sc, true);
    for l in &r.log {
        println!("{l}");
    }
    let digest = format!("{:016x}", r.full_digest);
    match r.violation {
        Some(v) => {
            println!("replayed: class={} message={}", v.class, v.message);
            println!(
                "event-log digest {} (recorded {}) {}",
                digest,
                f.full_digest,
                if digest == f.full_digest { "IDENTICAL" } else { "DIFFERENT" }
            );
            if v.class == f.violation.class {
                println!("VIOLATION property={} replay={}", P::ID, path.display());
                1
            } else {
                println!("different violation class than recorded ({})", f.violation.class);
                1
            }
        }
        None => {
            println!("no violation on replay (recorded class {}); digest {}", f.violation.class, digest);
            0
        }
    }
}

// ------------------------------------------------------------------------------------------------
// the check driver

pub struct Options {
    pub tier: Tier,
    pub seed: u64,
    pub threads: usize,
    pub count_override: Option<u64>,
}

pub fn scenario_seed(id: &str, seed: u64, idx: u64) -> u64 {
    mix(hash_str(id), seed, idx)
}

pub fn check<P: Property>(opt: &Options) -> i32 {
    let t0 = Instant::now();
    let id = P::ID;
    let known_file = load_known();
    let known: Vec<KnownFinding> = known_file.findings.iter().filter(|k| k.property == id).cloned().collect();
    let mut known_lines: Vec<String> = Vec::new();
    let mut known_hits: BTreeMap<String, u64> = BTreeMap::new();
    let mut known_gone: Vec<String> = Vec::new();
    let mut violations: Vec<(PathBuf, Violation)> = Vec::new();

    // 1. replay every recorded finding of this property
    for k in &known {
        let path = Path::new(VERIF_DIR).join(&k.repro);
        let s = match std::fs::read_to_string(&path) {
            Ok(s) => s,
            Err(e) => {
                eprintln!("harness error: known finding {} repro {} unreadable: {e}", k.id, path.display());
                return 2;
            }
        };
        let f: ReplayFile = match serde_json::from_str(&s) {
            Ok(f) => f,
            Err(e) => {
                eprintln!("harness error: known finding {} repro unparsable: {e}", k.id);
                return 2;
            }
        };
        let sc: P::Scenario = match serde_json::from_value(f.scenario.clone()) {
            Ok(s) => s,
            Err(e) => {
                eprintln!("harness error: known finding {} scenario does not match harness: {e}", k.id);
                return 2;
            }
        };
        let r = run_caught::<P>(&sc, false);
        match (&r.violation, k.status.as_str()) {
            (Some(v), "known") => {
                if v.class == f.violation.class {
                    known_lines.push(format!("KNOWN-FINDING: property={} {} [{}] ({})", id, k.what, k.id, k.repro));
                    *known_hits.entry(k.id.clone()).or_insert(0) += 1;
                } else {
                    // a different failure on the recorded input: not what the file lists
                    let name = format!("{}-known-{}-changed.json", id, k.id);
                    let (p, _) = write_replay::<P>(&out_dir().join("replays").join(id), &name, opt.seed, 0, 0, true, &sc);
                    violations.push((p, v.clone()));
                }
            }
            (None, "known") => known_gone.push(k.id.clone()),
            (Some(v), _) => {
                // a fixed entry suppresses nothing: regression
                let name = format!("{}-regression-{}.json", id, k.id);
                let (p, _) = write_replay::<P>(&out_dir().join("replays").join(id), &name, opt.seed, 0, 0, true, &sc);
                violations.push((p, v.clone()));
            }
            (None, _) => {}
        }
    }

    // 2. seeded exploration
    let total = opt.count_override.unwrap_or_else(|| P::budget(opt.tier));
    let next = AtomicU64::new(0);
    let stop = AtomicBool::new(false);
    let found: Mutex<Vec<Found<P::Scenario>>> = Mutex::new(Vec::new());
    let harness_errors: Mutex<Vec<String>> = Mutex::new(Vec::new());
    let merged: Mutex<Stats> = Mutex::new(Stats::default());
    let samples: Mutex<Vec<(u64, serde_json::Value)>> = Mutex::new(Vec::new());
    let tier = opt.tier;
    let seed = opt.seed;
    let known_ref = &known;

    std::thread::scope(|s| {
        for w in 0..opt.threads.max(1) {
            let (next, stop, found, harness_errors, merged, samples) = (&next, &stop, &found, &harness_errors, &merged, &samples);
            s.spawn(move || {
                BEACON_SLOT.with(|c| c.set(w));
                let mut st = Stats::default();
                loop {
                    if stop.load(Ordering::Relaxed) {
                        break;
                    }
                    let idx = next.fetch_add(1, Ordering::Relaxed);
                    if idx >= total {
                        break;
                    }
                    beacon_mark(w, idx, VARIANT_GENERATING);
                    let mut rng = Rng::new(scenario_seed(id, seed, idx));
                    let base = match catch(|| P::generate(&mut rng, idx, tier)) {
                        Ok(b) => b,
                        Err(m) => {
                            harness_errors.lock().unwrap().push(format!("generator panic idx={idx}: {m}"));
                            stop.store(true, Ordering::Relaxed);
                            break;
                        }
                    };
                    st.base_scenarios += 1;
                    let vars = match catch(|| P::variants(&base, tier)) {
                        Ok(v) => v,
                        Err(m) => {
                            harness_errors.lock().unwrap().push(format!("variants panic idx={idx}: {m}"));
                            stop.store(true, Ordering::Relaxed);
                            break;
                        }
                    };
                    for (vi, sc) in vars.iter().enumerate() {
                        let want_sample = idx < 3 && vi == 0;
                        beacon_mark(w, idx, vi as u64);
                        let r = run_caught::<P>(sc, want_sample);
                        st.absorb(&r);
                        if want_sample {
                            samples.lock().unwrap().push((
                                idx,
                                serde_json::json!({
                                    "scenario_index": idx,
                                    "scenario": serde_json::to_value(sc).unwrap(),
                                    "nontrivial": r.nontrivial,
                                    "violation": r.violation.as_ref().map(|v| v.class.clone()),
                                    "event_log": r.log.iter().take(120).collect::<Vec<_>>(),
                                }),
                            ));
                        }
                        if let Some(e) = r.harness_error {
                            harness_errors.lock().unwrap().push(format!("idx={idx} variant={vi}: {e}"));
                            stop.store(true, Ordering::Relaxed);
                            break;
                        }
                        if let Some(v) = r.violation {
                            // minimise here (in parallel) and offer the result to the known-finding
                            // matchers; only unmatched violations count towards the stop threshold
                            let (msc, mv, runs) = minimise::<P>(sc, &v, 400);
                            st.minimise_runs += runs as u64;
                            let mut matched = None;
                            for k in known_ref.iter().filter(|k| k.status == "known" && !k.matcher.is_empty()) {
                                if P::known_match(&k.matcher, &msc, &mv) {
                                    matched = Some(k.id.clone());
                                    break;
                                }
                            }
                            if let Some(kid) = matched {
                                *st.known_hits.entry(kid).or_insert(0) += 1;
                            } else {
                                let mut f = found.lock().unwrap();
                                f.push(Found { idx, variant: vi as u64, sc: sc.clone(), msc, v: mv });
                                if f.len() >= 16 {
                                    stop.store(true, Ordering::Relaxed);
                                }
                            }
                            break;
                        }
                    }
                }
                merged.lock().unwrap().merge(st);
            });
        }
    });

    let mut stats = merged.into_inner().unwrap();
    let herr = harness_errors.into_inner().unwrap();
    if !herr.is_empty() {
        for e in herr.iter().take(5) {
            eprintln!("harness error: {e}");
        }
        return 2;
    }

    // 3. extra phase (C01 cross-process etc.)
    let extra_v = P::extra_phase(seed, tier, &mut stats);

    // 4. triage: minimise, match against known findings, report
    let mut found = found.into_inner().unwrap();
    found.sort_by_key(|f| (f.idx, f.variant));
    let replay_dir = out_dir().join("replays").join(id);
    let mut reported_classes: HashSet<String> = HashSet::new();
    let minimise_runs = stats.minimise_runs as usize;
    for (kid, n) in &stats.known_hits {
        let e = known_hits.entry(kid.clone()).or_insert(0);
        if *e == 0 {
            if let Some(k) = known.iter().find(|k| &k.id == kid) {
                known_lines.push(format!("KNOWN-FINDING: property={} {} [{}] ({})", id, k.what, k.id, k.repro));
            }
        }
        *e += n;
    }
    for f in found.iter() {
        if violations.len() >= 5 || (!reported_classes.insert(f.v.class.clone()) && violations.len() >= 3) {
            continue;
        }
        let name = format!("{}-seed{}-i{}-v{}.json", id, seed, f.idx, f.variant);
        let (p, rv) = write_replay::<P>(&replay_dir, &name, seed, f.idx, f.variant, true, &f.msc);
        // the minimised scenario must still fail when re-executed; otherwise fall back to the original
        if rv.is_none() {
            let (p2, rv2) = write_replay::<P>(&replay_dir, &name, seed, f.idx, f.variant, false, &f.sc);
            if let Some(v2) = rv2 {
                violations.push((p2, v2));
            } else if P::VIOLATION_MAY_NOT_REPRODUCE {
                violations.push((p2, Violation::new(&f.v.class, format!("{} [observed once; did not recur when the replay file was written — the divergence is itself nondeterministic]", f.v.message))));
            } else {
                eprintln!("harness error: violation at idx={} does not reproduce on re-execution (nondeterministic run): {} {}", f.idx, f.v.class, f.v.message);
                return 2;
            }
        } else {
            violations.push((p, f.v.clone()));
        }
    }
    for (scv, v) in extra_v {
        let name = format!("{}-seed{}-extra{}.json", id, seed, violations.len());
        std::fs::create_dir_all(&replay_dir).ok();
        let path = replay_dir.join(name);
        let file = ReplayFile {
            property: id.to_string(),
            harness_version: HARNESS_VERSION,
            verif_seed: seed,
            scenario_index: 0,
            variant: 0,
            minimised: false,
            violation: v.clone(),
            full_digest: String::new(),
            scenario: scv,
            log: vec![],
        };
        std::fs::write(&path, serde_json::to_string_pretty(&file).unwrap()).ok();
        violations.push((path, v));
    }

    // 5. evidence
    let wall = t0.elapsed().as_secs_f64();
    let mut samples = samples.into_inner().unwrap();
    samples.sort_by_key(|s| s.0);
    let samples: Vec<serde_json::Value> = samples.into_iter().map(|s| s.1).collect();
    let per_hour = |n: u64| -> u64 { if wall > 0.0 { (n as f64 / wall * 3600.0) as u64 } else { 0 } };
    let mut coverage = serde_json::json!({
        "evaluations": stats.evaluations,
        "distinct_nontrivial": stats.digests.len(),
        "rule": P::rule(),
        "samples": samples,
        "base_scenarios": stats.base_scenarios,
        "nontrivial_runs": stats.nontrivial,
        "distinct_full_event_logs": stats.all_digests.len(),
        "sim_time_covered_ms": stats.sim_ms,
        "steps": stats.steps,
        "runs_per_hour": per_hour(stats.evaluations),
        "seeds_per_hour": per_hour(stats.base_scenarios),
        "faults_fired": stats.faults.0,
        "probes": stats.probes.0,
        "components": {"real": P::components_real(), "stub": P::components_stub()},
        "known_findings_reproduced": known_hits,
        "known_findings_no_longer_reproducing": known_gone,
        "violations_found_before_triage": found.len(),
        "minimisation_runs": minimise_runs,
        "threads": opt.threads,
        "exhaustive": false,
    });
    for (k, v) in &stats.extra {
        coverage[k] = v.clone();
    }
    let evidence = serde_json::json!({
        "property_id": id,
        "tier": opt.tier.name(),
        "seed": opt.seed,
        "level": P::LEVEL,
        "coverage": coverage,
        "assumptions": P::assumptions(),
        "wall_s": wall,
        "violations": violations.len(),
    });
    let evdir = out_dir().join("evidence");
    std::fs::create_dir_all(&evdir).ok();
    std::fs::write(evdir.join(format!("{id}.json")), serde_json::to_string_pretty(&evidence).unwrap()).expect("write evidence");

    println!(
        "{id} tier={} seed={} base_scenarios={} evaluations={} nontrivial={} distinct_nontrivial={} wall={:.1}s",
        opt.tier.name(),
        opt.seed,
        stats.base_scenarios,
        stats.evaluations,
        stats.nontrivial,
        stats.digests.len(),
        wall
    );
    println!("faults_fired: {:?}", stats.faults.0);
    println!("probes: {:?}", stats.probes.0);
    for l in &known_lines {
        println!("{l}");
    }
    if violations.is_empty() {
        0
    } else {
        for (p, v) in &violations {
            println!("violation class={} : {}", v.class, v.message);
            println!("VIOLATION property={} replay={}", id, p.display());
        }
        1
    }
}

/// Determinism self-check of the machinery: run `n` scenarios twice at 1 thread and once more on
/// other threads and compare the full event-log digests.
pub fn selfcheck<P: Property>(seed: u64, n: u64) -> i32 {
    let id = P::ID;
    let run_all = |threads: usize| -> Vec<u64> {
        let out: Mutex<Vec<(u64, u64)>> = Mutex::new(Vec::new());
        let next = AtomicU64::new(0);
        std::thread::scope(|s| {
            for _ in 0..threads {
                s.spawn(|| loop {
                    let idx = next.fetch_add(1, Ordering::Relaxed);
                    if idx >= n {
                        break;
                    }
                    let mut rng = Rng::new(scenario_seed(id, seed, idx));
                    let base = P::generate(&mut rng, idx, Tier::Quick);
                    let mut d = Digest::default();
                    for sc in P::variants(&base, Tier::Quick).iter().take(8) {
                        let r = run_caught::<P>(sc, false);
                        d.u64(r.full_digest);
                        d.str(r.violation.as_ref().map(|v| v.class.as_str()).unwrap_or("-"));
                    }
                    out.lock().unwrap().push((idx, d.finish()));
                });
            }
        });
        let mut v = out.into_inner().unwrap();
        v.sort();
        v.into_iter().map(|x| x.1).collect()
    };
    let a = run_all(1);
    let b = run_all(1);
    let c = run_all(16);
    let mut bad = 0;
    for i in 0..a.len() {
        if a[i] != b[i] || a[i] != c[i] {
            if bad < 5 {
                println!("selfcheck {id}: scenario {i} differs between executions: {:x} {:x} {:x}", a[i], b[i], c[i]);
            }
            bad += 1;
        }
    }
    let mut all = Digest::default();
    for x in &a {
        all.u64(*x);
    }
    println!("selfcheck {id}: {} scenarios x3 executions, {} mismatches, batch digest {:016x}", a.len(), bad, all.finish());
    if bad == 0 {
        0
    } else {
        2
    }
}

/// Diagnostic (not a registered check): run `n` base scenarios, minimise every violation, group by
/// (class, signature) and print a histogram with one example each.
pub fn survey<P: Property>(seed: u64, n: u64) -> i32 {
    let id = P::ID;
    let next = AtomicU64::new(0);
    let groups: Mutex<BTreeMap<String, (u64, String, String)>> = Mutex::new(BTreeMap::new());
    let total_v = AtomicU64::new(0);
    std::thread::scope(|s| {
        for _ in 0..16 {
            s.spawn(|| loop {
                let idx = next.fetch_add(1, Ordering::Relaxed);
                if idx >= n {
                    break;
                }
                let mut rng = Rng::new(scenario_seed(id, seed, idx));
                let base = P::generate(&mut rng, idx, Tier::Quick);
                for sc in P::variants(&base, Tier::Quick) {
                    let r = run_caught::<P>(&sc, false);
                    if let Some(v) = r.violation {
                        total_v.fetch_add(1, Ordering::Relaxed);
                        let (msc, mv, _) = minimise::<P>(&sc, &v, 300);
                        let key = format!("{} | {}", mv.class, P::signature(&msc));
                        let mut g = groups.lock().unwrap();
                        let e = g.entry(key).or_insert((0, mv.message.clone(), serde_json::to_string(&msc).unwrap()));
                        e.0 += 1;
                        break;
                    }
                }
            });
        }
    });
    let g = groups.into_inner().unwrap();
    let mut v: Vec<_> = g.into_iter().collect();
    v.sort_by_key(|x| std::cmp::Reverse(x.1 .0));
    println!("survey {id}: {} base scenarios, {} violating, {} groups", n, total_v.load(Ordering::Relaxed), v.len());
    for (k, (c, msg, sc)) in v.iter().take(60) {
        println!("{c:>6}  {k}\n        {msg}\n        {}", &sc[..sc.len().min(600)]);
    }
    0
}

/// `vcheck record <ID> <scenario.json> <out.json>`: execute a hand-written scenario and store it as a
/// replay file (used to create the repro files of known findings).
pub fn record<P: Property>(scenario: &Path, out: &Path) -> i32 {
    let s = std::fs::read_to_string(scenario).expect("read scenario");
    let sc: P::Scenario = serde_json::from_str(&s).expect("scenario parses");
    let (p, v) = write_replay::<P>(out.parent().unwrap(), out.file_name().unwrap().to_str().unwrap(), 0, 0, 0, true, &sc);
    match v {
        Some(v) => {
            println!("recorded {} : class={} {}", p.display(), v.class, v.message);
            0
        }
        None => {
            println!("scenario does not violate; recorded anyway at {}", p.display());
            1
        }
    }
}

/// Generic list shrinker: candidates with chunks (halves, quarters, ...) and single elements removed.
pub fn shrink_list<T: Clone>(ops: &[T]) -> Vec<Vec<T>> {
    let n = ops.len();
    let mut out = Vec::new();
    if n == 0 {
        return out;
    }
    let mut chunk = n / 2;
    while chunk >= 2 {
        let mut start = 0;
        while start < n {
            let end = (start + chunk).min(n);
            let mut v = ops[..start].to_vec();
            v.extend_from_slice(&ops[end..]);
            out.push(v);
            start += chunk;
        }
        chunk /= 2;
    }
    for i in (0..n).rev() {
        let mut v = ops.to_vec();
        v.remove(i);
        out.push(v);
    }
    out
}
