//! C06 — turmoil-net TCP survives drops, delays and reordering without corruption or stall.

use crate::core::prng::Rng;
use crate::core::{Property, Report, Tier, Violation};
use crate::wirekit::conn::{run_conn, Outcome, Scenario};
use crate::wirekit::gen::{self, Spread};

pub struct C06;

pub fn report_from(out: Outcome, violation: Option<Violation>, nontrivial: bool) -> Report {
    let mut r = Report::from_log(out.log);
    r.violation = violation;
    r.nontrivial = nontrivial;
    r.faults = out.faults;
    r.probes = out.probes;
    r.probes.inc(match out.mode {
        crate::wirekit::conn::Mode::Bounded => "mode_bounded_faults_liveness_judged",
        crate::wirekit::conn::Mode::Exhaustion => "mode_exhaustion",
        crate::wirekit::conn::Mode::SafetyOnly => "mode_unbounded_faults_safety_only",
    });
    r.steps = out.rounds as u64;
    r.harness_error = out.harness_error;
    r
}

impl Property for C06 {
    const ID: &'static str = "C06";
    const LEVEL: &'static str = "fault_enumeration";
    type Scenario = Scenario;

    fn rule() -> String {
        "wirekit: one TCP connection between two seeded application programs (write chunkings incl. 0/1-byte writes, poll_write or try_write, reader buffers of 1 byte ... larger than the transfer, peek, half-close by shutdown / dropped write half / stream drop after EOF, server- or client-speaks-first, late readers (first read k rounds after the connection is up, k below and beyond the retransmit budget) and sequential applications (first read only after the own writes are done or have failed), both directions at once, 0-2 KiB per direction) over the real turmoil-net stack on 2 hosts (IPv4/IPv6; plus loopback and own-address variants without wire faults), KernelConfig seeded (MSS 1..1460 via mtu, send/recv caps 1 B..64 KiB incl. below one MSS and below the transfer, retx_threshold 2-4, retx_max 1-6), on a hand-rolled executor whose poll order and spurious polls are scenario data. The harness is the wire: every packet between egress_all and deliver gets a fate (deliver / hold k rounds / drop) by packet index or by classified kind (SYN, SYN-ACK, handshake ACK, DATA, ACK, window update, FIN, RST), due packets are delivered in a scenario-chosen order. Fault enumeration: each fault-free seeded workload is run once to record its packet sequence, then re-run once per packet index x {drop, delay 1, delay d_max} (thorough: also all pairs for sequences <= 25 packets); plus seeded multi-fault plans inside the premise (drops <= retx_max-1, delays bounded so that all drops, one delayed segment and its delayed ACK on one round trip stay 4 rounds below retx_threshold*(retx_max+1)), a 1/16 slice end-to-end through turmoil-net's own fixture::ClientServer / fixture::lo (paused tokio runtime, built-in scheduler) with the plan installed as a Rule closure (Drop / Deliver(k ms)), exhaustion plans (everything / one direction lost from packet k on, k moved systematically over the recorded fault-free packet sequence; in half of them one application reads only after the stack must have given up) and unbounded plans (safety only). Oracle: safety always (bytes read/peeked equal the position-coded bytes the peer's writes accepted, EOF only after the peer closed and everything was read); bounded plans: no operation fails, and within retx_threshold*(retx_max+1)+2d+8 rounds after the last fault activity the applications make progress until both directions delivered every byte and EOF (else Stall); exhaustion: every operation of a side that still owes acknowledged bytes fails instead of hanging. Non-trivial: >=1 planned fault fired on a packet and the connection carried >=2 data segments; distinct = distinct digests of (packet kind, fate, application outcome kind) sequences. Added later: one-shot closes (read the request, answer, drop the stream at once) and abortive closes (reader stops half way, stream dropped with inbound data outstanding: the peer may get an error, nobody may hang unless the RST itself was lost); a loopback side connection on the client host kept busy during the run.".into()
    }
    fn components_real() -> Vec<&'static str> {
        vec!["turmoil-net: Net, EnterGuard (egress_all/deliver/set_current), kernel (tcp.rs state machine, retransmit, windows, segmentation), shim TcpListener/TcpStream/OwnedReadHalf/OwnedWriteHalf, netstat"]
    }
    fn components_stub() -> Vec<&'static str> {
        vec!["the wire (harness-owned packet pool with fate plan) and the task executor — the seams turmoil-net hands to its embedder; the application programs (plain async fns over the shim types)"]
    }
    fn assumptions() -> Vec<String> {
        vec![
            "\"bounded\" is made checkable as: total drops D <= retx_max-1; if any packet is delayed by up to d_max rounds, retx_threshold*D + 2*d_max + 4 <= retx_threshold*(retx_max+1): all drops (one retransmission interval each) plus a delayed segment and its delayed ACK may fall on one round trip and still end before the abort point, with 4 rounds of quantisation slack (the emitting round, the ACK turn-around, inclusive vs exclusive reading of 'round trip below'); reordering only among packets due in the same round, for a finite prefix of rounds".into(),
            "liveness is judged only after the last fault activity (planned fault fired, packet still held, reordered round); Stall = no application-level progress for retx_threshold*(retx_max+1)+2*d_max+8 rounds with tasks still pending".into(),
            "applications never write after closing; readers read whenever data is available, except late readers, which the scenario keeps asleep for a fixed number of rounds or until their own writer has returned (scenario-imposed waiting is not counted towards Stall); a side drops its stream only after it has seen EOF (a drop with unread data is an abortive close the property does not speak about)".into(),
            "in exhaustion mode only sides that still owe acknowledged bytes (or an unanswered SYN/FIN) are required to see an error; a side with nothing unacknowledged that merely waits for its peer has no retransmit budget to exhaust and is not judged (plain TCP without keep-alive)".into(),
            "packet duplication is not injected (outside the documented fault model); duplicates created by the stack's own retransmissions are of course present".into(),
            "KernelConfig is per Net, so both hosts share send/recv caps; asymmetry is send_buf_cap != recv_buf_cap".into(),
            "while the canary scenario of a known defect (lost ACK / zero window / lost handshake ACK / handshake retransmit budget / data on the handshake-completing segment) still fails on the tree under test, 95 % of the scenarios are generated with that trigger avoided and the remaining 5 % rely on the matchers; on a repaired tree nothing is avoided".into(),
        ]
    }
    fn budget(tier: Tier) -> u64 {
        match tier {
            Tier::Quick => 30_000,
            Tier::Thorough => 200_000,
        }
    }

    fn generate(rng: &mut Rng, _idx: u64, _tier: Tier) -> Scenario {
        gen::generate(rng, &Spread { wide: false })
    }

    fn variants(base: &Scenario, tier: Tier) -> Vec<Scenario> {
        gen::variants(base, tier, if tier == Tier::Quick { 40 } else { 120 })
    }

    fn run(sc: &Scenario, keep: bool) -> Report {
        let out = run_conn(sc, keep);
        let nontrivial = !out.fired.is_empty() && out.data_segments >= 2;
        let v = out.v6.clone();
        let mut r = report_from(out, v, nontrivial);
        // abstract digest already covers packet kinds / fates / outcome kinds via Log::tag
        r.sim_ms = 0;
        r
    }

    fn shrink(sc: &Scenario) -> Vec<Scenario> {
        if std::env::var_os("VERIF_NOSHRINK").is_some() {
            return Vec::new(); // diagnostic aid for `survey`: show violations as generated
        }
        let d = gen::defects();
        gen::shrink(sc)
            .into_iter()
            // a guarded scenario stays clear of the static trigger while shrinking
            .filter(|c| !(sc.guarded && d.zero_window && gen::trigger_zero_window(c)))
            .filter(|c| !(sc.guarded && d.no_timewait && gen::trigger_no_timewait(c)))
            .filter(|c| !(sc.guarded && d.zw_refused && gen::trigger_zw_refused(c)))
            .collect()
    }

    fn known_match(matcher: &str, sc: &Scenario, v: &Violation) -> bool {
        let out = run_conn(sc, false);
        gen::classify_known(sc, &out, &v.class) == Some(matcher)
    }

    fn signature(sc: &Scenario) -> String {
        let out = run_conn(sc, false);
        let class = out.v6.as_ref().map(|v| v.class.clone()).unwrap_or_default();
        gen::signature(sc, &out, &class)
    }
}

#[cfg(test)]
mod tests {
    use super::*;
    use crate::wirekit::conn::*;
    use crate::wirekit::exec::PollOrder;
    use crate::wirekit::wire::*;

    fn side(total: u32, read: u32, close: Close) -> Side {
        Side { writes: vec![total], try_write: false, reads: vec![read], peek: 0, close, wait_first: false, read_delay: 0, read_after_write: false }
    }
    fn sc(plan: Plan) -> Scenario {
        Scenario {
            guarded: false,
            via: Via::Wire,
            cfg: Cfg { mtu: 1500, lo_mtu: 65536, send_cap: 65536, recv_cap: 65536, retx_threshold: 3, retx_max: 5 },
            topo: Topo::CrossV4,
            bind_wild: true,
            sides: [side(0, 64, Close::AfterEof), side(5, 64, Close::Shutdown)],
            plan,
            poll: PollOrder::Fwd,
            spurious: 0,
            udp: vec![],
            lo_side: None,
        }
    }

    /// the suite's own `tcp_retx_recovers_from_single_segment_drop` must be quiet under the oracle
    #[test]
    fn single_data_drop_is_recovered() {
        let s = sc(Plan { faults: vec![Fault { sel: Sel::Kind { dir: S2C, kind: Kind::Data, nth: 0 }, act: Act::Drop }], hole: Hole::None, reorder: vec![] });
        let out = run_conn(&s, true);
        assert!(out.v6.is_none(), "{:?}\n{}", out.v6, out.log.lines.join("\n"));
        assert_eq!(out.fired.len(), 1);
        assert_eq!(out.mode, Mode::Bounded);
    }

    /// the suite's own `tcp_syn_retx_exhaustion_times_out`: connect must fail, not hang
    #[test]
    fn syn_blackhole_surfaces_as_error() {
        let s = sc(Plan { faults: vec![], hole: Hole::All { from: 0 }, reorder: vec![] });
        let out = run_conn(&s, true);
        assert!(out.v6.is_none(), "{:?}", out.v6);
        assert!(out.errors.iter().any(|e| e.1 == "connect" && e.2 == std::io::ErrorKind::TimedOut));
    }

    /// diagnostic: which known defects does the tree under test have (never fails)
    #[test]
    fn print_defects() {
        let d = crate::wirekit::gen::defects();
        println!("DEFECTS {d:?}");
        for (n, s) in [
            ("a", crate::wirekit::gen::canary_lost_ack()),
            ("b", crate::wirekit::gen::canary_zero_window()),
            ("c", crate::wirekit::gen::canary_lost_hsack()),
            ("d", crate::wirekit::gen::canary_hs_budget()),
            ("e", crate::wirekit::gen::canary_hs_data()),
            ("f1", crate::wirekit::gen::canary_no_timewait(false)),
            ("f2", crate::wirekit::gen::canary_no_timewait(true)),
            ("g", crate::wirekit::gen::canary_zw_refused()),
        ] {
            let out = run_conn(&s, false);
            println!("canary {n}: {:?} {}", out.v6.as_ref().map(|v| v.class.clone()), serde_json::to_string(&s).unwrap());
        }
    }

    /// Audit for a tree that still has known defects (run with `-- --ignored --nocapture`): every
    /// violation found by seeded exploration must fall under one of the matchers, and none may
    /// come from a guarded scenario. Prints a histogram; fails on anything unexplained.
    #[test]
    #[ignore]
    fn audit_matchers_on_unrepaired_tree() {
        use crate::core::{minimise, scenario_seed};
        use std::collections::BTreeMap;
        let n: u64 = std::env::var("AUDIT_N").ok().and_then(|s| s.parse().ok()).unwrap_or(20_000);
        let next = std::sync::atomic::AtomicU64::new(0);
        let hist: std::sync::Mutex<BTreeMap<String, u64>> = Default::default();
        let bad: std::sync::Mutex<Vec<String>> = Default::default();
        std::thread::scope(|sc| {
            for _ in 0..16 {
                sc.spawn(|| loop {
                    let idx = next.fetch_add(1, std::sync::atomic::Ordering::Relaxed);
                    if idx >= n {
                        break;
                    }
                    let mut rng = Rng::new(scenario_seed("C06", 1, idx));
                    let base = C06::generate(&mut rng, idx, Tier::Quick);
                    for s in C06::variants(&base, Tier::Quick) {
                        let r = C06::run(&s, false);
                        if let Some(v) = r.violation {
                            let (ms, mv, _) = minimise::<C06>(&s, &v, 300);
                            let out = run_conn(&ms, false);
                            let k = gen::classify_known(&ms, &out, &mv.class);
                            let key = format!("{} {:?} guarded={}", mv.class, k, s.guarded);
                            *hist.lock().unwrap().entry(key).or_insert(0) += 1;
                            if k.is_none() || s.guarded {
                                bad.lock().unwrap().push(format!("{} {}", gen::signature(&ms, &out, &mv.class), serde_json::to_string(&s).unwrap()));
                            }
                            break;
                        }
                    }
                });
            }
        });
        for (k, c) in hist.lock().unwrap().iter() {
            println!("AUDIT {c:>6} {k}");
        }
        let bad = bad.into_inner().unwrap();
        for b in bad.iter().take(10) {
            println!("UNEXPLAINED {b}");
        }
        assert!(bad.is_empty(), "{} unexplained or guarded violations", bad.len());
    }

    #[test]
    fn premise_arithmetic() {
        let cfg = Cfg { mtu: 1500, lo_mtu: 65536, send_cap: 1, recv_cap: 1, retx_threshold: 3, retx_max: 5 };
        let mut p = Plan::none();
        assert!(plan_is_bounded(&cfg, &p));
        for i in 0..4 {
            p.faults.push(Fault { sel: Sel::Idx(i), act: Act::Drop });
        }
        assert!(plan_is_bounded(&cfg, &p));
        p.faults.push(Fault { sel: Sel::Idx(9), act: Act::Drop });
        assert!(!plan_is_bounded(&cfg, &p), "retx_max drops are not fewer than the budget");
        let d = max_bounded_delay(&cfg, 1);
        let q = Plan { faults: vec![Fault { sel: Sel::Idx(0), act: Act::Drop }, Fault { sel: Sel::Idx(1), act: Act::Delay(d) }], hole: Hole::None, reorder: vec![] };
        assert!(plan_is_bounded(&cfg, &q));
        let q2 = Plan { faults: vec![Fault { sel: Sel::Idx(0), act: Act::Drop }, Fault { sel: Sel::Idx(1), act: Act::Delay(d + 1) }], hole: Hole::None, reorder: vec![] };
        assert!(!plan_is_bounded(&cfg, &q2));
    }

    #[test]
    fn pattern_detects_shifts() {
        for k in 1..600u64 {
            assert!((0..600u64).any(|o| pat(0, o) != pat(0, o + k)), "shift {k}");
        }
        assert!((0..64u64).any(|o| pat(0, o) != pat(1, o)));
    }
}
