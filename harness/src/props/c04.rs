//! C04 — a crashed host stops dead, releases everything, and restarts cleanly.
//!
//! Hosts: victims `v0` (`v1`), peers `p0` (`p1`) talking to the victims, and an uninvolved pair
//! `u0` <-> `u1`. Programs are data (op lists with nested spawns) interpreted by one generic task
//! function. `variants` places `Sim::crash` at every step index of the workload; the script then
//! bounces after k steps / never / repeats the cycle / bounces without a crash. Every run is compared
//! with its crash-free twin on the logs of the uninvolved pair.

use crate::core::prng::{hash_str, Rng};
use crate::core::{catch, Property, Report, Tier, Violation};
use crate::simkit::{us, SharedLog, SimCfg};
use serde::{Deserialize, Serialize};
use std::cell::{Cell, RefCell};
use std::collections::BTreeMap;
use std::future::Future;
use std::net::{IpAddr, Ipv4Addr, Ipv6Addr, SocketAddr};
use std::pin::Pin;
use std::rc::Rc;
use std::sync::atomic::{AtomicI64, AtomicU32, AtomicU64, Ordering};
use std::sync::Arc;
use std::time::Duration;
use tokio::io::{AsyncReadExt, AsyncWriteExt};
use turmoil::net::{TcpListener, TcpStream, UdpSocket};

const MAX_INC: usize = 8;

#[derive(Clone, Debug, Serialize, Deserialize, PartialEq)]
pub enum Op {
    // --- TCP ---
    Listen { port: u16 },
    /// accept one connection into the task's stream slot
    Accept,
    /// forever: accept, run `serve` on the stream in a fresh local task
    AcceptLoop { serve: Vec<Op> },
    Connect { host: u8, port: u16 },
    /// `how`: 0 = write_all, 1 = writable().await then try_write (WouldBlock: wait again)
    Write {
        len: u16,
        times: u16,
        gap: u8,
        #[serde(default)]
        how: u8,
    },
    /// `peek`: wait for readiness with peek() before every read (the peek-for-readiness-then-read pattern)
    Read {
        buf: u16,
        times: u16,
        gap: u8,
        #[serde(default)]
        peek: bool,
    },
    ReadToEnd { buf: u16 },
    Shutdown,
    DropStream,
    /// into_split(); the write half is dropped at once (0), moved into a tokio::spawn'ed task (1) or into a
    /// spawn_local'ed task (2) that just holds it; this task then holds the read half for ever without reading
    SplitIdle { mode: u8 },
    // --- UDP ---
    UdpBind { port: u16 },
    UdpJoin { g: u8 },
    UdpConnect { host: u8, port: u16 },
    /// host 255 = multicast group `g`
    UdpSend { host: u8, g: u8, port: u16, times: u16, gap: u8 },
    UdpRecv { times: u16 },
    // --- misc ---
    Sleep { ticks: u8 },
    /// loop { sleep(gap ticks); bump activity }
    Forever { gap: u8 },
    /// local = tokio::task::spawn_local (full op set), else tokio::spawn (Sleep / Forever / UdpBind / Spawn{local:false} only)
    Spawn { local: bool, ops: Vec<Op> },
    Fs { chunks: u8, sync_every: u8, gap: u8 },
    Ring { writes: u8, gap: u8 },
    /// the main future returns Ok(()) here (host software finished; such hosts are outside the claim)
    Return,
}

#[derive(Clone, Copy, Debug, Serialize, Deserialize, PartialEq)]
pub enum Kind {
    Victim,
    Peer,
    Uninvolved,
}

#[derive(Clone, Debug, Serialize, Deserialize)]
pub struct HostSpec {
    pub name: String,
    pub kind: Kind,
    pub ops: Vec<Op>,
}

#[derive(Clone, Debug, Serialize, Deserialize, PartialEq)]
pub enum Sel {
    Host(u8),
    Regex(String),
}

#[derive(Clone, Debug, Serialize, Deserialize, PartialEq)]
pub enum Pattern {
    /// crash, bounce k steps later
    CrashBounce { k: u8 },
    CrashOnly,
    /// bounce without a crash
    BounceOnly,
    /// n x (crash, bounce after k steps, run `up` steps)
    Cycles { n: u8, k: u8, up: u8 },
    /// the crash-free twin
    None,
}

#[derive(Clone, Debug, Serialize, Deserialize)]
pub struct Scenario {
    pub cfg: SimCfg,
    pub hosts: Vec<HostSpec>,
    pub sel: Sel,
    pub pattern: Pattern,
    /// the first fault is injected before this step (1-based); `variants` enumerates it
    pub crash_at: u32,
    pub workload_steps: u32,
    /// false = the workload may let the victim's main future return (such hosts are not judged)
    pub guarded: bool,
    /// (host, step): an uninvolved host that is bounced (without a crash) before that step, in this run and
    /// in the crash-free twin alike — typically while the victim is down
    #[serde(default)]
    pub bystander: Option<(u8, u32)>,
    /// the first uninvolved host is registered only before this step (run and twin alike): its clock starts
    /// at an offset from the simulation's
    #[serde(default)]
    pub late_u0: Option<u32>,
}

pub struct C04;

#[derive(Clone, Debug, PartialEq)]
enum Act {
    Crash,
    Bounce,
}

fn pattern_len(p: &Pattern) -> u32 {
    match p {
        Pattern::CrashBounce { k } => *k as u32,
        Pattern::CrashOnly | Pattern::BounceOnly | Pattern::None => 0,
        Pattern::Cycles { n, k, up } => (*n as u32) * (*k as u32 + *up as u32),
    }
}

fn script(sc: &Scenario) -> Vec<(u32, Act)> {
    let c = sc.crash_at.max(1);
    match &sc.pattern {
        Pattern::CrashBounce { k } => vec![(c, Act::Crash), (c + *k as u32, Act::Bounce)],
        Pattern::CrashOnly => vec![(c, Act::Crash)],
        Pattern::BounceOnly => vec![(c, Act::Bounce)],
        Pattern::Cycles { n, k, up } => {
            let mut v = Vec::new();
            let mut at = c;
            for _ in 0..*n {
                v.push((at, Act::Crash));
                at += *k as u32;
                v.push((at, Act::Bounce));
                at += (*up as u32).max(1);
            }
            v
        }
        Pattern::None => vec![],
    }
}

fn total_steps(sc: &Scenario) -> u32 {
    sc.workload_steps + pattern_len(&sc.pattern) + 2 * sc.cfg.max_latency_ticks() as u32 + 8
}

// ------------------------------------------------------------------------------------------------
// shared run state

/// Counters that Send tasks (tokio::spawn) can touch as well.
struct HostCounters {
    live: [AtomicI64; MAX_INC],
    activity: AtomicU64,
    sends: AtomicU64,
    factory_calls: AtomicU32,
    /// stream objects (whole or split) and pending connects the host's software holds right now
    streams: AtomicI64,
}

/// Lives exactly as long as the stream object (or pending connect) next to it.
struct Held(Arc<HostCounters>);

impl Held {
    fn new(c: &Arc<HostCounters>) -> Held {
        c.streams.fetch_add(1, Ordering::Relaxed);
        Held(c.clone())
    }
}

impl Drop for Held {
    fn drop(&mut self) {
        self.0.streams.fetch_sub(1, Ordering::Relaxed);
    }
}

impl HostCounters {
    fn new() -> Self {
        HostCounters { live: Default::default(), activity: AtomicU64::new(0), sends: AtomicU64::new(0), factory_calls: AtomicU32::new(0), streams: AtomicI64::new(0) }
    }
    fn live_total(&self) -> i64 {
        self.live.iter().map(|l| l.load(Ordering::Relaxed)).sum()
    }
}

/// Drop-counting guard held by every task.
struct TaskGuard {
    c: Arc<HostCounters>,
    inc: usize,
}

impl TaskGuard {
    fn new(c: &Arc<HostCounters>, inc: u32) -> TaskGuard {
        let i = (inc as usize).min(MAX_INC - 1);
        c.live[i].fetch_add(1, Ordering::Relaxed);
        TaskGuard { c: c.clone(), inc: i }
    }
}

impl Drop for TaskGuard {
    fn drop(&mut self) {
        self.c.live[self.inc].fetch_sub(1, Ordering::Relaxed);
    }
}

#[derive(Clone, Copy, Debug, PartialEq)]
enum PK {
    Read,
    Write,
    Connect,
    Accept,
    UdpRecv,
}

#[derive(Clone, Debug)]
struct Pend {
    id: u64,
    host: usize,
    kind: PK,
    /// remote host of the connection (usize::MAX = unknown)
    peer: usize,
    start_step: u32,
    /// step in which the connection this operation works on was established locally (0 = n/a)
    conn_born: u32,
    /// the connection was accepted locally (the remote host was the connector)
    conn_accepted: bool,
}

#[derive(Clone, Debug, PartialEq)]
enum Res {
    Ok(usize),
    Eof,
    Err(String),
    Cancelled,
}

#[derive(Clone, Debug)]
struct Done {
    p: Pend,
    end_step: u32,
    res: Res,
    /// local address of a successful connect
    local: Option<SocketAddr>,
}

#[derive(Clone, Debug)]
enum Ev {
    Bind { host: usize, inc: u32, tcp: bool, port: u16, err: Option<String> },
    Accepted { host: usize, inc: u32, peer: SocketAddr },
    UdpSent { host: usize, n: u64, to_host: Option<usize>, step: u32 },
    UdpRecvd { host: usize, inc: u32, from_host: usize, n: u64, step: u32 },
    MainReturned { host: usize },
    /// something the restarted software of a host observed that a clean restart rules out
    Anomaly { host: usize, what: String },
}

#[derive(Clone)]
struct Shared {
    log: SharedLog,
    step: Rc<Cell<u32>>,
    counters: Rc<Vec<Arc<HostCounters>>>,
    pend: Rc<RefCell<BTreeMap<u64, Pend>>>,
    done: Rc<RefCell<Vec<Done>>>,
    next_op: Rc<Cell<u64>>,
    evs: Rc<RefCell<Vec<Ev>>>,
    /// plain per-host lines (no global counters) for the twin comparison; kept for uninvolved hosts only
    ulines: Rc<RefCell<Vec<Vec<String>>>>,
    names: Rc<Vec<String>>,
    kinds: Rc<Vec<Kind>>,
    tick_us: u64,
    v6: bool,
}

#[derive(Clone)]
struct Ctx {
    sh: Shared,
    host: usize,
    inc: u32,
    task: String,
}

impl Ctx {
    fn c(&self) -> &Arc<HostCounters> {
        &self.sh.counters[self.host]
    }
    fn bump(&self) {
        self.c().activity.fetch_add(1, Ordering::Relaxed);
    }
    fn log(&self, what: impl AsRef<str>) {
        let t = turmoil::sim_elapsed().map(us).unwrap_or(u64::MAX);
        let line = format!("s{} t={} {}.{} [{}] {}", self.sh.step.get(), t, self.sh.names[self.host], self.inc, self.task, what.as_ref());
        if self.sh.kinds[self.host] == Kind::Uninvolved {
            self.sh.ulines.borrow_mut()[self.host].push(line.clone());
        }
        self.sh.log.ev(line);
    }
    /// Event-log line that stays out of the twin comparison (an observation of an uninvolved host that
    /// legitimately depends on what the peers of a victim do, e.g. the sequence number in a peer's datagram).
    fn log_untwinned(&self, what: impl AsRef<str>) {
        let t = turmoil::sim_elapsed().map(us).unwrap_or(u64::MAX);
        self.sh.log.ev(format!("s{} t={} {}.{} [{}] {}", self.sh.step.get(), t, self.sh.names[self.host], self.inc, self.task, what.as_ref()));
    }
    fn tag(&self, t: &str) {
        self.sh.log.tag(t);
    }
    fn tick(&self) -> Duration {
        Duration::from_micros(self.sh.tick_us)
    }
    fn begin(&self, kind: PK, peer: usize, conn_born: u32, conn_accepted: bool) -> PendGuard {
        let id = self.sh.next_op.get();
        self.sh.next_op.set(id + 1);
        let p = Pend { id, host: self.host, kind, peer, start_step: self.sh.step.get(), conn_born, conn_accepted };
        self.sh.pend.borrow_mut().insert(id, p.clone());
        PendGuard { sh: self.sh.clone(), p: Some(p) }
    }
    fn host_of_ip(&self, ip: IpAddr) -> usize {
        if ip.is_loopback() {
            return self.host;
        }
        match turmoil::reverse_lookup(ip) {
            Some(n) => self.sh.names.iter().position(|x| *x == n).unwrap_or(usize::MAX),
            None => usize::MAX,
        }
    }
    fn child(&self, suffix: usize) -> Ctx {
        Ctx { sh: self.sh.clone(), host: self.host, inc: self.inc, task: format!("{}.{}", self.task, suffix) }
    }
}

/// An operation that may block; dropping it unfinished (task cancelled) records `Cancelled`.
struct PendGuard {
    sh: Shared,
    p: Option<Pend>,
}

impl PendGuard {
    fn finish(mut self, res: Res, local: Option<SocketAddr>) {
        if let Some(p) = self.p.take() {
            self.sh.pend.borrow_mut().remove(&p.id);
            self.sh.done.borrow_mut().push(Done { p, end_step: self.sh.step.get(), res, local });
        }
    }
}

impl Drop for PendGuard {
    fn drop(&mut self) {
        if let Some(p) = self.p.take() {
            if let Ok(mut m) = self.sh.pend.try_borrow_mut() {
                m.remove(&p.id);
            }
            if let Ok(mut d) = self.sh.done.try_borrow_mut() {
                d.push(Done { p, end_step: self.sh.step.get(), res: Res::Cancelled, local: None });
            }
        }
    }
}

fn wildcard(v6: bool) -> IpAddr {
    if v6 {
        IpAddr::V6(Ipv6Addr::UNSPECIFIED)
    } else {
        IpAddr::V4(Ipv4Addr::UNSPECIFIED)
    }
}

fn group_ip(v6: bool, g: u8) -> IpAddr {
    if v6 {
        IpAddr::V6(Ipv6Addr::new(0xff08, 0, 0, 0, 0, 0, 0, 1 + g as u16))
    } else {
        IpAddr::V4(Ipv4Addr::new(239, 0, 0, 1 + g))
    }
}

fn err_kind(e: &std::io::Error) -> String {
    format!("{:?}", e.kind())
}

type BoxFut = Pin<Box<dyn Future<Output = bool>>>;

/// Interpret `ops`; returns true if a `Return` op was reached.
fn run_ops(cx: Ctx, ops: Vec<Op>, guard: TaskGuard, stream_in: Option<(TcpStream, usize, u32, bool)>, held_in: Option<Held>) -> BoxFut {
    Box::pin(async move {
        let _guard = guard;
        let mut listener: Option<TcpListener> = None;
        // (declared before `stream`: dropped after it)
        let mut held: Option<Held> = held_in;
        let mut stream: Option<(TcpStream, usize, u32, bool)> = stream_in;
        let mut udp: Option<UdpSocket> = None;
        let mut nchild = 0usize;
        for op in ops.iter() {
            cx.bump();
            match op {
                Op::Listen { port } => match TcpListener::bind(SocketAddr::new(wildcard(cx.sh.v6), *port)).await {
                    Ok(l) => {
                        cx.log(format!("listen {port} ok"));
                        cx.sh.evs.borrow_mut().push(Ev::Bind { host: cx.host, inc: cx.inc, tcp: true, port: *port, err: None });
                        listener = Some(l);
                    }
                    Err(e) => {
                        cx.log(format!("listen {port} err {}", err_kind(&e)));
                        cx.sh.evs.borrow_mut().push(Ev::Bind { host: cx.host, inc: cx.inc, tcp: true, port: *port, err: Some(err_kind(&e)) });
                    }
                },
                Op::Accept => {
                    let Some(l) = listener.as_ref() else { continue };
                    let g = cx.begin(PK::Accept, usize::MAX, 0, false);
                    match l.accept().await {
                        Ok((s, peer)) => {
                            g.finish(Res::Ok(0), None);
                            let ph = cx.host_of_ip(peer.ip());
                            cx.log(format!("accepted from {peer}"));
                            cx.tag("accept");
                            cx.sh.evs.borrow_mut().push(Ev::Accepted { host: cx.host, inc: cx.inc, peer });
                            stream = Some((s, ph, cx.sh.step.get(), true));
                            held = Some(Held::new(cx.c()));
                        }
                        Err(e) => {
                            g.finish(Res::Err(err_kind(&e)), None);
                            cx.log(format!("accept err {}", err_kind(&e)));
                        }
                    }
                }
                Op::AcceptLoop { serve } => {
                    let Some(l) = listener.as_ref() else { continue };
                    loop {
                        let g = cx.begin(PK::Accept, usize::MAX, 0, false);
                        match l.accept().await {
                            Ok((s, peer)) => {
                                g.finish(Res::Ok(0), None);
                                cx.bump();
                                let ph = cx.host_of_ip(peer.ip());
                                cx.log(format!("accepted from {peer}"));
                                cx.tag("accept");
                                cx.sh.evs.borrow_mut().push(Ev::Accepted { host: cx.host, inc: cx.inc, peer });
                                let child = cx.child(nchild);
                                nchild += 1;
                                let tg = TaskGuard::new(cx.c(), cx.inc);
                                let h = Held::new(cx.c());
                                tokio::task::spawn_local(run_ops(child, serve.clone(), tg, Some((s, ph, cx.sh.step.get(), true)), Some(h)));
                            }
                            Err(e) => {
                                g.finish(Res::Err(err_kind(&e)), None);
                                cx.log(format!("accept err {}", err_kind(&e)));
                                break;
                            }
                        }
                    }
                }
                Op::Connect { host, port } => {
                    let ph = *host as usize;
                    let name = cx.sh.names[ph].clone();
                    let g = cx.begin(PK::Connect, ph, 0, false);
                    cx.log(format!("connect {name}:{port} ...")); 
                    drop(stream.take());
                    held = Some(Held::new(cx.c()));
                    match TcpStream::connect((name.as_str(), *port)).await {
                        Ok(s) => {
                            let la = s.local_addr().ok();
                            g.finish(Res::Ok(0), la);
                            cx.log(format!("connect {name}:{port} ok local={la:?}"));
                            cx.tag("connect-ok");
                            stream = Some((s, ph, cx.sh.step.get(), false));
                        }
                        Err(e) => {
                            g.finish(Res::Err(err_kind(&e)), None);
                            held = None;
                            cx.log(format!("connect {name}:{port} err {}", err_kind(&e)));
                            cx.tag("connect-err");
                        }
                    }
                }
                Op::Write { len, times, gap, how } => {
                    let Some((s, ph, born, acc)) = stream.as_mut() else { continue };
                    let buf = vec![cx.inc as u8; *len as usize];
                    for k in 0..*times {
                        let g = cx.begin(PK::Write, *ph, *born, *acc);
                        let r = if *how == 1 {
                            // readiness style: park in writable(), then try_write
                            let mut off = 0;
                            loop {
                                if let Err(e) = s.writable().await {
                                    break Err(e);
                                }
                                match s.try_write(&buf[off..]) {
                                    Ok(n) => {
                                        off += n;
                                        if off >= buf.len() {
                                            break Ok(());
                                        }
                                    }
                                    Err(e) if e.kind() == std::io::ErrorKind::WouldBlock => continue,
                                    Err(e) => break Err(e),
                                }
                            }
                        } else {
                            s.write_all(&buf).await
                        };
                        cx.bump();
                        cx.c().sends.fetch_add(1, Ordering::Relaxed);
                        match r {
                            Ok(()) => {
                                g.finish(Res::Ok(buf.len()), None);
                                cx.log(format!("write #{k} {} ok", buf.len()));
                                cx.tag("w");
                            }
                            Err(e) => {
                                g.finish(Res::Err(err_kind(&e)), None);
                                cx.log(format!("write #{k} err {}", err_kind(&e)));
                                cx.tag("w-err");
                                break;
                            }
                        }
                        if *gap > 0 {
                            tokio::time::sleep(cx.tick() * *gap as u32).await;
                        }
                    }
                }
                Op::Read { buf, times, gap, peek } => {
                    let Some((s, ph, born, acc)) = stream.as_mut() else { continue };
                    let mut b = vec![0u8; (*buf as usize).max(1)];
                    for k in 0..*times {
                        let g = cx.begin(PK::Read, *ph, *born, *acc);
                        if *peek {
                            let mut p = [0u8; 1];
                            if let Err(e) = s.peek(&mut p).await {
                                g.finish(Res::Err(err_kind(&e)), None);
                                cx.log(format!("peek #{k} err {}", err_kind(&e)));
                                cx.tag("r-err");
                                break;
                            }
                        }
                        let r = s.read(&mut b).await;
                        cx.bump();
                        match r {
                            Ok(0) => {
                                g.finish(Res::Eof, None);
                                cx.log(format!("read #{k} eof"));
                                cx.tag("eof");
                                break;
                            }
                            Ok(n) => {
                                g.finish(Res::Ok(n), None);
                                cx.log(format!("read #{k} {n} bytes inc-byte={}", b[0]));
                                cx.tag("r");
                            }
                            Err(e) => {
                                g.finish(Res::Err(err_kind(&e)), None);
                                cx.log(format!("read #{k} err {}", err_kind(&e)));
                                cx.tag("r-err");
                                break;
                            }
                        }
                        if *gap > 0 {
                            tokio::time::sleep(cx.tick() * *gap as u32).await;
                        }
                    }
                }
                Op::ReadToEnd { buf } => {
                    let Some((s, ph, born, acc)) = stream.as_mut() else { continue };
                    let mut b = vec![0u8; (*buf as usize).max(1)];
                    let mut k = 0;
                    loop {
                        let g = cx.begin(PK::Read, *ph, *born, *acc);
                        let r = s.read(&mut b).await;
                        cx.bump();
                        k += 1;
                        match r {
                            Ok(0) => {
                                g.finish(Res::Eof, None);
                                cx.log(format!("read #{k} eof"));
                                cx.tag("eof");
                                break;
                            }
                            Ok(n) => {
                                g.finish(Res::Ok(n), None);
                                cx.log(format!("read #{k} {n} bytes"));
                                cx.tag("r");
                            }
                            Err(e) => {
                                g.finish(Res::Err(err_kind(&e)), None);
                                cx.log(format!("read #{k} err {}", err_kind(&e)));
                                cx.tag("r-err");
                                break;
                            }
                        }
                    }
                }
                Op::Shutdown => {
                    if let Some((s, _, _, _)) = stream.as_mut() {
                        let r = s.shutdown().await;
                        cx.log(format!("shutdown {:?}", r.map_err(|e| e.kind())));
                    }
                }
                Op::DropStream => {
                    stream = None;
                    held = None;
                    cx.log("drop stream");
                }
                Op::SplitIdle { mode } => {
                    let Some((s, _, _, _)) = stream.take() else { continue };
                    let (r, w) = s.into_split();
                    match mode {
                        0 => drop(w),
                        1 => {
                            tokio::spawn(async move {
                                let _w = w;
                                std::future::pending::<()>().await;
                            });
                        }
                        _ => {
                            tokio::task::spawn_local(async move {
                                let _w = w;
                                std::future::pending::<()>().await;
                            });
                        }
                    }
                    cx.log(format!("split, write half {}, read half held unread", ["dropped", "in a tokio::spawn task", "in a spawn_local task"][(*mode as usize).min(2)]));
                    cx.tag("split-idle");
                    loop {
                        tokio::time::sleep(cx.tick() * 3).await;
                        cx.bump();
                        let _ = (&r, &held);
                    }
                }
                Op::UdpBind { port } => match UdpSocket::bind(SocketAddr::new(wildcard(cx.sh.v6), *port)).await {
                    Ok(s) => {
                        cx.log(format!("udp bind {port} ok"));
                        cx.sh.evs.borrow_mut().push(Ev::Bind { host: cx.host, inc: cx.inc, tcp: false, port: *port, err: None });
                        udp = Some(s);
                    }
                    Err(e) => {
                        cx.log(format!("udp bind {port} err {}", err_kind(&e)));
                        cx.sh.evs.borrow_mut().push(Ev::Bind { host: cx.host, inc: cx.inc, tcp: false, port: *port, err: Some(err_kind(&e)) });
                    }
                },
                Op::UdpJoin { g } => {
                    if let Some(s) = udp.as_ref() {
                        let r = match group_ip(cx.sh.v6, *g) {
                            IpAddr::V4(a) => s.join_multicast_v4(a, Ipv4Addr::UNSPECIFIED),
                            IpAddr::V6(a) => s.join_multicast_v6(&a, 0),
                        };
                        cx.log(format!("udp join g{g} {:?}", r.map_err(|e| e.kind())));
                    }
                }
                Op::UdpConnect { host, port } => {
                    if let Some(s) = udp.as_ref() {
                        let name = cx.sh.names[*host as usize].clone();
                        let r = s.connect((name.as_str(), *port)).await;
                        cx.log(format!("udp connect {name}:{port} {:?}", r.map_err(|e| e.kind())));
                    }
                }
                Op::UdpSend { host, g, port, times, gap } => {
                    let Some(s) = udp.as_ref() else { continue };
                    for _ in 0..*times {
                        let n = cx.c().sends.fetch_add(1, Ordering::Relaxed) + 1;
                        cx.bump();
                        let p = [b'D', cx.host as u8, cx.inc as u8, (n >> 8) as u8, n as u8];
                        let (r, to_host) = if *host == 255 {
                            (s.send_to(&p, SocketAddr::new(group_ip(cx.sh.v6, *g), *port)).await, None)
                        } else {
                            let name = cx.sh.names[*host as usize].clone();
                            (s.send_to(&p, (name.as_str(), *port)).await, Some(*host as usize))
                        };
                        cx.log(format!("udp send n={n} to {:?}:{port} {:?}", to_host.map(|h| cx.sh.names[h].clone()), r.map_err(|e| e.kind())));
                        cx.tag("us");
                        cx.sh.evs.borrow_mut().push(Ev::UdpSent { host: cx.host, n, to_host, step: cx.sh.step.get() });
                        if *gap > 0 {
                            tokio::time::sleep(cx.tick() * *gap as u32).await;
                        } else {
                            tokio::task::yield_now().await;
                        }
                    }
                }
                Op::UdpRecv { times } => {
                    let Some(s) = udp.as_ref() else { continue };
                    let mut b = [0u8; 16];
                    for _ in 0..*times {
                        let g = cx.begin(PK::UdpRecv, usize::MAX, 0, false);
                        let r = s.recv_from(&mut b).await;
                        cx.bump();
                        match r {
                            Ok((n, from)) if n == 5 && b[0] == b'D' => {
                                g.finish(Res::Ok(n), None);
                                let (fh, finc, num) = (b[1] as usize, b[2], ((b[3] as u64) << 8) | b[4] as u64);
                                let line = format!("udp recv n={num} from {}.{finc} ({from})", cx.sh.names.get(fh).cloned().unwrap_or_default());
                                if cx.sh.kinds.get(fh).copied() == Some(Kind::Uninvolved) || cx.sh.kinds[cx.host] != Kind::Uninvolved {
                                    cx.log(line);
                                } else {
                                    // a victim's peer multicasts to the shared group: its counter depends on the fault
                                    cx.log_untwinned(line);
                                }
                                cx.tag("ur");
                                cx.sh.evs.borrow_mut().push(Ev::UdpRecvd { host: cx.host, inc: cx.inc, from_host: fh, n: num, step: cx.sh.step.get() });
                            }
                            Ok((n, from)) => {
                                g.finish(Res::Ok(n), None);
                                cx.log(format!("udp recv {n} odd bytes from {from}"));
                            }
                            Err(e) => {
                                g.finish(Res::Err(err_kind(&e)), None);
                                cx.log(format!("udp recv err {}", err_kind(&e)));
                                break;
                            }
                        }
                    }
                }
                Op::Sleep { ticks } => {
                    if *ticks == 0 {
                        tokio::task::yield_now().await;
                    } else {
                        tokio::time::sleep(cx.tick() * *ticks as u32).await;
                    }
                }
                Op::Forever { gap } => {
                    let mut k = 0u64;
                    loop {
                        tokio::time::sleep(cx.tick() * (*gap as u32).max(1)).await;
                        cx.bump();
                        k += 1;
                        if cx.sh.kinds[cx.host] == Kind::Uninvolved {
                            cx.log(format!("timer #{k} elapsed={}", us(turmoil::elapsed())));
                        }
                    }
                }
                Op::Spawn { local, ops } => {
                    let tg = TaskGuard::new(cx.c(), cx.inc);
                    let child = cx.child(nchild);
                    nchild += 1;
                    if *local {
                        tokio::task::spawn_local(run_ops(child, ops.clone(), tg, None, None));
                    } else {
                        tokio::spawn(send_task(cx.c().clone(), cx.inc, cx.sh.tick_us, cx.sh.v6, ops.clone(), tg));
                    }
                }
                Op::Fs { chunks, sync_every, gap } => {
                    use std::os::unix::fs::FileExt;
                    use turmoil::fs::shim::std::fs as sfs;
                    let path = format!("/d{}/f{}", cx.inc, cx.task.replace('.', "_"));
                    let r: std::io::Result<()> = async {
                        sfs::create_dir_all(format!("/d{}", cx.inc))?;
                        let f = sfs::OpenOptions::new().read(true).write(true).create(true).open(&path)?;
                        for k in 0..*chunks {
                            let data = vec![k; 16];
                            f.write_all_at(&data, k as u64 * 16)?;
                            cx.bump();
                            if *sync_every > 0 && k % *sync_every == 0 {
                                f.sync_all()?;
                            }
                            let len = f.metadata()?.len();
                            cx.log(format!("fs write chunk {k} len={len}"));
                            cx.tag("fs");
                            if k % 6 == 5 {
                                let mut names: Vec<String> = sfs::read_dir("/")?.filter_map(|e| e.ok()).map(|e| e.file_name().to_string_lossy().into_owned()).collect();
                                names.sort();
                                cx.log(format!("fs root {names:?} first-bytes {:?}", sfs::read(&path).map(|d| d.iter().take(4).copied().collect::<Vec<u8>>()).map_err(|e| e.kind())));
                            }
                            tokio::time::sleep(cx.tick() * (*gap as u32).max(1)).await;
                        }
                        let mut names: Vec<String> = sfs::read_dir("/")?.filter_map(|e| e.ok()).map(|e| e.file_name().to_string_lossy().into_owned()).collect();
                        names.sort();
                        cx.log(format!("fs root {names:?}"));
                        Ok(())
                    }
                    .await;
                    if let Err(e) = r {
                        cx.log(format!("fs err {}", err_kind(&e)));
                    }
                }
                Op::Ring { writes, gap } => {
                    use std::os::fd::AsRawFd;
                    use turmoil::fs::shim::std::fs as sfs;
                    use turmoil::io_uring::{opcode, types, IoUring};
                    let path = format!("/r{}_{}", cx.inc, cx.task.replace('.', "_"));
                    let r: std::io::Result<()> = async {
                        // odd incarnations hold an O_DIRECT handle (opened first) for as long as they live
                        let _direct = if cx.inc % 2 == 1 { sfs::OpenOptions::new().read(true).write(true).create(true).direct_io(true).open("/rdirect").ok() } else { None };
                        let f = sfs::OpenOptions::new().read(true).write(true).create(true).open(&path)?;
                        let fd = types::Fd(f.as_raw_fd());
                        let mut ring = IoUring::new(8)?;
                        let mut bufs: Vec<Vec<u8>> = Vec::new();
                        let mut done = 0u32;
                        for k in 0..*writes {
                            bufs.push(vec![k; 8]);
                            let b = bufs.last().unwrap();
                            let w = opcode::Write::new(fd, b.as_ptr(), b.len() as u32).offset(k as u64 * 8).build().user_data(k as u64);
                            let pushed = unsafe { ring.submission().push(&w).is_ok() };
                            let sub = ring.submit();
                            cx.bump();
                            tokio::time::sleep(cx.tick() * (*gap as u32).max(1)).await;
                            let mut cq = ring.completion();
                            cq.sync();
                            let mut got = 0;
                            for c in &mut cq {
                                got += 1;
                                if c.result() != 8 {
                                    // an ordinary buffered write of 8 bytes on a fresh file of this incarnation
                                    cx.sh.evs.borrow_mut().push(Ev::Anomaly { host: cx.host, what: format!("incarnation {} of {}: an 8-byte io_uring write on a buffered file it has just opened completed with {}", cx.inc, cx.sh.names[cx.host], c.result()) });
                                }
                            }
                            done += got;
                            cx.log(format!("ring write {k} pushed={pushed} submit={:?} cqes={got} total={done}", sub.map_err(|e| e.kind())));
                            cx.tag("ring");
                        }
                        Ok(())
                    }
                    .await;
                    if let Err(e) = r {
                        cx.log(format!("ring err {}", err_kind(&e)));
                    }
                }
                Op::Return => {
                    cx.log("main returns");
                    return true;
                }
            }
        }
        // a task that ran out of ops keeps its sockets and waits
        if stream.is_some() || listener.is_some() || udp.is_some() {
            std::future::pending::<()>().await;
        }
        false
    })
}

/// The restricted interpreter for tokio::spawn (must be Send): counters only, no logging.
fn send_task(c: Arc<HostCounters>, inc: u32, tick_us: u64, v6: bool, ops: Vec<Op>, guard: TaskGuard) -> Pin<Box<dyn Future<Output = ()> + Send>> {
    Box::pin(async move {
        let _guard = guard;
        let tick = Duration::from_micros(tick_us);
        let mut udp: Option<UdpSocket> = None;
        for op in ops.iter() {
            c.activity.fetch_add(1, Ordering::Relaxed);
            match op {
                Op::Sleep { ticks } => tokio::time::sleep(tick * (*ticks as u32).max(1)).await,
                Op::Forever { gap } => loop {
                    tokio::time::sleep(tick * (*gap as u32).max(1)).await;
                    c.activity.fetch_add(1, Ordering::Relaxed);
                },
                Op::UdpBind { port } => {
                    udp = UdpSocket::bind(SocketAddr::new(wildcard(v6), *port)).await.ok();
                }
                Op::Spawn { local: false, ops } => {
                    let tg = TaskGuard::new(&c, inc);
                    tokio::spawn(send_task(c.clone(), inc, tick_us, v6, ops.clone(), tg));
                }
                _ => {}
            }
        }
        if udp.is_some() {
            std::future::pending::<()>().await;
        }
    })
}

async fn host_main(sh: Shared, host: usize, inc: u32, ops: Vec<Op>, guard: TaskGuard) -> turmoil::Result {
    let cx = Ctx { sh: sh.clone(), host, inc, task: "m".into() };
    cx.log("start");
    let returned = run_ops(cx.clone(), ops, guard, None, None).await;
    if returned {
        sh.evs.borrow_mut().push(Ev::MainReturned { host });
        return Ok(());
    }
    std::future::pending::<()>().await;
    Ok(())
}

// ------------------------------------------------------------------------------------------------
// generator

const V_TCP: u16 = 7000;
const V_UDP: u16 = 7001;

fn gen_scenario(rng: &mut Rng) -> Scenario {
    let tick_ms = *rng.pick(&[1u64, 1, 2, 5, 10]);
    let tick_us = tick_ms * 1000;
    let lat_ticks = *rng.pick(&[0u64, 0, 1, 1, 2, 3, 4]);
    let lat_us = if lat_ticks == 0 {
        0
    } else if rng.chance(1, 3) {
        // not aligned to the tick
        (lat_ticks - 1) * tick_us + 1000 * rng.range(1, tick_ms.max(1))
    } else {
        lat_ticks * tick_us
    };
    let cap = *rng.pick(&[1usize, 2, 3, 8, 64]);
    let cfg = SimCfg {
        rng_seed: rng.next_u64(),
        epoch_s: 1_000_000_000 + rng.below(1_000_000_000),
        epoch_sub_us: 0,
        tick_us,
        duration_ms: 3_600_000,
        min_latency_us: lat_us,
        max_latency_us: lat_us,
        latency_curve_milli: None,
        fail_rate_pm: 0,
        repair_rate_pm: 1000,
        random_order: false,
        tcp_capacity: cap,
        udp_capacity: 64,
        ephemeral: None,
        ipv6: rng.chance(1, 4),
    };
    let guarded = !rng.chance(1, 20);
    let w = rng.range(8, 20) as u32;
    let two_victims = rng.chance(1, 4);
    let two_peers = rng.chance(1, 3);
    // host indices
    let mut names: Vec<(String, Kind)> = vec![("v0".into(), Kind::Victim)];
    if two_victims {
        names.push(("v1".into(), Kind::Victim));
    }
    let p0 = names.len();
    names.push(("p0".into(), Kind::Peer));
    if two_peers {
        names.push(("p1".into(), Kind::Peer));
    }
    let u0 = names.len();
    names.push(("u0".into(), Kind::Uninvolved));
    names.push(("u1".into(), Kind::Uninvolved));
    // registration order is part of the scenario (fixed node order = registration order)
    let npeers = if two_peers { 2 } else { 1 };
    let mut progs: Vec<Vec<Op>> = vec![Vec::new(); names.len()];

    // ---- victim v0 ----
    let mut v: Vec<Op> = vec![Op::Listen { port: V_TCP }];
    let mut peer_tasks: Vec<Vec<Op>> = Vec::new(); // to be distributed over the peers
    let nfeat = rng.usize(1, 3);
    let mut feats: Vec<usize> = (0..9).collect();
    rng.shuffle(&mut feats);
    feats.truncate(nfeat);
    let has_udp = feats.contains(&5);
    if !has_udp {
        v.push(Op::UdpBind { port: V_UDP });
    }
    for f in &feats {
        match f {
            0 => {
                // queued, never accepted connection requests on the main listener
                let k = rng.usize(1, cap.min(3));
                for _ in 0..k {
                    peer_tasks.push(vec![Op::Sleep { ticks: rng.range(0, w as u64 - 2) as u8 }, Op::Connect { host: 0, port: V_TCP }, Op::ReadToEnd { buf: 32 }]);
                }
            }
            1 => {
                // V reads (slowly or eagerly), the peer writes
                let rgap = *rng.pick(&[0u8, 0, 1, 3]);
                let mut serve = vec![Op::Read { buf: *rng.pick(&[4u16, 16, 64]), times: 400, gap: rgap, peek: rng.chance(1, 3) }];
                if rng.chance(1, 4) {
                    // the victim splits the stream, lets go of (or hands away) the write half and sits on unread data
                    serve = vec![Op::Read { buf: 4, times: rng.range(0, 3) as u16, gap: 0, peek: false }, Op::SplitIdle { mode: rng.below(3) as u8 }];
                }
                v.push(Op::Spawn { local: true, ops: vec![Op::Listen { port: 7011 }, Op::AcceptLoop { serve }] });
                // half of the peers write more segments than tcp_capacity allows to be outstanding: they are
                // parked on the flow-control credits when the crash lands (former known finding C04-K1, repaired)
                let times = if rng.bool() { rng.range(1, cap.min(12) as u64) as u16 } else { rng.range(cap as u64 + 1, cap as u64 + 8) as u16 };
                peer_tasks.push(vec![
                    Op::Sleep { ticks: rng.range(0, 4) as u8 },
                    Op::Connect { host: 0, port: 7011 },
                    Op::Write { len: *rng.pick(&[1u16, 8, 32]), times, gap: *rng.pick(&[0u8, 0, 1]), how: if rng.chance(1, 3) { 1 } else { 0 } },
                    Op::ReadToEnd { buf: 16 },
                ]);
            }
            2 => {
                // V writes, the peer reads (eagerly: blocked in read; slowly: unread data at the peer, V blocked on credits)
                let wgap = *rng.pick(&[0u8, 1, 2]);
                // a third each: fewer segments than the peer's receive queue holds / just enough to fill it /
                // an endless writer (the FIN of the crash then finds the queue full: former C04-K2, repaired)
                let times = match rng.below(3) {
                    0 => rng.range(0, (cap as u64 - 1).min(20)) as u16,
                    1 => rng.range(cap as u64, cap as u64 + 4) as u16,
                    _ => 300,
                };
                v.push(Op::Spawn { local: true, ops: vec![Op::Listen { port: 7012 }, Op::AcceptLoop { serve: vec![Op::Write { len: *rng.pick(&[1u16, 8, 32]), times, gap: wgap, how: if rng.chance(1, 3) { 1 } else { 0 } }] }] });
                peer_tasks.push(vec![Op::Sleep { ticks: rng.range(0, 4) as u8 }, Op::Connect { host: 0, port: 7012 }, Op::Read { buf: *rng.pick(&[4u16, 16, 64]), times: 2000, gap: *rng.pick(&[0u8, 0, 2]), peek: rng.chance(1, 3) }]);
            }
            3 => {
                // idle established streams, both ends blocked in read
                v.push(Op::Spawn { local: true, ops: vec![Op::Listen { port: 7013 }, Op::AcceptLoop { serve: vec![Op::ReadToEnd { buf: 16 }] }] });
                for _ in 0..rng.usize(1, 2).min(cap) {
                    peer_tasks.push(vec![Op::Sleep { ticks: rng.range(0, 5) as u8 }, Op::Connect { host: 0, port: 7013 }, Op::ReadToEnd { buf: 16 }]);
                }
            }
            4 => {
                // background tasks nested 1-3 deep, both spawn flavours
                for t in 0..rng.usize(1, 3) {
                    let depth = rng.usize(1, 3);
                    let local = rng.bool();
                    let mut ops = vec![Op::Forever { gap: rng.range(1, 3) as u8 }];
                    if rng.chance(1, 2) {
                        ops.insert(0, Op::UdpBind { port: 7020 + t as u16 });
                    }
                    for _ in 1..depth {
                        let mut outer = vec![Op::Spawn { local, ops }];
                        if rng.bool() {
                            outer.push(Op::Forever { gap: rng.range(1, 3) as u8 });
                        }
                        ops = outer;
                    }
                    v.push(Op::Spawn { local, ops });
                }
            }
            5 => {
                // UDP: receiver with membership and optional connected filter, plus a sender
                let mut r = vec![Op::UdpBind { port: V_UDP }, Op::UdpJoin { g: 0 }];
                if rng.chance(1, 3) {
                    r.push(Op::UdpConnect { host: p0 as u8, port: 7201 });
                }
                r.push(Op::UdpRecv { times: 5000 });
                v.push(Op::Spawn { local: true, ops: r });
                v.push(Op::Spawn { local: true, ops: vec![Op::UdpBind { port: 7005 }, Op::UdpSend { host: p0 as u8, g: 0, port: 7200, times: 400, gap: rng.range(1, 2) as u8 }] });
                peer_tasks.push(vec![Op::UdpBind { port: 7200 }, Op::UdpRecv { times: 5000 }]);
                let mut s = vec![Op::UdpBind { port: 7201 }];
                s.push(Op::UdpSend { host: if rng.chance(1, 3) { 255 } else { 0 }, g: 0, port: V_UDP, times: 400, gap: rng.range(1, 2) as u8 });
                peer_tasks.push(s);
            }
            6 => {
                v.push(Op::Spawn { local: true, ops: vec![Op::Fs { chunks: 40, sync_every: *rng.pick(&[0u8, 1, 3]), gap: 1 }] });
                // ... and a TCP connection of the victim to itself (through its own address), open at the crash
                if rng.chance(1, 2) {
                    v.push(Op::Spawn { local: true, ops: vec![Op::Listen { port: 7014 }, Op::AcceptLoop { serve: vec![Op::Read { buf: 16, times: 400, gap: 0, peek: false }] }] });
                    v.push(Op::Spawn { local: rng.bool(), ops: vec![Op::Sleep { ticks: 1 }, Op::Connect { host: 0, port: 7014 }, Op::Write { len: 8, times: 200, gap: 1, how: 0 }] });
                }
            }
            7 => {
                v.push(Op::Spawn { local: true, ops: vec![Op::Ring { writes: 40, gap: 1 }] });
            }
            _ => {
                // the victim itself opens a connection: accepted / left in the peer's backlog / refused
                // (a pending or refused connect used to keep its stream-table entry: former C04-K3, repaired).
                // A listener that never accepts keeps one request per incarnation of the victim in its backlog.
                // (mode 3: a listener that starts accepting late - requests of incarnations that are gone by then
                // are still queued, the live one behind them must be served)
                let mode = match rng.below(4) {
                    1 | 3 if cap < 5 => 0,
                    m => m,
                };
                let port = 7300 + mode as u16;
                // what the dialing victim does with the stream: talk and read / read slowly / never read
                let mut vops = vec![Op::Sleep { ticks: rng.range(0, w as u64 / 2) as u8 }, Op::Connect { host: p0 as u8, port }];
                match rng.below(3) {
                    0 => vops.extend([Op::Write { len: 8, times: 1, gap: 0, how: if rng.chance(1, 3) { 1 } else { 0 } }, Op::ReadToEnd { buf: 16 }]),
                    1 => vops.push(Op::Read { buf: *rng.pick(&[4u16, 16, 64]), times: 400, gap: rng.range(1, 3) as u8, peek: rng.chance(1, 3) }),
                    _ => vops.push(Op::Forever { gap: 2 }),
                }
                v.push(Op::Spawn { local: true, ops: vops });
                // what the accepting peer does: read / write within the credits / write until it is parked on
                // the credits (the acceptor-side counterpart of the blocked-writer phase)
                let serve = match rng.below(3) {
                    0 => vec![Op::ReadToEnd { buf: 16 }],
                    1 => vec![Op::Write { len: *rng.pick(&[1u16, 8, 32]), times: rng.range(1, cap.min(12) as u64) as u16, gap: 0, how: if rng.chance(1, 3) { 1 } else { 0 } }, Op::ReadToEnd { buf: 16 }],
                    _ => vec![Op::Write { len: *rng.pick(&[1u16, 8, 32]), times: rng.range(cap as u64 + 1, cap as u64 + 8) as u16, gap: *rng.pick(&[0u8, 0, 1]), how: if rng.chance(1, 3) { 1 } else { 0 } }, Op::ReadToEnd { buf: 16 }],
                };
                match mode {
                    0 => peer_tasks.push(vec![Op::Listen { port }, Op::AcceptLoop { serve }]),
                    1 => peer_tasks.push(vec![Op::Listen { port }, Op::Forever { gap: 1 }]),
                    3 => peer_tasks.push(vec![Op::Listen { port }, Op::Sleep { ticks: rng.range(w as u64 / 2, w as u64 + 8) as u8 }, Op::AcceptLoop { serve }]),
                    _ => {}
                }
            }
        }
    }
    if guarded || !rng.chance(1, 3) {
        v.push(Op::Forever { gap: 1 });
    } else {
        // slice "main future already returned": not judged
        v.push(Op::Sleep { ticks: rng.range(0, w as u64 / 2) as u8 });
        v.push(Op::Return);
    }
    progs[0] = v;
    if two_victims {
        progs[1] = vec![
            Op::Listen { port: V_TCP },
            Op::UdpBind { port: V_UDP },
            Op::Spawn { local: rng.bool(), ops: vec![Op::Forever { gap: 1 }] },
            Op::Spawn { local: true, ops: vec![Op::Listen { port: 7013 }, Op::AcceptLoop { serve: vec![Op::ReadToEnd { buf: 16 }] }] },
            Op::Forever { gap: 2 },
        ];
        peer_tasks.push(vec![Op::Sleep { ticks: rng.range(0, 4) as u8 }, Op::Connect { host: 1, port: 7013 }, Op::ReadToEnd { buf: 16 }]);
    }
    // ---- peers ----
    for (i, t) in peer_tasks.into_iter().enumerate() {
        let to = p0 + if npeers == 2 && !t.iter().any(|o| matches!(o, Op::UdpBind { .. } | Op::Listen { .. })) { i % 2 } else { 0 };
        progs[to].push(Op::Spawn { local: true, ops: t });
    }
    for p in progs.iter_mut().skip(p0).take(npeers) {
        p.push(Op::Forever { gap: 1 });
    }
    // ---- uninvolved pair ----
    // u1 is also a member of the multicast group (same group address and port) the victims' UDP phase
    // joins, and u0 multicasts to it: losing a *victim's* membership (crash, socket drop) must not cost
    // u1 its own (twin comparison of u1's receipts).
    let shared_group = rng.chance(3, 4);
    progs[u0 + 1] = vec![
        Op::Spawn { local: true, ops: vec![Op::UdpBind { port: 7101 }, Op::UdpRecv { times: 5000 }] },
        Op::Spawn { local: true, ops: vec![Op::Fs { chunks: 30, sync_every: 2, gap: 1 }] },
        Op::Spawn { local: true, ops: vec![Op::Listen { port: 7100 }, Op::AcceptLoop { serve: vec![Op::Read { buf: 16, times: 3000, gap: 0, peek: rng.chance(1, 3) }] }] },
        Op::Forever { gap: 2 },
    ];
    if shared_group {
        progs[u0 + 1].insert(1, Op::Spawn { local: true, ops: vec![Op::UdpBind { port: V_UDP }, Op::UdpJoin { g: 0 }, Op::UdpRecv { times: 5000 }] });
    }
    progs[u0] = vec![
        Op::Spawn { local: true, ops: vec![Op::UdpBind { port: 7102 }, Op::UdpSend { host: (u0 + 1) as u8, g: 0, port: 7101, times: 300, gap: rng.range(1, 3) as u8 }] },
        Op::Spawn { local: rng.bool(), ops: vec![Op::Forever { gap: 1 }] },
        Op::Spawn { local: true, ops: vec![Op::Sleep { ticks: rng.range(0, 3) as u8 }, Op::Connect { host: (u0 + 1) as u8, port: 7100 }, Op::Write { len: 8, times: 300, gap: rng.range(1, 2) as u8, how: if rng.chance(1, 3) { 1 } else { 0 } }] },
        Op::Forever { gap: 3 },
    ];
    if shared_group {
        progs[u0].insert(1, Op::Spawn { local: true, ops: vec![Op::UdpBind { port: 7103 }, Op::UdpSend { host: 255, g: 0, port: V_UDP, times: 300, gap: rng.range(1, 3) as u8 }] });
    }
    let hosts: Vec<HostSpec> = names.into_iter().zip(progs).map(|((name, kind), ops)| HostSpec { name, kind, ops }).collect();
    let sel = if two_victims && rng.chance(2, 3) { Sel::Regex("^v[0-9]$".into()) } else { Sel::Host(0) };
    let pattern = match rng.below(10) {
        0..=4 => Pattern::CrashBounce { k: *rng.pick(&[0u8, 1, 2, 7]) },
        5 => Pattern::CrashOnly,
        6 => Pattern::BounceOnly,
        _ => Pattern::Cycles { n: rng.range(1, 3) as u8, k: *rng.pick(&[0u8, 1, 2, 7]), up: rng.range(1, 6) as u8 },
    };
    let bystander = if rng.chance(1, 6) { Some(((u0 + rng.usize(0, 1)) as u8, rng.range(1, w as u64 + 8) as u32)) } else { None };
    let late_u0 = if rng.chance(1, 5) { Some(rng.range(2, (w as u64 / 2).max(2)) as u32) } else { None };
    Scenario { cfg, hosts, sel, pattern, crash_at: rng.range(1, w as u64) as u32, workload_steps: w, guarded, bystander, late_u0 }
}

// ------------------------------------------------------------------------------------------------
// execution

struct RunOut {
    violation: Option<Violation>,
    harness_error: Option<String>,
    ulines: Vec<Vec<String>>,
    steps: u64,
    crashes: u64,
    bounces: u64,
    pending_at_crash: [u64; 3],
    unjudged_finished: u64,
    probes: Vec<&'static str>,
    log: crate::core::Log,
}

fn victims_of(sc: &Scenario) -> Vec<usize> {
    match &sc.sel {
        Sel::Host(h) => vec![*h as usize].into_iter().filter(|h| *h < sc.hosts.len()).collect(),
        Sel::Regex(_) => sc.hosts.iter().enumerate().filter(|(_, h)| h.kind == Kind::Victim && !h.ops.is_empty()).map(|(i, _)| i).collect(),
    }
}

fn execute(sc: &Scenario, keep: bool) -> RunOut {
    let nh = sc.hosts.len();
    let sh = Shared {
        log: SharedLog::new(keep),
        step: Rc::new(Cell::new(0)),
        counters: Rc::new((0..nh).map(|_| Arc::new(HostCounters::new())).collect()),
        pend: Rc::new(RefCell::new(BTreeMap::new())),
        done: Rc::new(RefCell::new(Vec::new())),
        next_op: Rc::new(Cell::new(1)),
        evs: Rc::new(RefCell::new(Vec::new())),
        ulines: Rc::new(RefCell::new(vec![Vec::new(); nh])),
        names: Rc::new(sc.hosts.iter().map(|h| h.name.clone()).collect()),
        kinds: Rc::new(sc.hosts.iter().map(|h| h.kind).collect()),
        tick_us: sc.cfg.tick_us,
        v6: sc.cfg.ipv6,
    };
    let lt = sc.cfg.max_latency_ticks() as u32;
    let zero_lat = sc.cfg.max_latency_us == 0;
    let script = script(sc);
    let total = total_steps(sc);
    let victims = victims_of(sc);
    let mut out = RunOut {
        violation: None,
        harness_error: None,
        ulines: Vec::new(),
        steps: 0,
        crashes: 0,
        bounces: 0,
        pending_at_crash: [0; 3],
        unjudged_finished: 0,
        probes: Vec::new(),
        log: Default::default(),
    };
    // (host, incarnation) -> step in which that incarnation first runs
    let mut inc_start: Vec<Vec<u32>> = vec![vec![0, 1]; nh];
    // downtime intervals per host: (first step not run, first step run again or u32::MAX)
    let mut downs: Vec<Vec<(u32, u32)>> = vec![Vec::new(); nh];
    let mut crashes = 0u64;
    let mut bounces = 0u64;
    let mut pend_stats = [0u64; 3];
    let mut unjudged_finished = 0u64;
    let mut probes: Vec<&'static str> = Vec::new();
    let mut steps_done = 0u64;

    let res = catch(|| -> Result<Option<Violation>, String> {
        let mut sim = sc.cfg.build();
        let late_host: Option<(usize, u32)> = sc.late_u0.and_then(|k| sc.hosts.iter().position(|h| h.kind == Kind::Uninvolved && !h.ops.is_empty()).map(|h| (h, k)));
        let register = |sim: &mut turmoil::Sim<'_>, h: usize| {
            let spec = &sc.hosts[h];
            let shc = sh.clone();
            let ops = spec.ops.clone();
            let c = sh.counters[h].clone();
            // the software is the factory as well as the future it returns: in a third of the hosts the factory itself
            // touches the runtime it is started on (spawns a short helper task, creates a timer)
            let eager = (sc.cfg.rng_seed as usize + h) % 3 == 0;
            sim.host(spec.name.clone(), move || {
                let inc = c.factory_calls.fetch_add(1, Ordering::Relaxed) + 1;
                if eager {
                    drop(tokio::task::spawn_local(async { tokio::task::yield_now().await }));
                    drop(tokio::time::sleep(Duration::from_millis(1)));
                }
                let guard = TaskGuard::new(&c, inc);
                host_main(shc.clone(), h, inc, ops.clone(), guard)
            });
        };
        for h in 0..sc.hosts.len() {
            if late_host.map(|(lh, _)| lh == h).unwrap_or(false) {
                continue;
            }
            register(&mut sim, h);
        }
        let sel_names: Vec<String> = victims.iter().map(|v| sc.hosts[*v].name.clone()).collect();
        let do_sel = |sim: &mut turmoil::Sim<'_>, crash: bool| match &sc.sel {
            Sel::Host(h) => {
                let n = sc.hosts[*h as usize].name.clone();
                if crash {
                    sim.crash(n)
                } else {
                    sim.bounce(n)
                }
            }
            Sel::Regex(_) => {
                // the regex is built from the selected names so that emptied hosts are not matched
                let re = format!("^({})$", sel_names.join("|"));
                let re = turmoil_regex(&re);
                if crash {
                    sim.crash(re)
                } else {
                    sim.bounce(re)
                }
            }
        };
        let mut down: Vec<Option<(u32, u64, u64)>> = vec![None; nh]; // since step, activity, sends
        let mut finished: Vec<bool> = vec![false; nh];
        // obligations: (op id, deadline step, kind)
        let mut oblig: Vec<(u64, u32, PK, usize)> = Vec::new();
        for s in 1..=total {
            if let Some((lh, k)) = late_host {
                if k == s {
                    register(&mut sim, lh);
                    sh.log.ev(format!("ctl registers {} before step {s}", sc.hosts[lh].name));
                    probes.push("uninvolved_host_registered_after_the_first_steps");
                }
            }
            if let Some((h, at)) = sc.bystander {
                let registered = late_host.map(|(lh, k)| lh != h as usize || s >= k).unwrap_or(true);
                if at == s && (h as usize) < nh && !sc.hosts[h as usize].ops.is_empty() && registered {
                    let name = sc.hosts[h as usize].name.clone();
                    sh.log.ev(format!("ctl bounce of the uninvolved host {name} before step {s}"));
                    sim.bounce(name);
                    probes.push(if down.iter().any(|d| d.is_some()) { "uninvolved_host_bounced_while_a_victim_is_down" } else { "uninvolved_host_bounced" });
                }
            }
            for (at, act) in &script {
                if *at != s {
                    continue;
                }
                // which victims' main future has already returned?
                for e in sh.evs.borrow().iter() {
                    if let Ev::MainReturned { host } = e {
                        finished[*host] = true;
                    }
                }
                match act {
                    Act::Crash => {
                        for p in sh.pend.borrow().values() {
                            if victims.contains(&p.host) && p.kind == PK::Connect {
                                probes.push("victim_connect_pending_at_crash");
                            }
                        }
                        sh.log.ev(format!("ctl crash {:?} before step {s}", sel_names));
                        sh.log.tag("crash");
                        sh.log.0.borrow_mut().tag_u64(s as u64);
                        do_sel(&mut sim, true);
                        crashes += 1;
                        for &v in &victims {
                            let name = &sc.hosts[v].name;
                            if finished[v] {
                                unjudged_finished += 1;
                                continue;
                            }
                            let c = &sh.counters[v];
                            if c.live_total() != 0 {
                                return Ok(Some(Violation::new("TasksSurviveCrash", format!("after Sim::crash({name}) before step {s}: {} task guard(s) of {name} are still alive (per incarnation {:?})", c.live_total(), c.live.iter().map(|l| l.load(Ordering::Relaxed)).collect::<Vec<_>>()))));
                            }
                            let t = sim.verif_host_table_counts(name.as_str());
                            if t.udp_binds + t.tcp_binds + t.tcp_streams + t.multicast_memberships != 0 {
                                return Ok(Some(Violation::new("TableLeak", format!("after Sim::crash({name}) before step {s}: host tables still hold {t:?}"))));
                            }
                            if sim.is_host_running(name.as_str()) {
                                return Ok(Some(Violation::new("StillRunning", format!("after Sim::crash({name}) is_host_running is true"))));
                            }
                            if down[v].is_none() {
                                down[v] = Some((s, c.activity.load(Ordering::Relaxed), c.sends.load(Ordering::Relaxed)));
                                downs[v].push((s, u32::MAX));
                                // peer operations pending on v
                                for p in sh.pend.borrow().values() {
                                    if p.peer != v || sc.hosts[p.host].kind == Kind::Victim {
                                        continue;
                                    }
                                    match p.kind {
                                        PK::Read => {
                                            pend_stats[0] += 1;
                                            if p.conn_accepted {
                                                probes.push("acceptor_peer_read_pending_at_crash_of_dialer");
                                            }
                                        }
                                        PK::Write => {
                                            pend_stats[1] += 1;
                                            if p.conn_accepted {
                                                probes.push("acceptor_peer_write_blocked_at_crash_of_dialer");
                                            }
                                        }
                                        PK::Connect => {
                                            // queued in v's backlog iff the request arrived before the crash
                                            let arrive_max = p.start_step + lt + if zero_lat { 1 } else { 0 };
                                            if arrive_max < s {
                                                pend_stats[2] += 1;
                                                oblig.push((p.id, s + lt + 1, PK::Connect, v));
                                            } else {
                                                probes.push("connect_in_flight_at_crash");
                                            }
                                        }
                                        _ => {}
                                    }
                                }
                            }
                        }
                    }
                    Act::Bounce => {
                        let before: Vec<u32> = victims.iter().map(|v| sh.counters[*v].factory_calls.load(Ordering::Relaxed)).collect();
                        sh.log.ev(format!("ctl bounce {:?} before step {s}", sel_names));
                        sh.log.tag("bounce");
                        sh.log.0.borrow_mut().tag_u64(s as u64);
                        do_sel(&mut sim, false);
                        bounces += 1;
                        for (k, &v) in victims.iter().enumerate() {
                            let name = &sc.hosts[v].name;
                            let c = &sh.counters[v];
                            let after = c.factory_calls.load(Ordering::Relaxed);
                            if after != before[k] + 1 {
                                return Ok(Some(Violation::new("BounceStartCount", format!("Sim::bounce({name}) before step {s} called the software factory {} time(s), expected exactly 1", after - before[k]))));
                            }
                            let was_finished = finished[v];
                            if finished[v] {
                                // leftovers of a finished host are outside the claim; the new incarnation is judged again
                                finished[v] = false;
                                sh.evs.borrow_mut().retain(|e| !matches!(e, Ev::MainReturned { host } if *host == v));
                                unjudged_finished += 1;
                            } else {
                                let old: i64 = c.live.iter().enumerate().filter(|(i, _)| *i != (after as usize).min(MAX_INC - 1)).map(|(_, l)| l.load(Ordering::Relaxed)).sum();
                                if old != 0 {
                                    return Ok(Some(Violation::new("TasksSurviveBounce", format!("after Sim::bounce({name}) before step {s}: {old} task guard(s) of earlier incarnations are still alive"))));
                                }
                                let t = sim.verif_host_table_counts(name.as_str());
                                if t.udp_binds + t.tcp_binds + t.tcp_streams + t.multicast_memberships != 0 {
                                    return Ok(Some(Violation::new("TableLeak", format!("after Sim::bounce({name}) before step {s} (new software not yet polled): host tables still hold {t:?}"))));
                                }
                            }
                            let newlive = c.live[(after as usize).min(MAX_INC - 1)].load(Ordering::Relaxed);
                            if newlive != 1 {
                                return Ok(Some(Violation::new("BounceStartCount", format!("after Sim::bounce({name}) the new incarnation {after} has {newlive} live task guard(s), expected 1 (the main future)"))));
                            }
                            if !sim.is_host_running(name.as_str()) {
                                return Ok(Some(Violation::new("NotRunningAfterBounce", format!("after Sim::bounce({name}) is_host_running is false"))));
                            }
                            if down[v].take().is_some() {
                                if let Some(d) = downs[v].last_mut() {
                                    d.1 = s;
                                }
                            } else if !was_finished {
                                probes.push("bounce_without_crash");
                                // bounce of a running host: pending peer operations are owed an answer as well
                                downs[v].push((s, s));
                                for p in sh.pend.borrow().values() {
                                    if p.peer != v || sc.hosts[p.host].kind == Kind::Victim {
                                        continue;
                                    }
                                    match p.kind {
                                        PK::Read => pend_stats[0] += 1,
                                        PK::Write => pend_stats[1] += 1,
                                        _ => {}
                                    }
                                }
                            }
                            while inc_start[v].len() <= after as usize {
                                inc_start[v].push(s);
                            }
                            inc_start[v][after as usize] = s;
                        }
                    }
                }
            }
            if let Some(what) = sh.evs.borrow().iter().find_map(|e| if let Ev::Anomaly { what, .. } = e { Some(what.clone()) } else { None }) {
                return Ok(Some(Violation::new("RestartNotClean", what)));
            }
            sh.step.set(s);
            if let Err(e) = sim.step() {
                return Ok(Some(Violation::new("StepError", format!("Sim::step returned an error at step {s}: {e}"))));
            }
            steps_done = s as u64;
            // no host's stream table holds more entries than its software holds stream objects and pending connects
            // (an entry nobody owns is a leftover of somebody else's crash or of a request that was given up)
            for (h, spec) in sc.hosts.iter().enumerate() {
                let registered = late_host.map(|(lh, k)| lh != h || s >= k).unwrap_or(true);
                if !registered || spec.ops.is_empty() || finished[h] || !sim.is_host_running(spec.name.as_str()) {
                    continue;
                }
                let t = sim.verif_host_table_counts(spec.name.as_str());
                let owned = sh.counters[h].streams.load(Ordering::Relaxed);
                if t.tcp_streams as i64 > owned {
                    return Ok(Some(Violation::new("PhantomStream", format!("after step {s}: the stream table of {} holds {} entries, its software holds {owned} stream object(s) / pending connect(s)", spec.name, t.tcp_streams))));
                }
            }
            // (b) nothing of a crashed host runs
            for &v in &victims {
                if let Some((since, act, snd)) = down[v] {
                    let c = &sh.counters[v];
                    let (a2, s2) = (c.activity.load(Ordering::Relaxed), c.sends.load(Ordering::Relaxed));
                    if a2 != act || s2 != snd {
                        return Ok(Some(Violation::new("RanWhileDown", format!("{} was crashed before step {since}; during step {s} its activity counter went {act} -> {a2}, sends {snd} -> {s2}", sc.hosts[v].name))));
                    }
                    if c.live_total() != 0 {
                        return Ok(Some(Violation::new("RanWhileDown", format!("{} was crashed before step {since}; after step {s} it has {} live task guard(s)", sc.hosts[v].name, c.live_total()))));
                    }
                }
            }
            // (d) peers blocked on the crashed host are unblocked in time: a read or write on a stream
            // that was established before the host went down must complete within the bound, counted
            // from the fault or from the start of the operation, whichever is later
            let pend = sh.pend.borrow();
            for p in pend.values() {
                if !matches!(p.kind, PK::Read | PK::Write) || p.peer >= nh || sc.hosts[p.host].kind == Kind::Victim {
                    continue;
                }
                // a stream the peer opened itself in step c still belongs to the incarnation that went down before
                // step c (a new incarnation cannot accept before step c+1); a stream the peer *accepted* in step c
                // may come from the new incarnation (zero latency), so only earlier ones are judged
                let Some((c, _)) = downs[p.peer].iter().find(|(c, _)| if p.conn_accepted { p.conn_born < *c } else { p.conn_born <= *c }) else { continue };
                let from = p.start_step.max(*c);
                // a reader learns of the fault from the FIN / RST emitted at the crash instant (one trip);
                // a writer parked on credits only from the reset that answers its in-flight data (round trip)
                let bound = if p.kind == PK::Read { lt + 1 } else { 2 * lt + 1 };
                if s >= from + bound {
                    let class = if p.kind == PK::Read { "PeerReadHang" } else { "PeerWriteHang" };
                    return Ok(Some(Violation::new(
                        class,
                        format!(
                            "{} has a {:?} pending since step {} on a stream to {} established in step {}; {} went down before step {c}; still pending after step {s} (bound: {} steps after the later of the two)",
                            sc.hosts[p.host].name,
                            p.kind,
                            p.start_step,
                            sc.hosts[p.peer].name,
                            p.conn_born,
                            sc.hosts[p.peer].name,
                            bound + 1
                        ),
                    )));
                }
            }
            for (id, deadline, kind, v) in &oblig {
                if s >= *deadline {
                    if let Some(p) = pend.get(id) {
                        let class = match kind {
                            PK::Read => "PeerReadHang",
                            PK::Write => "PeerWriteHang",
                            _ => "PeerConnectHang",
                        };
                        return Ok(Some(Violation::new(
                            class,
                            format!(
                                "{} has a {:?} on its connection to {} pending since step {}; {} went down before step {}; still pending after step {s} (bound: ceil(latency/tick)+2 = {} steps)",
                                sc.hosts[p.host].name,
                                p.kind,
                                sc.hosts[*v].name,
                                p.start_step,
                                sc.hosts[*v].name,
                                deadline - lt - 1,
                                lt + 2
                            ),
                        )));
                    }
                }
            }
            drop(pend);
            oblig.retain(|(_, deadline, _, _)| s < *deadline);
        }
        drop(sim);
        Ok(None)
    });
    match res {
        Ok(Ok(v)) => out.violation = v,
        Ok(Err(e)) => out.harness_error = Some(e),
        Err(p) => {
            if p.contains("server socket buffer full") || p.contains("ports exhausted") {
                out.harness_error = Some(format!("generator outside documented limits: {p}"));
            } else {
                out.violation = Some(Violation::new("Panic", format!("panic while running the simulation: {p}")));
            }
        }
    }

    // ---- history checks ----
    if out.violation.is_none() && out.harness_error.is_none() {
        let evs = sh.evs.borrow();
        let done = sh.done.borrow();
        let is_victim = |h: usize| victims.contains(&h);
        // (e) the new incarnation can bind the same ports
        for e in evs.iter() {
            if let Ev::Bind { host, inc, tcp, port, err: Some(err) } = e {
                if is_victim(*host) && *inc >= 2 {
                    out.violation = Some(Violation::new("PortNotReleased", format!("incarnation {inc} of {} could not bind {} port {port}: {err}", sc.hosts[*host].name, if *tcp { "TCP" } else { "UDP" })));
                    break;
                } else if !is_victim(*host) || *inc == 1 {
                    out.harness_error = Some(format!("generator error: {} could not bind port {port}: {err}", sc.hosts[*host].name));
                }
            }
        }
        let down_during = |v: usize, a_min: u32, a_max: u32| downs[v].iter().any(|(c, b)| a_min >= *c && a_max < *b);
        // (f) datagrams that matured before an incarnation started are never handed to it
        if out.violation.is_none() {
            for e in evs.iter() {
                if let Ev::UdpRecvd { host, inc, from_host, n, step } = e {
                    if !is_victim(*host) || *inc < 2 {
                        continue;
                    }
                    let sent = evs.iter().find_map(|x| match x {
                        Ev::UdpSent { host: h, n: m, step: s, .. } if h == from_host && m == n => Some(*s),
                        _ => None,
                    });
                    let Some(s) = sent else { continue };
                    let a_max = s + lt + if zero_lat { 1 } else { 0 };
                    let b = inc_start[*host].get(*inc as usize).copied().unwrap_or(0);
                    if a_max < b {
                        out.violation = Some(Violation::new(
                            "StaleDatagramDelivered",
                            format!("incarnation {inc} of {} (started in step {b}) received in step {step} datagram n={n} that {} sent in step {s} and that reached the host by step {a_max}, while it was down or running an earlier incarnation", sc.hosts[*host].name, sc.hosts[*from_host].name),
                        ));
                        break;
                    }
                    probes.push("datagram_received_by_new_incarnation");
                }
            }
        }
        // (f) connection requests that reached the host while it was down are never accepted
        if out.violation.is_none() {
            for d in done.iter() {
                if d.p.kind != PK::Connect || !is_victim(d.p.peer) || sc.hosts[d.p.host].kind == Kind::Victim {
                    continue;
                }
                let a_min = d.p.start_step + lt;
                let a_max = a_min + if zero_lat { 1 } else { 0 };
                if down_during(d.p.peer, a_min, a_max) {
                    probes.push("connect_reached_host_while_down");
                    if matches!(d.res, Res::Ok(_)) {
                        out.violation = Some(Violation::new(
                            "StaleConnectAccepted",
                            format!("{} started a connect to {} in step {}; the request reached the host in step {a_min}..{a_max} while it was down, yet the connect succeeded in step {} (local {:?})", sc.hosts[d.p.host].name, sc.hosts[d.p.peer].name, d.p.start_step, d.end_step, d.local),
                        ));
                        break;
                    }
                }
            }
        }
        // a peer operation on a connection to a victim must never end with an unexpected error kind
        if out.violation.is_none() {
            for d in done.iter() {
                if !is_victim(d.p.peer) || sc.hosts[d.p.host].kind == Kind::Victim {
                    continue;
                }
                if let Res::Err(k) = &d.res {
                    let ok = matches!((d.p.kind, k.as_str()), (PK::Read, "ConnectionReset") | (PK::Write, "BrokenPipe") | (PK::Write, "ConnectionReset") | (PK::Connect, "ConnectionRefused") | (PK::Connect, "ConnectionReset"));
                    if !ok {
                        out.violation = Some(Violation::new("UnexpectedErrorKind", format!("{} {:?} on its connection to {} ended with {k} in step {}", sc.hosts[d.p.host].name, d.p.kind, sc.hosts[d.p.peer].name, d.end_step)));
                        break;
                    }
                }
            }
        }
    }
    out.ulines = sh.ulines.borrow().clone();
    out.steps = steps_done;
    out.crashes = crashes;
    out.bounces = bounces;
    out.pending_at_crash = pend_stats;
    out.unjudged_finished = unjudged_finished;
    out.probes = probes;
    out.log = sh.log.take();
    out
}

fn turmoil_regex(re: &str) -> regex::Regex {
    regex::Regex::new(re).expect("valid regex")
}

thread_local! {
    /// memo of the last crash-free twin executed on this thread: (key, U-lines)
    static TWIN: RefCell<Option<(u64, Vec<Vec<String>>)>> = const { RefCell::new(None) };
}

fn twin_of(sc: &Scenario) -> Scenario {
    let mut t = sc.clone();
    // same length of run as every variant of the base: keep pattern_len through workload_steps
    t.workload_steps = sc.workload_steps + pattern_len(&sc.pattern);
    t.pattern = Pattern::None;
    t.crash_at = 1;
    t
}

impl Property for C04 {
    const ID: &'static str = "C04";
    const LEVEL: &'static str = "fault_enumeration";
    type Scenario = Scenario;

    fn rule() -> String {
        "seeded workloads of 4-6 hosts: victim v0 (optionally v1, selected together by regex) in 1-3 of the phases {listening with k queued un-accepted connection requests, reading from a peer slowly/eagerly (with/without unread data), writing to a peer that reads eagerly/slowly, idle established streams, background tasks via tokio::spawn / spawn_local nested 1-3 deep (some holding sockets), UDP receiver with multicast membership and optional connected filter plus a UDP sender, fs work through the std shim, io_uring writes}; 1-2 peers running the counterpart programs; an uninvolved pair u0<->u1 (TCP stream, UDP datagrams, fs, timers); fixed latency 0-4 ticks, tcp_capacity 1-64, IPv4/IPv6. Fault enumeration: for each seeded workload Sim::crash is injected before EVERY step index of the workload, followed by bounce after k in {0,1,2,7} steps / never / 1-3 crash-bounce cycles, or bounce without crash. Oracle after crash returns: all task guards of the victim dropped, hook table counts (udp binds, tcp binds, streams, memberships) zero, is_host_running false, activity and send counters frozen until bounce, every peer read / blocked write / backlog-queued connect pending on the victim completes within ceil(latency/tick)+2 steps, bounce calls the factory exactly once and leaves only the new main guard alive, new incarnations bind the same fixed TCP/UDP ports, datagrams and connection requests that reached the host while down are never handed to a new incarnation, and the logs (with virtual timestamps, fs observations, timers) of u0/u1 equal those of the crash-free twin run. Non-trivial: the crash landed while >=1 peer operation was pending on the victim; distinct = digest of (event kinds, crash step, pattern). Added later: u1 shares the victim's multicast group; readiness-style writers (writable + try_write) and peek-before-read peers; the victim connected to itself; an uninvolved host bounced (without crash) while the victim is down, in run and twin alike; the victim splits a stream, drops or hands away the write half and sits on unread data; the first uninvolved host registered only after some steps; odd incarnations of a ring-writing victim hold an O_DIRECT descriptor and every ring write of a restarted incarnation must complete with its length. Round 11: host factories that spawn a task and create a timer before returning the main future; a listener that starts accepting late (requests of dead incarnations still queued); after every step no running host's stream table holds more entries than its software owns stream objects and pending connects.".into()
    }
    fn components_real() -> Vec<&'static str> {
        vec!["turmoil: Sim::crash/bounce/step/is_host_running, Rt::crash/bounce/cancel_tasks, TcpListener/TcpStream/UdpSocket Drop paths, host tables, multicast table, Topology delivery to stopped hosts, turmoil::fs std shim and io_uring inside a Sim", "hook verif_host_table_counts (read-only)"]
    }
    fn components_stub() -> Vec<&'static str> {
        vec!["host programs (op lists), controller script, drop-counting guards and activity counters"]
    }
    fn assumptions() -> Vec<String> {
        vec![
            "hosts whose main future has returned are not judged (property text); they are generated in about 2% of the workloads (scenario flag guarded=false)".into(),
            "a connection request or datagram whose arrival step coincides with the first step of a new incarnation is not judged".into(),
            "the triggers of the repaired defects C04-F1..F3 (peer parked on credits at the crash, victim writing >= tcp_capacity segments, victim opening connections) are generated without any guard; the matchers are kept only for the recorded `fixed` replays".into(),
            "twin comparison needs fixed latency, fail_rate 0 and fixed node order; all scenarios are generated that way".into(),
        ]
    }
    fn budget(tier: Tier) -> u64 {
        match tier {
            Tier::Quick => 10_000,
            Tier::Thorough => 200_000,
        }
    }

    fn generate(rng: &mut Rng, _idx: u64, _tier: Tier) -> Scenario {
        gen_scenario(rng)
    }

    /// Fault enumeration: the first fault before every step index of the workload.
    fn variants(base: &Scenario, _tier: Tier) -> Vec<Scenario> {
        (1..=base.workload_steps)
            .map(|c| {
                let mut s = base.clone();
                s.crash_at = c;
                s
            })
            .collect()
    }

    fn run(sc: &Scenario, keep: bool) -> Report {
        let mut o = execute(sc, keep);
        let mut violation = o.violation.take();
        let mut harness_error = o.harness_error.take();
        // (g) twin run
        let mut twin_compared = false;
        if violation.is_none() && harness_error.is_none() && sc.pattern != Pattern::None {
            let t = twin_of(sc);
            let key = hash_str(&serde_json::to_string(&t).unwrap_or_default());
            let cached = TWIN.with(|c| c.borrow().as_ref().filter(|(k, _)| *k == key).map(|(_, l)| l.clone()));
            let tl = match cached {
                Some(l) => l,
                None => {
                    let to = execute(&t, false);
                    if let Some(v) = to.violation {
                        // the crash-free run itself misbehaves: report it as such
                        violation = Some(Violation::new("TwinRunViolation", format!("crash-free twin: {} {}", v.class, v.message)));
                    }
                    if let Some(e) = to.harness_error {
                        harness_error = Some(e);
                    }
                    TWIN.with(|c| *c.borrow_mut() = Some((key, to.ulines.clone())));
                    to.ulines
                }
            };
            if violation.is_none() && harness_error.is_none() {
                twin_compared = true;
                'cmp: for (h, spec) in sc.hosts.iter().enumerate() {
                    if spec.kind != Kind::Uninvolved {
                        continue;
                    }
                    let (a, b) = (&o.ulines[h], &tl[h]);
                    for i in 0..a.len().max(b.len()) {
                        if a.get(i) != b.get(i) {
                            violation = Some(Violation::new(
                                "UninvolvedHostDisturbed",
                                format!("log of uninvolved host {} differs from the crash-free twin at line {i}: with faults {:?}, twin {:?}", spec.name, a.get(i), b.get(i)),
                            ));
                            break 'cmp;
                        }
                    }
                }
            }
        }
        let log = std::mem::take(&mut o.log);
        let mut rep = Report::from_log(log);
        rep.violation = violation;
        rep.harness_error = harness_error;
        rep.nontrivial = o.pending_at_crash.iter().sum::<u64>() > 0;
        rep.steps = o.steps;
        rep.sim_ms = o.steps * sc.cfg.tick_us / 1000;
        rep.faults.add("crash", o.crashes);
        rep.faults.add("bounce", o.bounces);
        rep.probes.add("peer_read_pending_at_crash", o.pending_at_crash[0]);
        rep.probes.add("peer_write_blocked_at_crash", o.pending_at_crash[1]);
        rep.probes.add("peer_connect_queued_at_crash", o.pending_at_crash[2]);
        rep.probes.add("finished_host_not_judged", o.unjudged_finished);
        for p in &o.probes {
            rep.probes.inc(p);
        }
        if twin_compared {
            rep.probes.inc("twin_compared");
        }
        if o.crashes + o.bounces > 0 {
            fn feats(ops: &[Op], depth: u32, out: &mut Vec<&'static str>) {
                for o in ops {
                    match o {
                        Op::Fs { .. } => out.push("victim_phase_fs"),
                        Op::Ring { .. } => out.push("victim_phase_io_uring"),
                        Op::UdpJoin { .. } => out.push("victim_phase_udp_membership"),
                        Op::UdpConnect { .. } => out.push("victim_phase_udp_connected_filter"),
                        Op::Connect { .. } => out.push("victim_phase_outgoing_connect"),
                        Op::Return => out.push("victim_main_returns"),
                        Op::Spawn { local, ops } => {
                            out.push(if *local { "victim_phase_spawn_local" } else { "victim_phase_tokio_spawn" });
                            if depth >= 2 {
                                out.push("victim_tasks_nested_3_deep");
                            }
                            feats(ops, depth + 1, out);
                        }
                        Op::AcceptLoop { serve } => {
                            for x in serve {
                                match x {
                                    Op::Read { .. } => out.push("victim_phase_reader"),
                                    Op::Write { .. } => out.push("victim_phase_writer"),
                                    Op::ReadToEnd { .. } => out.push("victim_phase_idle_streams"),
                                    _ => {}
                                }
                            }
                        }
                        _ => {}
                    }
                }
            }
            let mut f = Vec::new();
            feats(&sc.hosts[0].ops, 0, &mut f);
            if fin_stuck_trigger(sc) {
                f.push("victim_writer_can_fill_peer_queue");
            }
            if blocked_writer_trigger(sc) {
                f.push("peer_writes_more_than_capacity");
            }
            fn readiness_writer(ops: &[Op]) -> bool {
                ops.iter().any(|o| match o {
                    Op::Write { how: 1, .. } => true,
                    Op::Spawn { ops, .. } | Op::AcceptLoop { serve: ops } => readiness_writer(ops),
                    _ => false,
                })
            }
            if sc.hosts.iter().any(|h| h.kind == Kind::Peer && readiness_writer(&h.ops)) {
                f.push("peer_writes_through_writable_and_try_write");
            }
            let u_member = sc.hosts.iter().any(|h| h.kind == Kind::Uninvolved && {
                let mut g = Vec::new();
                feats(&h.ops, 0, &mut g);
                g.contains(&"victim_phase_udp_membership")
            });
            if u_member && f.contains(&"victim_phase_udp_membership") {
                f.push("uninvolved_host_shares_multicast_group_with_victim");
            }
            f.sort();
            f.dedup();
            for x in f {
                rep.probes.inc(x);
            }
            match &sc.pattern {
                Pattern::CrashBounce { k } => rep.probes.inc(match k {
                    0 => "pattern_bounce_after_0",
                    1 => "pattern_bounce_after_1",
                    2 => "pattern_bounce_after_2",
                    _ => "pattern_bounce_after_7",
                }),
                Pattern::CrashOnly => rep.probes.inc("pattern_crash_only"),
                Pattern::BounceOnly => rep.probes.inc("pattern_bounce_only"),
                Pattern::Cycles { .. } => rep.probes.inc("pattern_cycles"),
                Pattern::None => {}
            }
        }
        if matches!(sc.sel, Sel::Regex(_)) && o.crashes + o.bounces > 0 {
            rep.probes.inc("several_victims_by_regex");
        }
        rep
    }

    fn shrink(sc: &Scenario) -> Vec<Scenario> {
        let mut out = Vec::new();
        // milder patterns
        match &sc.pattern {
            Pattern::Cycles { n, k, up } => {
                if *n > 1 {
                    out.push(Scenario { pattern: Pattern::Cycles { n: n - 1, k: *k, up: *up }, ..sc.clone() });
                }
                out.push(Scenario { pattern: Pattern::CrashBounce { k: *k }, ..sc.clone() });
            }
            Pattern::CrashBounce { k } => {
                out.push(Scenario { pattern: Pattern::CrashOnly, ..sc.clone() });
                if *k > 0 {
                    out.push(Scenario { pattern: Pattern::CrashBounce { k: 0 }, ..sc.clone() });
                }
            }
            _ => {}
        }
        if sc.bystander.is_some() {
            out.push(Scenario { bystander: None, ..sc.clone() });
        }
        if sc.late_u0.is_some() {
            out.push(Scenario { late_u0: None, ..sc.clone() });
        }
        if let Sel::Regex(_) = sc.sel {
            out.push(Scenario { sel: Sel::Host(0), ..sc.clone() });
        }
        // empty whole hosts (never v0)
        for h in 1..sc.hosts.len() {
            if !sc.hosts[h].ops.is_empty() {
                let mut c = sc.clone();
                c.hosts[h].ops.clear();
                out.push(c);
            }
        }
        // drop top-level ops and ops one level down
        for h in 0..sc.hosts.len() {
            for i in 0..sc.hosts[h].ops.len() {
                let mut c = sc.clone();
                c.hosts[h].ops.remove(i);
                out.push(c);
                if let Op::Spawn { ops, .. } = &sc.hosts[h].ops[i] {
                    for j in 0..ops.len() {
                        let mut c = sc.clone();
                        if let Op::Spawn { ops, .. } = &mut c.hosts[h].ops[i] {
                            ops.remove(j);
                        }
                        out.push(c);
                    }
                }
            }
        }
        if sc.crash_at > 1 {
            out.push(Scenario { crash_at: sc.crash_at - 1, ..sc.clone() });
            out.push(Scenario { crash_at: 1.max(sc.crash_at / 2), ..sc.clone() });
        }
        if sc.workload_steps > sc.crash_at + 1 {
            out.push(Scenario { workload_steps: sc.crash_at + 1, ..sc.clone() });
        }
        if sc.cfg.max_latency_us > 0 {
            let mut c = sc.clone();
            c.cfg.min_latency_us = 0;
            c.cfg.max_latency_us = 0;
            out.push(c);
        }
        if sc.cfg.tick_us != 1000 {
            let mut c = sc.clone();
            let f = sc.cfg.tick_us / 1000;
            c.cfg.tick_us = 1000;
            c.cfg.min_latency_us /= f.max(1);
            c.cfg.max_latency_us = c.cfg.min_latency_us;
            out.push(c);
        }
        if sc.cfg.ipv6 {
            let mut c = sc.clone();
            c.cfg.ipv6 = false;
            out.push(c);
        }
        if sc.cfg.tcp_capacity != 64 {
            let mut c = sc.clone();
            c.cfg.tcp_capacity = 64;
            out.push(c);
        }
        // fewer repetitions
        fn halve(ops: &mut [Op]) -> bool {
            let mut changed = false;
            for o in ops.iter_mut() {
                match o {
                    Op::Write { times, .. } | Op::Read { times, .. } | Op::UdpSend { times, .. } | Op::UdpRecv { times } if *times > 2 => {
                        *times /= 2;
                        changed = true;
                    }
                    Op::Spawn { ops, .. } | Op::AcceptLoop { serve: ops } => changed |= halve(ops),
                    _ => {}
                }
            }
            changed
        }
        let mut c = sc.clone();
        let mut any = false;
        for h in c.hosts.iter_mut() {
            any |= halve(&mut h.ops);
        }
        if any {
            out.push(c);
        }
        out
    }

    fn signature(sc: &Scenario) -> String {
        fn kinds(ops: &[Op], out: &mut Vec<&'static str>) {
            for o in ops {
                let name = match o {
                    Op::Listen { .. } => "listen",
                    Op::Accept => "accept",
                    Op::AcceptLoop { serve } => {
                        kinds(serve, out);
                        "acceptloop"
                    }
                    Op::Connect { .. } => "connect",
                    Op::Write { .. } => "write",
                    Op::Read { .. } => "read",
                    Op::ReadToEnd { .. } => "readall",
                    Op::Shutdown => "shutdown",
                    Op::DropStream => "dropstream",
                    Op::SplitIdle { .. } => "splitidle",
                    Op::UdpBind { .. } => "ubind",
                    Op::UdpJoin { .. } => "ujoin",
                    Op::UdpConnect { .. } => "uconnect",
                    Op::UdpSend { .. } => "usend",
                    Op::UdpRecv { .. } => "urecv",
                    Op::Sleep { .. } => "sleep",
                    Op::Forever { .. } => "forever",
                    Op::Spawn { local, ops } => {
                        kinds(ops, out);
                        if *local {
                            "spawn_local"
                        } else {
                            "spawn"
                        }
                    }
                    Op::Fs { .. } => "fs",
                    Op::Ring { .. } => "ring",
                    Op::Return => "return",
                };
                out.push(name);
            }
        }
        let mut parts = Vec::new();
        for h in &sc.hosts {
            if h.ops.is_empty() {
                continue;
            }
            let mut k = Vec::new();
            kinds(&h.ops, &mut k);
            parts.push(format!("{}:{}", h.name, k.join(",")));
        }
        format!("{}{}{}{} {:?} @{} cap{} lat{} | {}", if blocked_writer_trigger(sc) { "trig[blocked-writer] " } else { "" }, if fin_stuck_trigger(sc) { "trig[fin-stuck] " } else { "" }, if victim_connects(sc) { "trig[victim-connect] " } else { "" }, if sc.guarded { "G" } else { "U" }, sc.pattern, sc.crash_at, sc.cfg.tcp_capacity, sc.cfg.max_latency_us, parts.join(" "))
    }

    fn known_match(matcher: &str, sc: &Scenario, v: &Violation) -> bool {
        match matcher {
            // O5: a peer blocked in write on exhausted credits is never woken when the remote host goes away
            "blocked-writer-not-woken" => v.class == "PeerWriteHang" && blocked_writer_trigger(sc),
            // O2: the FIN (or data) of a stream whose receive queue is full stays parked in the reorder
            // buffer for good, so the reader never sees end-of-file after the writer's host went away
            "fin-stuck-behind-full-queue" => v.class == "PeerReadHang" && fin_stuck_trigger(sc),
            // O4: a connect that is pending, refused or cancelled leaves its entry in the connector's stream
            // table; when the connector is the victim, the entry survives the crash
            "victim-connect-leaks-stream-entry" => v.class == "TableLeak" && v.message.contains("udp_binds: 0, tcp_binds: 0") && v.message.contains("multicast_memberships: 0") && victim_connects(sc),
            _ => false,
        }
    }
}

/// Trigger of known finding `blocked-writer-not-woken`: some non-victim task writes more segments
/// to a victim over one connection than tcp_capacity allows to be outstanding, so it can be parked
/// on the flow-control credits when the victim goes down.
fn blocked_writer_trigger(sc: &Scenario) -> bool {
    fn scan(ops: &[Op], sc: &Scenario, cap: usize) -> bool {
        let mut to_victim = false;
        for o in ops {
            match o {
                Op::Connect { host, .. } => to_victim = sc.hosts.get(*host as usize).map(|h| h.kind == Kind::Victim).unwrap_or(false),
                Op::Write { times, .. } if to_victim && *times as usize > cap => return true,
                Op::Spawn { ops, .. } => {
                    if scan(ops, sc, cap) {
                        return true;
                    }
                }
                _ => {}
            }
        }
        false
    }
    sc.hosts.iter().filter(|h| h.kind != Kind::Victim).any(|h| scan(&h.ops, sc, sc.cfg.tcp_capacity))
}

/// Trigger of known finding `fin-stuck-behind-full-queue`: a victim task writes at least
/// tcp_capacity segments over one stream, so the peer's receive queue can be full when the FIN of
/// the crashed host arrives.
fn fin_stuck_trigger(sc: &Scenario) -> bool {
    fn scan(ops: &[Op], cap: usize) -> bool {
        ops.iter().any(|o| match o {
            Op::Write { times, .. } => *times as usize >= cap,
            Op::Spawn { ops, .. } | Op::AcceptLoop { serve: ops } => scan(ops, cap),
            _ => false,
        })
    }
    sc.hosts.iter().filter(|h| h.kind == Kind::Victim).any(|h| scan(&h.ops, sc.cfg.tcp_capacity))
}

/// Trigger of known finding `victim-connect-leaks-stream-entry`: a victim program contains a Connect.
fn victim_connects(sc: &Scenario) -> bool {
    fn scan(ops: &[Op]) -> bool {
        ops.iter().any(|o| match o {
            Op::Connect { .. } => true,
            Op::Spawn { ops, .. } | Op::AcceptLoop { serve: ops } => scan(ops),
            _ => false,
        })
    }
    sc.hosts.iter().filter(|h| h.kind == Kind::Victim).any(|h| scan(&h.ops))
}
