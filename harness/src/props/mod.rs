//! One module per property; `dispatch` maps a property id to its `Property` impl.
//! Modules are gated by the cargo feature of the kit they use (default: all kits).

use crate::core::{self, Options, Property};
use std::path::Path;

#[cfg(feature = "kit-fs")]
pub mod c07;
#[cfg(feature = "kit-fs")]
pub mod c10;
#[cfg(feature = "kit-fs")]
pub mod c18;

// --- kit-wire (wirekit): C06, C16 ---------------------------------------------------------------
#[cfg(feature = "kit-wire")]
pub mod c06;
#[cfg(feature = "kit-wire")]
pub mod c16;
// --- kit-wire2 (wirekit2): C13, C17, C19 --------------------------------------------------------
#[cfg(feature = "kit-wire2")]
pub mod c13;
#[cfg(feature = "kit-wire2")]
pub mod c17;
#[cfg(feature = "kit-wire2")]
pub mod c19;
// --- kit-sim (simkit): C01-C05, C08, C09, C11, C12, C14, C15, C18(in-Sim), C20 ------------------
#[cfg(feature = "kit-sim")]
pub mod c08;
#[cfg(feature = "kit-sim")]
pub mod c03;
#[cfg(feature = "kit-sim")]
pub mod c14;
#[cfg(feature = "kit-sim")]
pub mod c01;
#[cfg(feature = "kit-sim")]
pub mod c02;
#[cfg(feature = "kit-sim")]
pub mod c04;
#[cfg(feature = "kit-sim")]
pub mod c05;
#[cfg(feature = "kit-sim")]
pub mod c12;
#[cfg(feature = "kit-sim")]
pub mod c15;
#[cfg(feature = "kit-sim")]
pub mod c09;
#[cfg(feature = "kit-sim")]
pub mod c11;
#[cfg(feature = "kit-sim")]
pub mod c20;

pub enum Action<'a> {
    Check(&'a Options),
    Replay(&'a Path),
    Selfcheck(u64, u64),
    Survey(u64, u64),
    Record(&'a Path, &'a Path),
    /// (seed, idx, variant, tier, print the scenario instead of executing it)
    Probe(u64, u64, u64, crate::core::Tier, bool),
    ProbeJson(&'a Path),
}

fn act<P: Property>(a: &Action) -> i32 {
    match a {
        Action::Check(o) => core::check::<P>(o),
        Action::Replay(p) => core::replay::<P>(p),
        Action::Selfcheck(seed, n) => core::selfcheck::<P>(*seed, *n),
        Action::Survey(seed, n) => core::survey::<P>(*seed, *n),
        Action::Record(a, b) => core::record::<P>(a, b),
        Action::Probe(seed, idx, variant, tier, print) => core::probe::<P>(*seed, *idx, *variant, *tier, *print),
        Action::ProbeJson(f) => core::probe_json::<P>(f),
    }
}

pub fn dispatch(id: &str, a: &Action) -> i32 {
    match id {
        #[cfg(feature = "kit-fs")]
        "C07" => act::<c07::C07>(a),
        #[cfg(feature = "kit-fs")]
        "C10" => act::<c10::C10>(a),
        #[cfg(feature = "kit-fs")]
        "C18" => act::<c18::C18>(a),
        // (kit-wire arms)
        #[cfg(feature = "kit-wire")]
        "C06" => act::<c06::C06>(a),
        #[cfg(feature = "kit-wire")]
        "C16" => act::<c16::C16>(a),
        // (kit-wire2 arms)
        #[cfg(feature = "kit-wire2")]
        "C13" => act::<c13::C13>(a),
        #[cfg(feature = "kit-wire2")]
        "C17" => act::<c17::C17>(a),
        #[cfg(feature = "kit-wire2")]
        "C19" => act::<c19::C19>(a),
        // (kit-sim arms)
        #[cfg(feature = "kit-sim")]
        "C08" => act::<c08::C08>(a),
        #[cfg(feature = "kit-sim")]
        "C03" => act::<c03::C03>(a),
        #[cfg(feature = "kit-sim")]
        "C14" => act::<c14::C14>(a),
        #[cfg(feature = "kit-sim")]
        "C01" => act::<c01::C01>(a),
        #[cfg(feature = "kit-sim")]
        "C02" => act::<c02::C02>(a),
        #[cfg(feature = "kit-sim")]
        "C04" => act::<c04::C04>(a),
        #[cfg(feature = "kit-sim")]
        "C05" => act::<c05::C05>(a),
        #[cfg(feature = "kit-sim")]
        "C12" => act::<c12::C12>(a),
        #[cfg(feature = "kit-sim")]
        "C15" => act::<c15::C15>(a),
        #[cfg(feature = "kit-sim")]
        "C09" => act::<c09::C09>(a),
        #[cfg(feature = "kit-sim")]
        "C11" => act::<c11::C11>(a),
        #[cfg(feature = "kit-sim")]
        "C20" => act::<c20::C20>(a),
        other => {
            eprintln!("harness error: no check registered for property {other} in this build");
            2
        }
    }
}
