//! One module per property. `dispatch!` maps a property id to its `Property` impl.
pub mod c10;

#[macro_export]
macro_rules! dispatch {
    ($id:expr, $f:ident, $($arg:expr),*) => {
        match $id {
            "C10" => $crate::core::$f::<$crate::props::c10::C10>($($arg),*),
            other => {
                eprintln!("harness error: no check registered for property {other}");
                2
            }
        }
    };
}
