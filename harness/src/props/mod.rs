//! One module per property; `dispatch` maps a property id to its `Property` impl.
//! Modules are gated by the cargo feature of the kit they use (default: all kits).

use crate::core::{self, Options, Property};
use std::path::Path;

#[cfg(feature = "kit-fs")]
pub mod c07;
#[cfg(feature = "kit-fs")]
pub mod c10;

pub enum Action<'a> {
    Check(&'a Options),
    Replay(&'a Path),
    Selfcheck(u64, u64),
    Survey(u64, u64),
    Record(&'a Path, &'a Path),
}

fn act<P: Property>(a: &Action) -> i32 {
    match a {
        Action::Check(o) => core::check::<P>(o),
        Action::Replay(p) => core::replay::<P>(p),
        Action::Selfcheck(seed, n) => core::selfcheck::<P>(*seed, *n),
        Action::Survey(seed, n) => core::survey::<P>(*seed, *n),
        Action::Record(a, b) => core::record::<P>(a, b),
    }
}

pub fn dispatch(id: &str, a: &Action) -> i32 {
    match id {
        #[cfg(feature = "kit-fs")]
        "C07" => act::<c07::C07>(a),
        #[cfg(feature = "kit-fs")]
        "C10" => act::<c10::C10>(a),
        other => {
            eprintln!("harness error: no check registered for property {other} in this build");
            2
        }
    }
}
