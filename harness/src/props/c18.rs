//! C18 — every io_uring submission completes exactly once with the right result.
//!
//! Direct driver: an `Fs` and an `IoUringHostState`, both entered by the harness with an explicit,
//! advancing `now` (what turmoil::Sim does per host tick); crash = drop all handles and rings' users,
//! `IoUringHostState::crash()` + `Fs::crash()` (what Sim::crash does), "bounce" = new rings on the
//! surviving state.

use crate::core::prng::Rng;
use crate::core::{catch, Log, Property, Report, Tier, Violation};
use crate::fskit::model::{Model, Obs, OpenFlags};
use crate::fskit::pattern;
use serde::{Deserialize, Serialize};
use std::os::fd::AsRawFd;
use std::os::unix::fs::FileExt;
use std::sync::{Arc, Mutex};
use std::time::Duration;
use turmoil_fs::shim::std::fs as sfs;
use turmoil_fs::{Fs, FsConfig};
use turmoil_io_uring::host::IoUringHostState;
use turmoil_io_uring::{opcode, squeue, types, IoUring};

const FILES: &[&str] = &["/f0", "/f1", "/f2"];
const SENTINEL: u8 = 0xEE;
const ECANCELED: i32 = -125;
const ENOENT: i32 = -2;
const EINVAL: i32 = -22;
const EBADF: i32 = -9;

#[derive(Clone, Debug, Serialize, Deserialize)]
pub enum SqeKind {
    Read { file: usize, off: u64, len: u32 },
    Write { file: usize, off: u64, len: u32, tag: u32 },
    Fsync { file: usize },
    Cancel { target: u64 },
}

#[derive(Clone, Debug, Serialize, Deserialize)]
pub enum Op {
    /// push one SQE (user_data unique per scenario); `bad_flags` != 0 sets that combination of squeue
    /// flag bits, at least one of which the shim documents as unsupported
    Push { ring: usize, ud: u64, kind: SqeKind, bad_flags: u8 },
    Submit { ring: usize },
    Advance { ns: u64 },
    /// cq.sync(), then iterate at most `max` entries (None = all visible)
    Drain { ring: usize, max: Option<u32> },
    CloseFile { file: usize },
    DropRing { ring: usize },
    /// create a ring in a slot whose ring was dropped (its fd may be recycled)
    NewRing { ring: usize },
    /// fault: host crash; afterwards new rings are created ("bounce") and files re-opened
    Crash,
}

#[derive(Clone, Debug, Serialize, Deserialize)]
pub struct Scenario {
    pub fs_seed: u64,
    /// io latency in ns (0,0 = none configured)
    pub lat_min_ns: u64,
    pub lat_max_ns: u64,
    pub page_cache: bool,
    /// FsConfig::sync_probability(1.0): every write is followed by a spontaneous flush of its file, through
    /// the ring exactly as through the synchronous API
    #[serde(default)]
    pub sync_always: bool,
    /// O_DIRECT files get a second, buffered descriptor; entries with an odd user_data go through it. The page
    /// cache may then be on: O_DIRECT transfers neither use nor fill it, buffered ones do
    #[serde(default)]
    pub shadow_buffered: bool,
    pub ring_entries: Vec<u32>,
    /// initial length of each file
    pub files: Vec<u32>,
    pub ops: Vec<Op>,
    /// Some: run the Push ops of ring 0 (read/write/fsync on file 0) as a host program inside a
    /// turmoil::Sim, reaping through AsyncFd::readable loops; crash the host before this step (0 = never)
    #[serde(default)]
    pub in_sim: Option<InSim>,
    /// filesystem capacity in bytes (0 = unlimited)
    #[serde(default)]
    pub capacity: u64,
    /// O_DIRECT: alignment in bytes (0 = no file is opened with O_DIRECT) and the files opened that way
    /// (bit i = file i). Offsets and lengths that are not multiples of the alignment must complete with
    /// -EINVAL and without effect, exactly as File::read_at / write_at refuse them.
    #[serde(default)]
    pub direct_align: u64,
    #[serde(default)]
    pub direct_files: u8,
}

#[derive(Clone, Debug, Serialize, Deserialize)]
pub struct InSim {
    pub tick_ms: u64,
    /// ops per submit batch
    pub batch: u32,
    pub crash_before_step: u32,
    /// the first incarnation submits everything in one batch and *returns* (its software has finished
    /// by itself) with the operations in flight; the ring handle, the open file and the buffers outlive
    /// the host's tasks in a slot of the harness (the one-ring-per-thread pattern). After crash + bounce
    /// the restarted software drains the old handle: nothing may complete or take effect.
    #[serde(default)]
    pub leave_early: bool,
    /// prologue: the program parks in AsyncFd::readable() on the idle ring; a second task of the host then
    /// submits one entry with an unsupported flag, whose immediate -EINVAL completion must wake the parked one
    #[serde(default)]
    pub rejected_while_parked: bool,
}

pub struct C18;

impl Scenario {
    /// One scenario in five runs on a disk that is (nearly) full: the initial contents fit exactly, later
    /// growth may hit ENOSPC, in-place overwrites must still succeed.
    /// One scenario in six opens some files with O_DIRECT (alignment 4, 8 or 16 so that the small offsets
    /// and lengths of the generator are a mix of aligned and misaligned ones); no page cache then.
    fn with_direct(mut self, rng: &mut Rng) -> Self {
        if rng.chance(1, 6) {
            self.direct_align = *rng.pick(&[4u64, 8, 16]);
            self.direct_files = rng.range(1, 7) as u8;
            self.shadow_buffered = rng.chance(1, 2);
            if !self.shadow_buffered {
                self.page_cache = false;
            } else {
                self.page_cache = rng.chance(2, 3);
            }
            // bias offsets and lengths towards multiples of the alignment
            let a = self.direct_align;
            for op in self.ops.iter_mut() {
                if let Op::Push { kind: SqeKind::Read { off, len, .. } | SqeKind::Write { off, len, .. }, .. } = op {
                    if rng.chance(1, 2) {
                        *off -= *off % a;
                    }
                    if rng.chance(1, 2) {
                        *len -= *len % a as u32;
                    }
                }
            }
        }
        self
    }
    fn with_capacity(mut self, rng: &mut Rng) -> Self {
        if rng.chance(1, 5) {
            self.capacity = self.files.iter().map(|l| *l as u64).sum::<u64>() + rng.range(0, 30);
            if self.capacity == 0 {
                self.capacity = 1;
            }
        }
        self
    }
}

#[derive(Clone, Debug)]
struct Outstanding {
    ud: u64,
    kind: SqeKind,
    bad_flags: bool,
    earliest: u64,
    latest: u64,
    buf: usize,
    /// Some(r): the CQE carries this fixed result and has no effect (cancelled target, cancel op, bad flags)
    fixed: Option<i32>,
    /// offset or length is not a multiple of the O_DIRECT alignment of its file: -EINVAL, no effect
    /// (unless the file was closed before the completion is reaped: -EBADF as for every operation)
    misaligned: bool,
}

struct RingM {
    depth: usize,
    sq: Vec<(u64, SqeKind, u8, usize)>,
    out: Vec<Outstanding>,
    alive: bool,
}

struct World {
    fs: Arc<Mutex<Fs>>,
    iou: Arc<Mutex<IoUringHostState>>,
    now: Duration,
}

impl World {
    fn entered<R>(&self, f: impl FnOnce() -> R) -> R {
        let _g1 = turmoil_fs::enter(&self.fs, turmoil_fs::EnterCtx { now: self.now, on_corruption: None });
        let _g2 = turmoil_io_uring::host::enter(&self.iou, turmoil_io_uring::host::EnterCtx { now: self.now });
        f()
    }
}

fn kind_name(k: &SqeKind) -> &'static str {
    match k {
        SqeKind::Read { .. } => "read",
        SqeKind::Write { .. } => "write",
        SqeKind::Fsync { .. } => "fsync",
        SqeKind::Cancel { .. } => "cancel",
    }
}

impl Property for C18 {
    const ID: &'static str = "C18";
    const LEVEL: &'static str = "fault_enumeration";
    type Scenario = Scenario;

    fn rule() -> String {
        "seeded programs over 1-2 rings (depth 1-8) and 1-3 files: pushes of Read/Write/Fsync/AsyncCancel SQEs with unique user_data (incl. pushes into a full SQ, unsupported flags, ops on files closed before completion), submit, virtual time advancing by seeded amounts, drains (sync then iterate fully or partially, draining late), ring drop with ops in flight, io latency min/max and page cache on/off; fault enumeration: for every seeded program a host crash (handles dropped, IoUringHostState::crash + Fs::crash, then new rings) is injected after EVERY prefix. Oracle: exactly one CQE per submitted entry (cancelled target: one -ECANCELED and its buffer keeps its sentinel bytes for the rest of the run), visible count after sync between 'must be visible by submit+max latency' and 'may be visible from submit+min latency', results and file effects equal the reference file model applied in observed CQE order, final file contents through the std shim equal the model, after a crash nothing submitted earlier completes or takes effect and the files hold their durable image. Non-trivial: >=3 ops in flight at once and >=1 cancel or crash; distinct = digest of (op kinds, CQE result kinds). Added later: 1-4 ring slots with ring churn; software that returns with operations in flight (stale handle drained after crash+bounce); a task parked in AsyncFd::readable on an idle ring while a sibling submits an unsupported entry; O_DIRECT files (alignment 4/8/16) with aligned and misaligned transfers; duplicate fsync tags; sync_probability 1.0 (a completed ring write is durable like a synchronous one); descriptors duplicated with try_clone. Round 11: the sibling of a reader parked on an idle ring submits a valid fsync in every other run; the reader must be woken when it matures.".into()
    }
    fn components_real() -> Vec<&'static str> {
        vec!["turmoil-io-uring: IoUring, SubmissionQueue::push, Submitter::submit, CompletionQueue::sync/iterate, opcode::{Read,Write,Fsync,AsyncCancel}, RingState scheduling/cancel, IoUringHostState::crash, host::enter", "turmoil-fs: Fs (read_file/write_file/sync_file/crash, io latency, page cache), std shim for the synchronous comparison"]
    }
    fn components_stub() -> Vec<&'static str> {
        vec!["the embedder (harness enters Fs and IoUringHostState with an explicit now, as turmoil::Sim does per host tick) and the workload; AsyncFd::readable loops need a tokio runtime and are exercised only through C01's in-Sim io_uring programs"]
    }
    fn assumptions() -> Vec<String> {
        vec![
            "user_data values are unique within a scenario, except that now and then one fsync is pushed twice under one tag (identical entries without buffer or data result)".into(),
            "effects are attributed in observed CQE order: concurrent in-flight operations may complete in any order".into(),
            "an operation whose file was closed before its CQE is reaped completes with -EBADF (documented divergence of the crate) — accepted".into(),
            "all fs fault probabilities are 0".into(),
        ]
    }
    fn budget(tier: Tier) -> u64 {
        match tier {
            Tier::Quick => 300_000,
            Tier::Thorough => 3_000_000,
        }
    }

    fn generate(rng: &mut Rng, _idx: u64, _tier: Tier) -> Scenario {
        // 1-4 ring slots; with >= 3 slots (or in one scenario in five) rings are dropped and re-created
        // often, in any order, while other rings have operations in flight (descriptor reuse)
        let nr = *rng.pick(&[1usize, 1, 2, 2, 2, 3, 4]);
        let churn = nr >= 3 || rng.chance(1, 5);
        let nf = rng.usize(1, 3);
        let (lat_min_ns, lat_max_ns) = match rng.below(4) {
            0 => (0, 0),
            1 => (50_000, 50_000),
            2 => (50_000, 5_000_000),
            _ => (rng.range(1, 2_000_000), 0),
        };
        let lat_max_ns = if lat_max_ns < lat_min_ns { lat_min_ns + rng.range(0, 3_000_000) } else { lat_max_ns };
        let mut ops = Vec::new();
        let n = rng.usize(3, 22);
        let mut ud = 0u64;
        let mut pushed: Vec<u64> = Vec::new();
        let mut dup_tags: std::collections::BTreeSet<u64> = Default::default();
        let mut dup_cancelled: std::collections::BTreeSet<u64> = Default::default();
        let mut tag = 0u32;
        for _ in 0..n {
            let ring = rng.below(nr as u64) as usize;
            match rng.weighted(if churn { &[36, 18, 8, 14, 2, 10, 12] } else { &[40, 18, 12, 16, 3, 2, 2] }) {
                0 => {
                    ud += 1;
                    let file = rng.below(nf as u64) as usize;
                    let kind = match rng.weighted(&[30, 35, 15, 20]) {
                        0 => SqeKind::Read { file, off: rng.below(40), len: rng.range(0, 32) as u32 },
                        1 => {
                            tag += 1;
                            SqeKind::Write { file, off: rng.below(40), len: rng.range(0, 24) as u32, tag }
                        }
                        2 => SqeKind::Fsync { file },
                        _ => {
                            let mut target = if pushed.is_empty() || rng.chance(1, 6) { 9999 } else { *rng.pick(&pushed) };
                            // (which of two entries under one tag a cancel hits is the ring's business: a tag
                            // that is shared is cancelled at most once, so the outcome stays attributable)
                            if dup_tags.contains(&target) && !dup_cancelled.insert(target) {
                                target = 9999;
                            }
                            SqeKind::Cancel { target }
                        }
                    };
                    pushed.push(ud);
                    // FIXED_FILE=1 IO_DRAIN=2 IO_LINK=4 IO_HARDLINK=8 ASYNC=16 BUFFER_SELECT=32; ASYNC alone is supported
                    let bad_flags = if rng.chance(1, 20) {
                        let rejected = *rng.pick(&[1u8, 2, 4, 8, 32]);
                        rejected | (rng.below(64) as u8 & if rng.bool() { 0 } else { 0x3f })
                    } else {
                        0
                    };
                    // now and then the same fsync is pushed twice under one user_data tag (both entries must
                    // complete; a cancel of the tag takes out exactly one of them). Only fsyncs: they have no
                    // buffer and no result that would have to be attributed to one of the two entries.
                    if bad_flags == 0 && rng.chance(1, 6) {
                        if let SqeKind::Fsync { .. } = &kind {
                            dup_tags.insert(ud);
                            ops.push(Op::Push { ring, ud, kind: kind.clone(), bad_flags: 0 });
                        }
                    }
                    ops.push(Op::Push { ring, ud, kind, bad_flags });
                }
                1 => ops.push(Op::Submit { ring }),
                2 => ops.push(Op::Advance {
                    ns: match rng.below(4) {
                        0 => rng.range(1, 200),
                        1 => lat_min_ns.max(1),
                        2 => lat_max_ns.max(1),
                        _ => rng.range(1, lat_max_ns.max(1000) * 2),
                    },
                }),
                3 => ops.push(Op::Drain { ring, max: if rng.chance(1, 3) { Some(rng.range(1, 3) as u32) } else { None } }),
                4 => ops.push(Op::CloseFile { file: rng.below(nf as u64) as usize }),
                5 => ops.push(Op::DropRing { ring }),
                _ => ops.push(Op::NewRing { ring }),
            }
        }
        Scenario {
            fs_seed: rng.next_u64(),
            lat_min_ns,
            lat_max_ns,
            page_cache: rng.chance(1, 3),
            sync_always: rng.chance(1, 5),
            shadow_buffered: false,
            ring_entries: (0..nr).map(|_| rng.range(1, 8) as u32).collect(),
            files: (0..nf).map(|_| rng.range(0, 40) as u32).collect(),
            ops,
            in_sim: None,
            capacity: 0,
            direct_align: 0,
            direct_files: 0,
        }
        .with_capacity(rng)
        .with_direct(rng)
    }

    /// Fault enumeration: the program as is, plus a crash after every prefix.
    fn variants(base: &Scenario, _tier: Tier) -> Vec<Scenario> {
        let mut v = vec![base.clone()];
        for k in 1..=base.ops.len() {
            let mut c = base.clone();
            c.ops.truncate(k);
            c.ops.push(Op::Crash);
            // after the crash: try to submit/drain on fresh rings, touch the files again
            c.ops.push(Op::Push { ring: 0, ud: 100_000, kind: SqeKind::Read { file: 0, off: 0, len: 16 }, bad_flags: 0 });
            c.ops.push(Op::Submit { ring: 0 });
            v.push(c);
        }
        // the same workload as a host program inside a running simulation (AsyncFd::readable drain
        // loops, Sim::crash + Sim::bounce at a few step indices)
        let pushes = base.ops.iter().filter(|o| matches!(o, Op::Push { kind: SqeKind::Read { .. } | SqeKind::Write { .. } | SqeKind::Fsync { .. }, bad_flags: 0, .. })).count();
        if pushes >= 2 {
            let tick_ms = 1 + base.fs_seed % 3;
            for crash in [0u32, 2, 3, 5, 9] {
                let mut c = base.clone();
                c.in_sim = Some(InSim { tick_ms, batch: 1 + (base.fs_seed >> 8) as u32 % 4, crash_before_step: crash, leave_early: false, rejected_while_parked: crash == 0 || crash == 9 });
                v.push(c);
            }
            let mut c = base.clone();
            c.in_sim = Some(InSim { tick_ms, batch: 8, crash_before_step: 2 + (base.fs_seed >> 12) as u32 % 4, leave_early: true, rejected_while_parked: false });
            v.push(c);
        }
        v
    }

    fn run(sc: &Scenario, keep: bool) -> Report {
        let mut log = Log::new(keep);
        let mut rep = Report::default();
        let r = catch(|| if sc.in_sim.is_some() { run_in_sim(sc, &mut log, &mut rep) } else { run_inner(sc, &mut log, &mut rep) });
        let violation = match r {
            Ok(v) => v,
            Err(p) => Some(Violation::new("Panic", format!("panic in turmoil-io-uring / turmoil-fs: {p}"))),
        };
        rep.abstract_digest = log.abs_digest();
        rep.full_digest = log.full_digest();
        rep.log = log.lines;
        rep.violation = violation;
        rep.steps = sc.ops.len() as u64;
        rep
    }

    fn shrink(sc: &Scenario) -> Vec<Scenario> {
        let mut out: Vec<Scenario> = crate::props::c10::shrink_ops(&sc.ops).into_iter().map(|ops| Scenario { ops, ..sc.clone() }).collect();
        if sc.page_cache {
            out.push(Scenario { page_cache: false, ..sc.clone() });
        }
        if let Some(i) = &sc.in_sim {
            if i.crash_before_step != 0 && !i.leave_early {
                out.push(Scenario { in_sim: Some(InSim { crash_before_step: 0, ..i.clone() }), ..sc.clone() });
            }
            if i.batch > 1 {
                out.push(Scenario { in_sim: Some(InSim { batch: 1, ..i.clone() }), ..sc.clone() });
            }
        }
        if sc.lat_max_ns != sc.lat_min_ns {
            out.push(Scenario { lat_max_ns: sc.lat_min_ns, ..sc.clone() });
        }
        if sc.lat_min_ns != 0 {
            out.push(Scenario { lat_min_ns: 0, lat_max_ns: 0, ..sc.clone() });
        }
        out
    }

    fn signature(sc: &Scenario) -> String {
        let pre = if let Some(i) = &sc.in_sim { format!("SIM(crash@{},batch{}) ", i.crash_before_step, i.batch) } else { String::new() };
        pre + &sc.ops
            .iter()
            .map(|o| match o {
                Op::Push { kind, bad_flags, .. } => format!("push-{}{}", kind_name(kind), if *bad_flags != 0 { "!" } else { "" }),
                Op::Submit { .. } => "submit".into(),
                Op::Advance { .. } => "adv".into(),
                Op::Drain { max, .. } => format!("drain{}", if max.is_some() { "-part" } else { "" }),
                Op::CloseFile { .. } => "close".into(),
                Op::DropRing { .. } => "dropring".into(),
                Op::NewRing { .. } => "newring".into(),
                Op::Crash => "CRASH".into(),
            })
            .collect::<Vec<_>>()
            .join(",")
    }
}

fn run_inner(sc: &Scenario, log: &mut Log, rep: &mut Report) -> Option<Violation> {
    let mut cfg = FsConfig::default();
    if sc.lat_max_ns > 0 {
        cfg.io_latency().min_latency(Duration::from_nanos(sc.lat_min_ns)).max_latency(Duration::from_nanos(sc.lat_max_ns));
    }
    if sc.page_cache {
        cfg.page_cache();
    }
    if sc.sync_always {
        cfg.sync_probability(1.0);
    }
    if sc.capacity > 0 {
        cfg.capacity(sc.capacity);
    }
    if sc.direct_align > 0 {
        cfg.direct_io_alignment(sc.direct_align);
    }
    let is_direct = |f: usize| sc.direct_align > 0 && sc.direct_files >> f & 1 == 1;
    // which descriptor an entry uses: the O_DIRECT one, or (odd user_data) the buffered shadow of the same file
    let via_shadow = |f: usize, ud: u64| sc.shadow_buffered && is_direct(f) && ud % 2 == 1;
    let mut shadows: Vec<Option<sfs::File>> = Vec::new();
    let mut w = World {
        fs: Arc::new(Mutex::new(Fs::new(cfg, sc.fs_seed))),
        iou: Arc::new(Mutex::new(IoUringHostState::new())),
        now: Duration::from_secs(1_000),
    };
    let mut model = Model::new();
    let flags = OpenFlags { read: true, write: true, create: true, ..Default::default() };
    let nf = sc.files.len();
    // ---- set-up: durable files with initial content
    let mut handles: Vec<Option<sfs::File>> = Vec::new();
    for (i, len) in sc.files.iter().enumerate() {
        let data = pattern(1000 + i as u32, *len);
        let f = w.entered(|| {
            let f = sfs::OpenOptions::new().read(true).write(true).create(true).open(FILES[i]).expect("create file");
            f.write_at(&data, 0).expect("initial write (set-up runs before the capacity is lowered)");
            f.sync_all().expect("sync");
            let f = if is_direct(i) {
                drop(f);
                sfs::OpenOptions::new().read(true).write(true).direct_io(true).open(FILES[i]).expect("open O_DIRECT")
            } else {
                f
            };
            // every other run works on duplicated descriptors (try_clone): same file, same flags, another fd
            if sc.fs_seed >> 5 & 1 == 1 {
                f.try_clone().expect("try_clone")
            } else {
                f
            }
        });
        if sc.fs_seed >> 5 & 1 == 1 {
            rep.probes.inc(if is_direct(i) { "o_direct_handle_duplicated_with_try_clone" } else { "handle_duplicated_with_try_clone" });
        }
        model.open(i as u8, FILES[i], &flags);
        model.write_at(i as u8, 0, &data);
        model.sync_file(i as u8);
        handles.push(Some(f));
        shadows.push(if sc.shadow_buffered && is_direct(i) { Some(w.entered(|| sfs::OpenOptions::new().read(true).write(true).open(FILES[i]).expect("open shadow"))) } else { None });
    }
    if sc.shadow_buffered {
        rep.probes.inc("o_direct_and_buffered_descriptor_on_one_file");
    }
    w.entered(|| sfs::sync_dir("/").expect("sync_dir"));
    model.sync_dir("/");

    let mut rings: Vec<Option<IoUring>> = Vec::new();
    let mut rms: Vec<RingM> = Vec::new();
    for e in &sc.ring_entries {
        let r = w.entered(|| IoUring::new(*e).expect("ring"));
        rms.push(RingM { depth: (*e).next_power_of_two().max(1) as usize, sq: Vec::new(), out: Vec::new(), alive: true });
        rings.push(Some(r));
    }
    // buffers live until the end of the run (the consumer keeps them alive while ops are in flight)
    let mut bufs: Vec<Vec<u8>> = Vec::new();
    // buffers of cancelled / never-completed reads: must keep their sentinel
    let mut frozen_bufs: Vec<(usize, u64)> = Vec::new();
    let mut max_inflight = 0usize;
    let mut had_cancel_or_crash = false;
    // reference page cache (all offsets lie in page 0 of their file; no eviction is configured): a page
    // is cached once a ring read or ring write of the file has been submitted while the file was open
    let mut cached: Vec<bool> = vec![false; nf];

    let mut all_ops: Vec<Op> = sc.ops.clone();
    // epilogue: let every latency elapse and drain everything
    all_ops.push(Op::Advance { ns: sc.lat_max_ns + 101 });
    for r in 0..sc.ring_entries.len() {
        all_ops.push(Op::Submit { ring: r });
    }
    all_ops.push(Op::Advance { ns: sc.lat_max_ns + 101 });
    for r in 0..sc.ring_entries.len() {
        all_ops.push(Op::Drain { ring: r, max: None });
    }

    for (i, op) in all_ops.iter().enumerate() {
        let now_ns = w.now.as_nanos() as u64;
        match op {
            Op::Push { ring, ud, kind, bad_flags } => {
                let Some(r) = rings.get_mut(*ring).and_then(|r| r.as_mut()) else { continue };
                let rm = &mut rms[*ring];
                let (file, len) = match kind {
                    SqeKind::Read { file, len, .. } | SqeKind::Write { file, len, .. } => (*file % nf, *len),
                    SqeKind::Fsync { file } => (*file % nf, 0),
                    SqeKind::Cancel { .. } => (0, 0),
                };
                // the fd is captured at push time; a closed file keeps its (now stale) fd number
                let fd = match (&handles[file], &shadows[file]) {
                    (Some(_), Some(sh)) if via_shadow(file, *ud) => sh.as_raw_fd(),
                    (Some(f), _) => f.as_raw_fd(),
                    (None, _) => -1,
                };
                let buf_idx = bufs.len();
                let buf = match kind {
                    SqeKind::Read { .. } => vec![SENTINEL; len as usize],
                    SqeKind::Write { tag, .. } => pattern(*tag, len),
                    _ => Vec::new(),
                };
                // (an empty Vec has a dangling pointer: give zero-length transfers a real, malloc-aligned one)
                let buf = if buf.is_empty() { Vec::with_capacity(16) } else { buf };
                bufs.push(buf);
                let ptr = bufs[buf_idx].as_mut_ptr();
                if sc.direct_align > 0 && (ptr as usize) % sc.direct_align as usize != 0 {
                    panic!("harness: buffer {ptr:?} is not aligned to {} (allocator assumption broken)", sc.direct_align);
                }
                let mut e: squeue::Entry = match kind {
                    SqeKind::Read { off, .. } => opcode::Read::new(types::Fd(fd), ptr, len).offset(*off).build(),
                    SqeKind::Write { off, .. } => opcode::Write::new(types::Fd(fd), ptr as *const u8, len).offset(*off).build(),
                    SqeKind::Fsync { .. } => opcode::Fsync::new(types::Fd(fd)).build(),
                    SqeKind::Cancel { target } => opcode::AsyncCancel::new(*target).build(),
                }
                .user_data(*ud);
                if *bad_flags != 0 {
                    let all = [squeue::Flags::FIXED_FILE, squeue::Flags::IO_DRAIN, squeue::Flags::IO_LINK, squeue::Flags::IO_HARDLINK, squeue::Flags::ASYNC, squeue::Flags::BUFFER_SELECT];
                    let mut f = squeue::Flags::empty();
                    for (bit, fl) in all.iter().enumerate() {
                        if bad_flags >> bit & 1 == 1 {
                            f |= *fl;
                        }
                    }
                    e = e.flags(f);
                }
                let res = w.entered(|| unsafe { r.submission().push(&e) });
                let expect_ok = rm.sq.len() < rm.depth;
                log.ev(format!("#{i} push ring{ring} ud={ud} {:?} bad_flags={bad_flags} -> {}", kind, if res.is_ok() { "ok" } else { "full" }));
                if res.is_ok() != expect_ok {
                    return Some(Violation::new("PushFull", format!("op #{i}: push into ring {ring} with {} of {} SQ slots used returned {:?}", rm.sq.len(), rm.depth, res.is_ok())));
                }
                if res.is_ok() {
                    rm.sq.push((*ud, kind.clone(), *bad_flags, buf_idx));
                } else {
                    rep.probes.inc("push_into_full_sq");
                }
            }
            Op::Submit { ring } => {
                let Some(r) = rings.get(*ring).and_then(|r| r.as_ref()) else { continue };
                let rm = &mut rms[*ring];
                let res = w.entered(|| r.submit());
                log.ev(format!("#{i} submit ring{ring} at {now_ns}ns -> {:?}", res.as_ref().map_err(|e| e.kind())));
                if !rm.alive {
                    if res.is_ok() {
                        return Some(Violation::new("SubmitAfterCrash", format!("op #{i}: submit on a ring that died in a crash returned {:?}", res)));
                    }
                    continue;
                }
                let n = match res {
                    Ok(n) => n,
                    Err(e) => return Some(Violation::new("SubmitError", format!("op #{i}: submit failed: {e}"))),
                };
                if n != rm.sq.len() {
                    return Some(Violation::new("SubmitCount", format!("op #{i}: submit accepted {n} entries, {} were queued", rm.sq.len())));
                }
                for (ud, kind, bad, buf) in std::mem::take(&mut rm.sq) {
                    if bad != 0 {
                        rm.out.push(Outstanding { ud, kind, bad_flags: true, earliest: now_ns, latest: now_ns, buf, fixed: Some(EINVAL), misaligned: false });
                        rep.probes.inc("unsupported_flags");
                        continue;
                    }
                    match &kind {
                        SqeKind::Cancel { target } => {
                            had_cancel_or_crash = true;
                            // found iff the target still has an unreaped completion on this ring
                            // (with several entries under one tag a cancel takes out one that is still scheduled)
                            let found = rm.out.iter().position(|o| o.ud == *target && o.fixed.is_none()).or_else(|| rm.out.iter().position(|o| o.ud == *target));
                            let res = if let Some(p) = found {
                                let t = &mut rm.out[p];
                                t.fixed = Some(ECANCELED);
                                t.earliest = now_ns;
                                t.latest = now_ns;
                                if matches!(t.kind, SqeKind::Read { .. }) {
                                    frozen_bufs.push((t.buf, t.ud));
                                }
                                rep.faults.inc("cancel_hit_in_flight_op");
                                0
                            } else {
                                rep.faults.inc("cancel_missed");
                                ENOENT
                            };
                            rm.out.push(Outstanding { ud, kind, bad_flags: false, earliest: now_ns, latest: now_ns, buf, fixed: Some(res), misaligned: false });
                        }
                        k => {
                            let file_of = match k {
                                SqeKind::Read { file, .. } | SqeKind::Write { file, .. } | SqeKind::Fsync { file } => *file % nf,
                                SqeKind::Cancel { .. } => 0,
                            };
                            let open_now = handles[file_of].is_some();
                            let direct_op = is_direct(file_of) && !via_shadow(file_of, ud);
                            // a read that hits the page cache costs ~100ns whatever io latency is configured;
                            // a cold read pays the full latency
                            let hit = sc.page_cache && matches!(k, SqeKind::Read { .. }) && open_now && cached[file_of] && !direct_op;
                            if sc.page_cache && open_now && !direct_op && matches!(k, SqeKind::Read { .. } | SqeKind::Write { .. }) {
                                if matches!(k, SqeKind::Read { .. }) && !cached[file_of] {
                                    rep.probes.inc("cold_read_with_page_cache");
                                }
                                cached[file_of] = true;
                            }
                            let (lo, hi) = if hit { (100, 100) } else { (sc.lat_min_ns, sc.lat_max_ns.max(sc.lat_min_ns)) };
                            let e = now_ns + lo;
                            let l = now_ns + hi;
                            let misaligned = match k {
                                SqeKind::Read { off, len, .. } | SqeKind::Write { off, len, .. } => open_now && direct_op && (*off % sc.direct_align != 0 || *len as u64 % sc.direct_align != 0),
                                _ => false,
                            };
                            if misaligned {
                                rep.probes.inc("misaligned_transfer_on_o_direct_file");
                                if matches!(k, SqeKind::Read { .. }) {
                                    frozen_bufs.push((buf, ud));
                                }
                            } else if open_now && direct_op && matches!(k, SqeKind::Read { .. } | SqeKind::Write { .. }) {
                                rep.probes.inc("aligned_transfer_on_o_direct_file");
                            }
                            rm.out.push(Outstanding { ud, kind, bad_flags: false, earliest: e, latest: l, buf, fixed: None, misaligned });
                        }
                    }
                }
                max_inflight = max_inflight.max(rm.out.len());
            }
            Op::Advance { ns } => {
                w.now += Duration::from_nanos(*ns);
                log.ev(format!("#{i} advance {ns}ns -> now {}ns", w.now.as_nanos()));
            }
            Op::Drain { ring, max } => {
                let Some(r) = rings.get_mut(*ring).and_then(|r| r.as_mut()) else { continue };
                let alive = rms[*ring].alive;
                let got: Vec<(u64, i32)> = w.entered(|| {
                    let mut cq = r.completion();
                    cq.sync();
                    let visible = cq.len();
                    let take = max.map(|m| (m as usize).min(visible)).unwrap_or(visible);
                    let mut v = vec![(u64::MAX, visible as i32)];
                    for _ in 0..take {
                        match cq.next() {
                            Some(e) => v.push((e.user_data(), e.result())),
                            None => break,
                        }
                    }
                    v
                });
                let visible = got[0].1 as usize;
                let rm = &mut rms[*ring];
                let must = rm.out.iter().filter(|o| o.latest <= now_ns).count();
                let may = rm.out.iter().filter(|o| o.earliest <= now_ns).count();
                log.ev(format!("#{i} drain ring{ring} at {now_ns}ns: visible={visible} (must {must}, may {may}) got {:?}", &got[1..]));
                if !alive {
                    if visible != 0 || got.len() > 1 {
                        return Some(Violation::new("CompletionAfterCrash", format!("op #{i}: ring {ring} died in a crash but reports {visible} completions")));
                    }
                    continue;
                }
                if visible < must {
                    return Some(Violation::new("CompletionLate", format!("op #{i}: at {now_ns}ns only {visible} completions visible on ring {ring}; {must} operations are past submit + max latency")));
                }
                if visible > may {
                    return Some(Violation::new("CompletionEarly", format!("op #{i}: at {now_ns}ns {visible} completions visible on ring {ring} but only {may} operations have reached submit + min latency")));
                }
                for (ud, result) in &got[1..] {
                    // (several entries may share a tag: take the one this completion can belong to)
                    let cands: Vec<usize> = rm.out.iter().enumerate().filter(|(_, o)| o.ud == *ud).map(|(p, _)| p).collect();
                    if cands.len() >= 2 {
                        rep.probes.inc("completion_of_an_entry_sharing_its_user_data");
                    }
                    let pick = cands.iter().copied().find(|p| rm.out[*p].fixed == Some(*result)).or_else(|| cands.iter().copied().find(|p| rm.out[*p].fixed.is_none() && *result != ECANCELED)).or_else(|| cands.first().copied());
                    let Some(pos) = pick else {
                        return Some(Violation::new("UnknownOrDuplicateCqe", format!("op #{i}: CQE user_data={ud} result={result} matches no outstanding submission (second completion or never submitted)")));
                    };
                    let o = rm.out.remove(pos);
                    if o.earliest > now_ns {
                        return Some(Violation::new("CompletionEarly", format!("op #{i}: CQE of ud={ud} ({}) visible at {now_ns}ns, before submit + min latency = {}ns", kind_name(&o.kind), o.earliest)));
                    }
                    log.tag(kind_name(&o.kind));
                    let expected: i32 = if let Some(f) = o.fixed {
                        f
                    } else {
                        let (file, _) = match &o.kind {
                            SqeKind::Read { file, len, .. } | SqeKind::Write { file, len, .. } => (*file % nf, *len),
                            SqeKind::Fsync { file } => (*file % nf, 0),
                            SqeKind::Cancel { .. } => unreachable!(),
                        };
                        if handles[file].is_none() || !model.handles.contains_key(&(file as u8)) {
                            rep.probes.inc("op_on_closed_file");
                            EBADF
                        } else if o.misaligned {
                            EINVAL
                        } else {
                            match &o.kind {
                                SqeKind::Read { off, len, .. } => match model.read_at(file as u8, *off, *len as usize) {
                                    Obs::Bytes(b) => {
                                        let n = b.len();
                                        if *result == n as i32 {
                                            let buf = &bufs[o.buf];
                                            if buf[..n] != b[..] {
                                                return Some(Violation::new("ReadData", format!("op #{i}: read ud={ud} returned {:?}, the file model holds {:?}", &buf[..n.min(24)], &b[..n.min(24)])));
                                            }
                                            if buf[n..].iter().any(|x| *x != SENTINEL) {
                                                return Some(Violation::new("ReadOverrun", format!("op #{i}: read ud={ud} reported {n} bytes but touched the buffer beyond that")));
                                            }
                                        }
                                        n as i32
                                    }
                                    _ => unreachable!(),
                                },
                                SqeKind::Write { off, len, tag, .. } => {
                                    let cur_len = match model.handle_len(file as u8) {
                                        Obs::Meta { len, .. } => len,
                                        _ => 0,
                                    };
                                    let extends = *off + *len as u64 > cur_len;
                                    if sc.capacity > 0 && extends && *result == -28 {
                                        // growth on a full disk may be refused (ENOSPC): no effect
                                        rep.probes.inc("enospc_on_growth");
                                        -28
                                    } else {
                                        if sc.capacity > 0 && !extends {
                                            rep.probes.inc("in_place_overwrite_on_limited_disk");
                                        }
                                        model.write_at(file as u8, *off, &pattern(*tag, *len));
                                        if sc.sync_always {
                                            model.sync_file(file as u8);
                                        }
                                        *len as i32
                                    }
                                }
                                SqeKind::Fsync { .. } => {
                                    model.sync_file(file as u8);
                                    0
                                }
                                SqeKind::Cancel { .. } => unreachable!(),
                            }
                        }
                    };
                    log.tag(match expected {
                        x if x >= 0 => "ok",
                        ECANCELED => "canceled",
                        EBADF => "ebadf",
                        EINVAL => "einval",
                        _ => "err",
                    });
                    if *result != expected {
                        return Some(Violation::new(
                            "CqeResult",
                            format!("op #{i}: CQE ud={ud} ({:?}{}) result {result}, the reference says {expected}", o.kind, if o.bad_flags { ", unsupported flag" } else { "" }),
                        ));
                    }
                }
            }
            Op::CloseFile { file } => {
                let f = *file % nf;
                if handles[f].is_some() {
                    w.entered(|| {
                        handles[f] = None;
                        shadows[f] = None;
                    });
                    model.close(f as u8);
                    log.ev(format!("#{i} close file {f}"));
                }
            }
            Op::DropRing { ring } => {
                if let Some(slot) = rings.get_mut(*ring) {
                    if slot.is_some() {
                        let inflight = rms[*ring].out.len();
                        w.entered(|| *slot = None);
                        // operations in flight on a dropped ring never complete and never take effect
                        for o in rms[*ring].out.drain(..) {
                            if matches!(o.kind, SqeKind::Read { .. }) {
                                frozen_bufs.push((o.buf, o.ud));
                            }
                        }
                        rms[*ring].sq.clear();
                        if inflight > 0 {
                            rep.faults.inc("ring_dropped_with_ops_in_flight");
                        }
                        log.ev(format!("#{i} drop ring{ring} with {inflight} ops in flight"));
                    }
                }
            }
            Op::NewRing { ring } => {
                if let Some(slot) = rings.get_mut(*ring) {
                    if slot.is_none() {
                        let e = sc.ring_entries[*ring];
                        let r = w.entered(|| IoUring::new(e).expect("ring"));
                        *slot = Some(r);
                        rms[*ring] = RingM { depth: e.next_power_of_two().max(1) as usize, sq: Vec::new(), out: Vec::new(), alive: true };
                        rep.probes.inc("ring_created_after_a_drop");
                        log.ev(format!("#{i} new ring in slot {ring}"));
                    }
                }
            }
            Op::Crash => {
                had_cancel_or_crash = true;
                let inflight: usize = rms.iter().map(|r| r.out.len()).sum();
                w.entered(|| {
                    for h in handles.iter_mut() {
                        *h = None;
                    }
                    for h in shadows.iter_mut() {
                        *h = None;
                    }
                });
                w.iou.lock().unwrap().crash();
                w.fs.lock().unwrap().crash();
                model.crash();
                rep.faults.inc("crash");
                if inflight > 0 {
                    rep.faults.inc("crash_with_ops_in_flight");
                }
                for rm in rms.iter_mut() {
                    for o in rm.out.drain(..) {
                        if matches!(o.kind, SqeKind::Read { .. }) {
                            frozen_bufs.push((o.buf, o.ud));
                        }
                    }
                    rm.sq.clear();
                    rm.alive = false;
                }
                log.ev(format!("#{i} CRASH with {inflight} ops in flight"));
                // old ring objects: must be dead
                for (ri, r) in rings.iter_mut().enumerate() {
                    if let Some(r) = r.as_mut() {
                        let (sub, vis) = w.entered(|| {
                            let s = r.submit().is_ok();
                            let mut cq = r.completion();
                            cq.sync();
                            (s, cq.len())
                        });
                        if sub || vis != 0 {
                            return Some(Violation::new("CompletionAfterCrash", format!("after the crash the old ring {ri} still accepts submits ({sub}) or shows {vis} completions")));
                        }
                    }
                }
                // files hold their durable image
                for (fi, p) in FILES.iter().enumerate().take(nf) {
                    let real = w.entered(|| sfs::read(p).ok());
                    let exp = match model.read_whole(p) {
                        Obs::Bytes(b) => Some(b),
                        _ => None,
                    };
                    if real != exp {
                        return Some(Violation::new(
                            "EffectAfterCrash",
                            format!("after the crash file {p} holds {:?}, its durable image is {:?} (an operation that never completed took effect, or a completed+fsynced one was lost)", real.as_ref().map(|b| &b[..b.len().min(24)]), exp.as_ref().map(|b| &b[..b.len().min(24)])),
                        ));
                    }
                    let _ = fi;
                }
                // "bounce": fresh rings, files re-opened
                w.entered(|| {
                    for r in rings.iter_mut() {
                        *r = None;
                    }
                });
                for (ri, e) in sc.ring_entries.iter().enumerate() {
                    let r = w.entered(|| IoUring::new(*e).expect("ring"));
                    rings[ri] = Some(r);
                    rms[ri].alive = true;
                }
                for fi in 0..nf {
                    if model.exists(FILES[fi]) {
                        let f = w.entered(|| {
                            let mut o = sfs::OpenOptions::new();
                            o.read(true).write(true);
                            if is_direct(fi) {
                                o.direct_io(true);
                            }
                            o.open(FILES[fi]).expect("reopen")
                        });
                        handles[fi] = Some(f);
                        shadows[fi] = if sc.shadow_buffered && is_direct(fi) { Some(w.entered(|| sfs::OpenOptions::new().read(true).write(true).open(FILES[fi]).expect("reopen shadow"))) } else { None };
                        model.open(fi as u8, FILES[fi], &OpenFlags { read: true, write: true, ..Default::default() });
                    }
                }
            }
        }
    }

    // ---- end of run: exactly once
    for (ri, rm) in rms.iter().enumerate() {
        if rings[ri].is_some() && rm.alive {
            if let Some(o) = rm.out.first() {
                return Some(Violation::new("LostCompletion", format!("ud={} ({}) on ring {ri} was submitted but never completed although every latency has elapsed and the ring was drained", o.ud, kind_name(&o.kind))));
            }
        }
    }
    for (b, ud) in &frozen_bufs {
        if bufs[*b].iter().any(|x| *x != SENTINEL) {
            return Some(Violation::new("BufferTouchedAfterCancel", format!("the read buffer of ud={ud} was written after its operation was cancelled / its ring or host died")));
        }
    }
    // final contents through the synchronous API
    for p in FILES.iter().take(nf) {
        let real = w.entered(|| sfs::read(p).ok());
        let exp = match model.read_whole(p) {
            Obs::Bytes(b) => Some(b),
            _ => None,
        };
        if real != exp {
            return Some(Violation::new(
                "FinalContent",
                format!("file {p}: the synchronous API reads {:?}, the reference (effects in CQE order) holds {:?}", real.as_ref().map(|b| &b[..b.len().min(32)]), exp.as_ref().map(|b| &b[..b.len().min(32)])),
            ));
        }
    }
    // tear down inside the entered context
    w.entered(|| {
        rings.clear();
        handles.clear();
    });
    rep.nontrivial = max_inflight >= 3 && had_cancel_or_crash;
    if max_inflight >= 3 {
        rep.probes.inc("three_or_more_ops_in_flight");
    }
    rep.sim_ms = (w.now.as_millis() as u64).saturating_sub(1_000_000);
    None
}

// ---- in-Sim driver: AsyncFd::readable drain loops, Sim::crash / Sim::bounce ---------------------------

#[derive(Clone, Debug)]
enum SimEv {
    Submitted { uds: Vec<u64>, at_us: u64 },
    Cqe { ud: u64, result: i32, at_us: u64, data: Vec<u8> },
    /// a restarted incarnation: completions visible on a fresh ring after waiting, file content
    Restarted { stale_cqes: usize, content: Option<Vec<u8>> },
    Finished { content: Option<Vec<u8>> },
    /// the software returned with these submissions in flight (InSim::leave_early)
    LeftEarly,
    /// prologue of InSim::rejected_while_parked: was the parked readable() woken, and what did it reap
    RejectedWhileParked { woke: bool, reaped: Vec<(u64, i32)>, valid: bool },
    Error(String),
}

struct RingFd(std::os::fd::RawFd);
impl std::os::fd::AsRawFd for RingFd {
    fn as_raw_fd(&self) -> std::os::fd::RawFd {
        self.0
    }
}

fn run_in_sim(sc: &Scenario, log: &mut Log, rep: &mut Report) -> Option<Violation> {
    use std::cell::{Cell, RefCell};
    use std::rc::Rc;
    let ins = sc.in_sim.clone().unwrap();
    let tick_us = ins.tick_ms * 1000;
    let pushes: Vec<(u64, SqeKind)> = sc
        .ops
        .iter()
        .filter_map(|o| match o {
            Op::Push { ud, kind: k @ (SqeKind::Read { .. } | SqeKind::Write { .. } | SqeKind::Fsync { .. }), bad_flags: 0, .. } => Some((*ud, k.clone())),
            _ => None,
        })
        .collect();
    let init = pattern(1000, sc.files[0]);
    let events: Rc<RefCell<Vec<SimEv>>> = Rc::new(RefCell::new(Vec::new()));
    let inc = Rc::new(Cell::new(0u32));
    let lat_max = sc.lat_max_ns;

    let mut b = turmoil::Builder::new();
    b.rng_seed(sc.fs_seed).epoch(std::time::UNIX_EPOCH + Duration::from_secs(1_500_000_000)).tick_duration(Duration::from_millis(ins.tick_ms));
    {
        let f = b.fs();
        if sc.lat_max_ns > 0 {
            f.io_latency().min_latency(Duration::from_nanos(sc.lat_min_ns)).max_latency(Duration::from_nanos(sc.lat_max_ns));
        }
        if sc.page_cache {
            f.page_cache();
        }
        if sc.sync_always {
            f.sync_probability(1.0);
        }
    }
    let mut sim = b.build();
    // (ring, buffers) of a first incarnation that left early; the buffers must outlive the operations
    #[allow(clippy::type_complexity)]
    let stash: Rc<RefCell<Option<(turmoil::io_uring::IoUring, Vec<Vec<u8>>)>>> = Rc::new(RefCell::new(None));
    {
        let events = events.clone();
        let inc = inc.clone();
        let stash = stash.clone();
        let leave_early = ins.leave_early;
        let rejected_while_parked = ins.rejected_while_parked && !ins.leave_early;
        // every other time the sibling's entry is a valid fsync: it completes after the configured latency, and the
        // task parked on the (then idle) ring must be woken for it all the same
        let parked_valid = sc.fs_seed % 2 == 1;
        let lat_max_ns = sc.lat_max_ns.max(sc.lat_min_ns);
        let tick_ms = ins.tick_ms;
        let pushes = pushes.clone();
        let init = init.clone();
        let batch = ins.batch.max(1) as usize;
        sim.host("h", move || {
            let events = events.clone();
            inc.set(inc.get() + 1);
            let k = inc.get();
            let pushes = pushes.clone();
            let init = init.clone();
            let stash = stash.clone();
            async move {
                use turmoil::io_uring::{AsyncFd, IoUring as SimRing};
                let mut left = false;
                let r: Result<(), String> = async {
                    let mut ring = SimRing::new(8).map_err(|e| e.to_string())?;
                    if k > 1 {
                        // restarted: nothing submitted before the crash may complete or take effect
                        tokio::time::sleep(Duration::from_nanos(lat_max) + Duration::from_millis(5)).await;
                        let mut stale = {
                            let mut cq = ring.completion();
                            cq.sync();
                            cq.len()
                        };
                        let old = stash.borrow_mut().take();
                        if let Some((mut old_ring, bufs)) = old {
                            // the handle from before the crash: its ring is gone, draining it yields nothing
                            let _ = old_ring.submit();
                            let mut cq = old_ring.completion();
                            cq.sync();
                            stale += (&mut cq).count();
                            drop(cq);
                            drop(old_ring);
                            drop(bufs);
                        }
                        events.borrow_mut().push(SimEv::Restarted { stale_cqes: stale, content: sfs::read("/f0").ok() });
                        return Ok(());
                    }
                    let file = sfs::OpenOptions::new().read(true).write(true).create(true).open("/f0").map_err(|e| e.to_string())?;
                    file.write_at(&init, 0).map_err(|e| e.to_string())?;
                    file.sync_all().map_err(|e| e.to_string())?;
                    sfs::sync_dir("/").map_err(|e| e.to_string())?;
                    let fd = types::Fd(file.as_raw_fd());
                    if leave_early {
                        let chunk = &pushes[..pushes.len().min(8)];
                        let mut bufs: Vec<Vec<u8>> = chunk
                            .iter()
                            .map(|(_, kind)| match kind {
                                SqeKind::Read { len, .. } => vec![SENTINEL; *len as usize],
                                SqeKind::Write { len, tag, .. } => pattern(*tag, *len),
                                _ => Vec::new(),
                            })
                            .collect();
                        for (i, (ud, kind)) in chunk.iter().enumerate() {
                            let e = match kind {
                                SqeKind::Read { off, len, .. } => opcode::Read::new(fd, bufs[i].as_mut_ptr(), *len).offset(*off).build(),
                                SqeKind::Write { off, len, .. } => opcode::Write::new(fd, bufs[i].as_ptr(), *len).offset(*off).build(),
                                _ => opcode::Fsync::new(fd).build(),
                            }
                            .user_data(*ud);
                            unsafe { ring.submission().push(&e).map_err(|e| e.to_string())? };
                        }
                        ring.submit().map_err(|e| e.to_string())?;
                        events.borrow_mut().push(SimEv::Submitted { uds: chunk.iter().map(|c| c.0).collect(), at_us: turmoil::elapsed().as_micros() as u64 });
                        *stash.borrow_mut() = Some((ring, bufs));
                        // the descriptor stays registered: nothing below can be blamed on a closed file
                        std::mem::forget(file);
                        events.borrow_mut().push(SimEv::LeftEarly);
                        left = true;
                        return Ok(());
                    }
                    let afd = AsyncFd::new(RingFd(std::os::fd::AsRawFd::as_raw_fd(&ring))).map_err(|e| e.to_string())?;
                    let ring = Rc::new(RefCell::new(ring));
                    if rejected_while_parked {
                        let r2 = ring.clone();
                        let tick = Duration::from_millis(tick_ms);
                        tokio::task::spawn_local(async move {
                            tokio::time::sleep(tick).await;
                            let e = if parked_valid { opcode::Fsync::new(fd).build().user_data(999_999) } else { opcode::Fsync::new(fd).build().flags(squeue::Flags::IO_LINK).user_data(999_999) };
                            let mut r = r2.borrow_mut();
                            unsafe {
                                let _ = r.submission().push(&e);
                            }
                            let _ = r.submit();
                        });
                        // nothing is in flight: this parks until the other task's submission completes
                        let wait = if parked_valid { tick * 9 + Duration::from_nanos(lat_max_ns) } else { tick * 6 };
                        let woke = tokio::time::timeout(wait, afd.readable()).await.map(|g| g.is_ok()).unwrap_or(false);
                        let mut reaped = Vec::new();
                        {
                            let mut r = ring.borrow_mut();
                            let mut cq = r.completion();
                            cq.sync();
                            for c in &mut cq {
                                reaped.push((c.user_data(), c.result()));
                            }
                        }
                        events.borrow_mut().push(SimEv::RejectedWhileParked { woke, reaped, valid: parked_valid });
                    }
                    for chunk in pushes.chunks(batch) {
                        let mut bufs: Vec<Vec<u8>> = Vec::new();
                        for (_, kind) in chunk {
                            bufs.push(match kind {
                                SqeKind::Read { len, .. } => vec![SENTINEL; *len as usize],
                                SqeKind::Write { len, tag, .. } => pattern(*tag, *len),
                                _ => Vec::new(),
                            });
                        }
                        for (i, (ud, kind)) in chunk.iter().enumerate() {
                            let e = match kind {
                                SqeKind::Read { off, len, .. } => opcode::Read::new(fd, bufs[i].as_mut_ptr(), *len).offset(*off).build(),
                                SqeKind::Write { off, len, .. } => opcode::Write::new(fd, bufs[i].as_ptr(), *len).offset(*off).build(),
                                _ => opcode::Fsync::new(fd).build(),
                            }
                            .user_data(*ud);
                            unsafe { ring.borrow_mut().submission().push(&e).map_err(|e| e.to_string())? };
                        }
                        ring.borrow().submit().map_err(|e| e.to_string())?;
                        events.borrow_mut().push(SimEv::Submitted { uds: chunk.iter().map(|c| c.0).collect(), at_us: turmoil::elapsed().as_micros() as u64 });
                        let mut got = 0;
                        while got < chunk.len() {
                            let _g = afd.readable().await.map_err(|e| e.to_string())?;
                            let mut ring = ring.borrow_mut();
                            let mut cq = ring.completion();
                            cq.sync();
                            for c in &mut cq {
                                let idx = chunk.iter().position(|x| x.0 == c.user_data());
                                let data = match idx {
                                    Some(i) if matches!(chunk[i].1, SqeKind::Read { .. }) => bufs[i].clone(),
                                    _ => Vec::new(),
                                };
                                events.borrow_mut().push(SimEv::Cqe { ud: c.user_data(), result: c.result(), at_us: turmoil::elapsed().as_micros() as u64, data });
                                got += 1;
                            }
                        }
                    }
                    events.borrow_mut().push(SimEv::Finished { content: sfs::read("/f0").ok() });
                    drop(afd);
                    drop(ring);
                    drop(file);
                    Ok(())
                }
                .await;
                if let Err(e) = r {
                    events.borrow_mut().push(SimEv::Error(e));
                }
                if left {
                    return Ok(());
                }
                std::future::pending::<()>().await;
                Ok(())
            }
        });
    }
    let max_steps = 40 + (pushes.len() as u64 * (sc.lat_max_ns / 1000 + 2 * tick_us) / tick_us) as u32 + ((sc.lat_max_ns / 1000 + 6000) / tick_us) as u32;
    let mut crashed = false;
    for s in 1..=max_steps {
        if ins.crash_before_step == s {
            sim.crash("h");
            sim.bounce("h");
            crashed = true;
            rep.faults.inc("sim_crash_bounce");
            events.borrow_mut().push(SimEv::Error("__crash__".into()));
        }
        if let Err(e) = sim.step() {
            return Some(Violation::new("SimError", format!("in-Sim: step {s} failed: {e}")));
        }
        let done = events.borrow().iter().any(|e| matches!(e, SimEv::Finished { .. } | SimEv::Restarted { .. }));
        if done {
            break;
        }
    }
    drop(sim);
    drop(stash);
    // ---- judge
    let mut model = Model::new();
    let flags = OpenFlags { read: true, write: true, create: true, ..Default::default() };
    model.open(0, "/f0", &flags);
    model.write_at(0, 0, &init);
    model.sync_file(0);
    model.sync_dir("/");
    let mut outstanding: Vec<(u64, u64)> = Vec::new(); // (ud, submit time)
    let mut finished = false;
    let evs = events.borrow().clone();
    for (i, ev) in evs.iter().enumerate() {
        match ev {
            SimEv::Submitted { uds, at_us } => {
                log.ev(format!("sim submit {:?} at {at_us}us", uds));
                for u in uds {
                    outstanding.push((*u, *at_us));
                }
            }
            SimEv::Cqe { ud, result, at_us, data } => {
                log.ev(format!("sim cqe ud={ud} result={result} at {at_us}us"));
                log.tag("cqe");
                let Some(pos) = outstanding.iter().position(|o| o.0 == *ud) else {
                    return Some(Violation::new("UnknownOrDuplicateCqe", format!("in-Sim event {i}: CQE ud={ud} matches no outstanding submission")));
                };
                let (_, t0) = outstanding.remove(pos);
                let kind = &pushes.iter().find(|p| p.0 == *ud).unwrap().1;
                let min_us = match kind {
                    SqeKind::Read { .. } if sc.page_cache => 0,
                    _ => sc.lat_min_ns / 1000,
                };
                if at_us + tick_us < t0 + min_us {
                    return Some(Violation::new("CompletionEarly", format!("in-Sim: CQE ud={ud} reaped at {at_us}us, submitted at {t0}us with min latency {min_us}us (tick {tick_us}us)")));
                }
                let max_us = sc.lat_max_ns.max(sc.lat_min_ns) / 1000 + 1;
                if *at_us > t0 + max_us + 3 * tick_us {
                    return Some(Violation::new("CompletionLate", format!("in-Sim: CQE ud={ud} reaped through AsyncFd::readable at {at_us}us, submitted at {t0}us with max latency {max_us}us (tick {tick_us}us)")));
                }
                let expected = match kind {
                    SqeKind::Read { off, len, .. } => match model.read_at(0, *off, *len as usize) {
                        Obs::Bytes(bts) => {
                            let n = bts.len();
                            if *result == n as i32 && (data[..n] != bts[..] || data[n..].iter().any(|x| *x != SENTINEL)) {
                                return Some(Violation::new("ReadData", format!("in-Sim: read ud={ud} returned {:?}, the model holds {:?}", &data[..n.min(16)], &bts[..n.min(16)])));
                            }
                            n as i32
                        }
                        _ => unreachable!(),
                    },
                    SqeKind::Write { off, len, tag, .. } => {
                        model.write_at(0, *off, &pattern(*tag, *len));
                        if sc.sync_always {
                            model.sync_file(0);
                        }
                        *len as i32
                    }
                    SqeKind::Fsync { .. } => {
                        model.sync_file(0);
                        0
                    }
                    SqeKind::Cancel { .. } => unreachable!(),
                };
                if *result != expected {
                    return Some(Violation::new("CqeResult", format!("in-Sim: CQE ud={ud} ({:?}) result {result}, the reference says {expected}", kind)));
                }
            }
            SimEv::Error(e) if e == "__crash__" => {
                model.crash();
                if !outstanding.is_empty() {
                    rep.faults.inc("sim_crash_with_ops_in_flight");
                }
                outstanding.clear();
                log.ev("sim CRASH + bounce");
                log.tag("crash");
            }
            SimEv::Error(e) => return Some(Violation::new("SimError", format!("in-Sim host program failed: {e}"))),
            SimEv::RejectedWhileParked { woke, reaped, valid: true } => {
                log.ev(format!("sim parked in readable(), another task submitted a valid fsync: woke={woke} reaped={reaped:?}"));
                log.tag("parked-valid");
                rep.probes.inc("in_sim_parked_reader_woken_by_a_sibling_tasks_submission");
                if !*woke || !reaped.iter().any(|(ud, _)| *ud == 999_999) {
                    return Some(Violation::new("LostCompletion", format!("in-Sim: a task parked in AsyncFd::readable() on an idle ring was not woken by the completion of an fsync that another task submitted, within its max latency + 9 ticks (woke={woke}, reaped={reaped:?})")));
                }
            }
            SimEv::RejectedWhileParked { woke, reaped, .. } => {
                log.ev(format!("sim parked in readable(), another task submitted an entry with an unsupported flag: woke={woke} reaped={reaped:?}"));
                log.tag("parked");
                rep.probes.inc("in_sim_parked_reader_woken_by_rejected_submission");
                if !*woke || reaped.is_empty() {
                    return Some(Violation::new("LostCompletion", format!("in-Sim: a task parked in AsyncFd::readable() on an idle ring was not woken within 6 ticks by the immediate completion of an entry with an unsupported flag submitted by another task (woke={woke}, reaped={reaped:?})")));
                }
                if reaped != &[(999_999u64, EINVAL)] {
                    return Some(Violation::new("CqeResult", format!("in-Sim: the entry with an unsupported flag completed as {reaped:?}, expected one CQE (999999, -EINVAL)")));
                }
            }
            SimEv::LeftEarly => {
                log.ev("sim host software returned with its submissions in flight");
                log.tag("left");
                rep.probes.inc("in_sim_software_finished_with_ops_in_flight");
            }
            SimEv::Restarted { stale_cqes, content } => {
                log.ev(format!("sim restarted: stale={stale_cqes} content={:?}", content.as_ref().map(|c| c.len())));
                if *stale_cqes != 0 {
                    return Some(Violation::new("CompletionAfterCrash", format!("in-Sim: the restarted host sees {stale_cqes} completions (fresh ring + the ring handle from before the crash)")));
                }
                let exp = match model.read_whole("/f0") {
                    Obs::Bytes(b) => Some(b),
                    _ => None,
                };
                if *content != exp {
                    return Some(Violation::new("EffectAfterCrash", format!("in-Sim: after Sim::crash + bounce /f0 holds {:?}, its durable image is {:?}", content.as_ref().map(|b| &b[..b.len().min(24)]), exp.as_ref().map(|b| &b[..b.len().min(24)]))));
                }
                finished = true;
            }
            SimEv::Finished { content } => {
                let exp = match model.read_whole("/f0") {
                    Obs::Bytes(b) => Some(b),
                    _ => None,
                };
                if *content != exp {
                    return Some(Violation::new("FinalContent", format!("in-Sim: /f0 reads {:?}, the reference holds {:?}", content.as_ref().map(|b| &b[..b.len().min(24)]), exp.as_ref().map(|b| &b[..b.len().min(24)]))));
                }
                if !outstanding.is_empty() {
                    return Some(Violation::new("LostCompletion", format!("in-Sim: program finished with {} submissions never completed", outstanding.len())));
                }
                finished = true;
            }
        }
    }
    if !finished {
        return Some(Violation::new("LostCompletion", format!("in-Sim: the host program did not finish reaping its {} submissions within {max_steps} steps (AsyncFd::readable never resolved?)", pushes.len())));
    }
    rep.probes.inc("in_sim_asyncfd_run");
    rep.nontrivial = pushes.len() >= 3 && crashed;
    None
}
