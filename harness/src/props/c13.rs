//! C13 — turmoil-net connections open, close and are reclaimed like TCP.
//!
//! A scenario is a timeline of application actions (connect / cancel-connect / accept / write /
//! read / shutdown / drop on both ends, listener drop) placed at wire rounds, plus a fault plan
//! for the packets on the wire (drop / delay by index, reordering). After the timeline an epilogue
//! closes everything and checks reclamation through the `socket_counts` hook, then re-binds the
//! listener addresses and re-connects over the very same 4-tuples.

use crate::core::prng::Rng;
use crate::core::{self, Log, Property, Report, Tier, Violation};
use crate::wirekit2::table::{EPH_HI, EPH_LO};
use crate::wirekit2::{desc, ek, kind, parse_ip, ports, Driver, NetCfg, PktKind, WakeFlag};
use serde::{Deserialize, Serialize};
use std::future::Future;
use std::net::{IpAddr, SocketAddr};
use std::pin::Pin;
use std::task::Poll;
use turmoil_net::shim::tokio::net::{TcpListener, TcpStream, UdpSocket};
use turmoil_net::{NetstatState, Packet};

#[derive(Clone, Debug, Serialize, Deserialize, PartialEq)]
pub enum Act {
    /// start `TcpStream::connect` of connection `c`
    Connect { c: usize },
    /// drop the connect future of `c` if it is still pending
    Cancel { c: usize },
    /// the pending connect future of `c` moves to another task: it is polled again, with a new waker;
    /// the old waker is dropped (only the latest registration counts)
    Repoll { c: usize },
    /// start one blocking `accept` on listener `l` (stays armed until it yields)
    Accept { l: usize },
    /// `client`: the connecting end, else the accepted end (skipped while not yet accepted)
    Write { c: usize, client: bool, n: u16 },
    /// read whatever is buffered
    Read { c: usize, client: bool },
    Shutdown { c: usize, client: bool },
    Drop { c: usize, client: bool },
    DropListener { l: usize },
}

#[derive(Clone, Debug, Serialize, Deserialize, PartialEq)]
pub struct ConnSpec {
    /// connecting host
    pub from: usize,
    /// target listener (index into `listeners`), or None: a port nobody listens on
    pub to: Option<usize>,
    /// which address of the server host (beyond the list: loopback, only for from == server host)
    pub sel: u8,
}

#[derive(Clone, Debug, Serialize, Deserialize, PartialEq)]
pub struct ListenerSpec {
    /// "0.0.0.0" / "::" / a specific address of host 0
    pub ip: String,
    pub port: u16,
}

#[derive(Clone, Copy, Debug, Serialize, Deserialize, PartialEq)]
pub enum FaultKind {
    Drop,
    Delay(u8),
}

#[derive(Clone, Debug, Serialize, Deserialize, PartialEq)]
pub struct Fault {
    /// index of the packet in wire (egress) order
    pub idx: u32,
    pub kind: FaultKind,
}

#[derive(Clone, Debug, Serialize, Deserialize)]
pub struct Scenario {
    /// true = the trigger of `wildcard-listener-backlog-per-address` (fixed, f6c7a1b) is avoided:
    /// every wildcard listener is connected to under one destination address only. No longer
    /// generated; kept so that recorded replay files parse and behave as recorded
    #[serde(default)]
    pub guarded: bool,
    pub cfg: NetCfg,
    /// host 0 is the server host
    pub hosts: Vec<Vec<String>>,
    pub listeners: Vec<ListenerSpec>,
    pub conns: Vec<ConnSpec>,
    /// (round, action), sorted by round
    pub timeline: Vec<(u32, Act)>,
    pub faults: Vec<Fault>,
    /// deliver the due packets of a round in reverse order
    pub reorder: bool,
    /// epilogue part 2: re-bind the listener addresses and re-connect over the same 4-tuples
    pub reuse: bool,
    /// skip the socket_counts checkpoints (hand-written scenarios that show what a leaked entry
    /// does to later binds and connects); never generated
    #[serde(default)]
    pub no_count_check: bool,
    /// every `Accept` action is a task of its own (own waker) parked in accept() on the listener, instead
    /// of one more accept() call of the listener's single acceptor task
    #[serde(default)]
    pub acceptor_tasks: bool,
    /// Some((from, to)): every packet leaving the server host in wire rounds from..to is lost (far beyond
    /// any retransmit budget: handshakes time out on both ends). Connect outcomes are not judged in such
    /// a run; reclamation is.
    #[serde(default)]
    pub blackhole: Option<(u32, u32)>,
}

pub struct C13;

/// Let go of a stream: as a whole (0), as owned halves of which the write half is `forget`-ed (no shutdown on
/// its own) and the read half dropped (1), or after into_split + reunite (2).
fn drop_stream(s: TcpStream, flavour: usize) {
    match flavour {
        1 => {
            let (r, w) = s.into_split();
            w.forget();
            drop(r);
        }
        2 => {
            let (r, w) = s.into_split();
            match r.reunite(w) {
                Ok(s) => drop(s),
                Err(e) => drop(e),
            }
        }
        _ => drop(s),
    }
}

pub const KF_O8: &str = "synreceived-child-never-reaped";
pub const KF_FW2: &str = "orphan-finwait2-after-lost-rst";
pub const KF_O7C: &str = "lost-handshake-ack-not-recovered";
pub const KF_WBL: &str = "wildcard-listener-backlog-per-address";

type ConnFut = Pin<Box<dyn Future<Output = std::io::Result<TcpStream>>>>;

#[derive(Default)]
struct CState {
    target: Option<SocketAddr>,
    started: Option<u64>,
    fut: Option<ConnFut>,
    flag: Option<WakeFlag>,
    /// Ok / error kind, and the round it was observed
    result: Option<(String, u64)>,
    cancelled: Option<u64>,
    client: Option<TcpStream>,
    client_local: Option<SocketAddr>,
    /// source of this attempt's SYN as seen on the wire
    wire_src: Option<SocketAddr>,
    syn_delivered_listening: bool,
    server: Option<TcpStream>,
    accepted_round: Option<u64>,
    client_closed: bool,
    server_closed: bool,
}

struct LState {
    addr: SocketAddr,
    sock: Option<TcpListener>,
    armed: usize,
    flag: WakeFlag,
    /// acceptor tasks of their own (Scenario::acceptor_tasks), in arming order
    tasks: Vec<WakeFlag>,
    dropped_at: Option<u64>,
    bound: bool,
}

struct Sim<'a> {
    sc: &'a Scenario,
    d: Driver,
    log: Log,
    rep: Report,
    v: Option<Violation>,
    herr: Option<String>,
    cs: Vec<CState>,
    ls: Vec<LState>,
    /// accepted streams nobody could be matched to (kept so that they are closed properly)
    strays: Vec<TcpStream>,
    inflight: Vec<(u64, u64, Packet)>,
    round: u64,
    pkt_idx: u32,
    last_fault_round: u64,
    wire_pkts: u32,
    nontrivial: bool,
    aborted_handshake: bool,
    udp_keep: Vec<UdpSocket>,
    /// client->server 4-tuples whose handshake ACK (first pure ACK) already passed the wire
    handshake_acked: Vec<(SocketAddr, SocketAddr)>,
}

fn q_rounds(cfg: &NetCfg) -> u64 {
    cfg.retx_threshold as u64 * (cfg.retx_max as u64 + 2)
}

impl<'a> Sim<'a> {
    fn fail(&mut self, class: &str, msg: String) {
        if self.v.is_none() {
            self.log.ev(format!("VIOLATION {class}: {msg}"));
            self.v = Some(Violation::new(class, msg));
        }
    }
    fn stopped(&self) -> bool {
        self.v.is_some() || self.herr.is_some()
    }
    fn note(&mut self, s: impl FnOnce() -> String) {
        if self.log.keep && self.log.lines.len() < 4000 {
            let s = s();
            self.log.lines.push(format!("        {s}"));
        }
    }

    fn target_of(&self, c: usize) -> Option<SocketAddr> {
        static_target(self.sc, c)
    }

    fn can_reach(&self, from: usize, dst: IpAddr) -> bool {
        dst.is_loopback() || self.d.addrs[from].iter().any(|a| a.is_ipv4() == dst.is_ipv4())
    }

    /// Which listener (index) does the model say is bound for `dst` right now?
    fn listening_at(&self, dst: SocketAddr) -> Option<usize> {
        self.ls.iter().position(|l| l.bound && l.addr.port() == dst.port() && l.addr.is_ipv4() == dst.is_ipv4() && (l.addr.ip() == dst.ip() || l.addr.ip().is_unspecified()))
    }

    /// State of the socket `local -> remote` on the host owning `local`, as netstat shows it.
    fn state_of(&self, host: usize, local: SocketAddr, remote: SocketAddr) -> Option<NetstatState> {
        let ip = self.d.addrs[host][0];
        let ns = turmoil_net::netstat(ip);
        ns.entries.iter().find(|e| e.local == local && e.peer == Some(remote)).and_then(|e| e.state)
    }

    fn peer_state_probe(&mut self, c: usize, client_acts: bool, what: &str) {
        let (Some(cl), Some(t)) = (self.cs[c].client_local.or(self.cs[c].wire_src), self.cs[c].target) else { return };
        let from = self.sc.conns[c].from;
        let st = if client_acts { self.state_of(0, t, cl) } else { self.state_of(from, cl, t) };
        let name = match st {
            Some(s) => format!("{s:?}"),
            None => "Gone".to_string(),
        };
        if !matches!(st, Some(NetstatState::Established)) {
            self.nontrivial = true;
        }
        self.rep.probes.inc(&format!("{what}_while_peer_{name}"));
        self.log.tag(&format!("{what}/{name}"));
    }

    // ------------------------------------------------------------------------------------------

    fn act(&mut self, a: &Act) {
        match a {
            Act::Connect { c } => {
                let c = *c;
                if self.cs[c].started.is_some() {
                    return;
                }
                let Some(t) = self.target_of(c) else { return };
                let from = self.sc.conns[c].from;
                if !self.can_reach(from, t.ip()) {
                    return;
                }
                self.cs[c].target = Some(t);
                self.cs[c].started = Some(self.round);
                self.cs[c].fut = Some(Box::pin(TcpStream::connect(t)));
                self.cs[c].flag = Some(WakeFlag::new());
                self.log.ev(format!("r{} c{c}: connect h{from} -> {t}", self.round));
                self.log.tag("connect");
                self.poll_connect(c);
            }
            Act::Cancel { c } => {
                let c = *c;
                if self.cs[c].fut.is_some() && self.cs[c].result.is_none() {
                    self.peer_state_probe(c, true, "cancel");
                    let from = self.sc.conns[c].from;
                    let f = self.cs[c].fut.take();
                    self.d.on(from, || drop(f));
                    self.cs[c].cancelled = Some(self.round);
                    self.cs[c].client_closed = true;
                    self.log.ev(format!("r{} c{c}: connect cancelled", self.round));
                    self.rep.faults.inc("connect_cancelled");
                    if self.cs[c].target.map(|t| self.listening_at(t).is_some()).unwrap_or(false) {
                        self.rep.faults.inc("connect_cancelled_to_live_listener");
                    }
                }
            }
            Act::Repoll { c } => {
                let c = *c;
                if self.cs[c].fut.is_some() && self.cs[c].result.is_none() {
                    self.cs[c].flag = Some(WakeFlag::new());
                    self.log.ev(format!("r{} c{c}: pending connect polled again with a new waker", self.round));
                    self.rep.probes.inc("pending_connect_repolled_with_a_new_waker");
                    self.poll_connect(c);
                }
            }
            Act::Accept { l } => {
                if self.ls[*l].sock.is_some() && self.sc.acceptor_tasks {
                    self.ls[*l].tasks.push(WakeFlag::new());
                    if self.ls[*l].tasks.len() >= 2 {
                        self.rep.probes.inc("two_acceptor_tasks_parked_on_one_listener");
                    }
                    self.log.ev(format!("r{} l{l}: acceptor task parked in accept", self.round));
                    self.poll_accepts();
                } else if self.ls[*l].sock.is_some() {
                    self.ls[*l].armed += 1;
                    self.ls[*l].flag.set();
                    self.log.ev(format!("r{} l{l}: accept armed", self.round));
                    self.poll_accepts();
                }
            }
            Act::Write { c, client, n } => {
                let from = self.sc.conns[*c].from;
                let (h, s) = if *client { (from, self.cs[*c].client.as_ref()) } else { (0, self.cs[*c].server.as_ref()) };
                let Some(s) = s else { return };
                let data: Vec<u8> = (0..*n).map(|i| (i % 251) as u8).collect();
                let r = self.d.on(h, || s.try_write(&data));
                self.log.ev(format!("r{} c{c}: {} write {n} -> {:?}", self.round, side(*client), r.map_err(|e| e.kind())));
                self.log.tag("write");
            }
            Act::Read { c, client } => {
                let from = self.sc.conns[*c].from;
                let (h, s) = if *client { (from, self.cs[*c].client.as_ref()) } else { (0, self.cs[*c].server.as_ref()) };
                let Some(s) = s else { return };
                let mut total = 0;
                let mut last = String::new();
                let mut b = [0u8; 256];
                for _ in 0..64 {
                    match self.d.on(h, || s.try_read(&mut b)) {
                        Ok(0) => {
                            last = "EOF".into();
                            break;
                        }
                        Ok(n) => total += n,
                        Err(e) => {
                            last = ek(&e);
                            break;
                        }
                    }
                }
                self.log.ev(format!("r{} c{c}: {} read {total} then {last}", self.round, side(*client)));
                self.log.tag("read");
            }
            Act::Shutdown { c, client } => {
                let from = self.sc.conns[*c].from;
                let (h, s) = if *client { (from, self.cs[*c].client.as_mut()) } else { (0, self.cs[*c].server.as_mut()) };
                let Some(s) = s else { return };
                let r = self.d.with_cx(h, std::task::Waker::noop(), |cx| tokio::io::AsyncWrite::poll_shutdown(Pin::new(s), cx));
                let r = match r {
                    Poll::Ready(r) => format!("{:?}", r.map_err(|e| e.kind())),
                    Poll::Pending => "Pending".into(),
                };
                self.log.ev(format!("r{} c{c}: {} shutdown -> {r}", self.round, side(*client)));
                self.peer_state_probe(*c, *client, "shutdown");
            }
            Act::Drop { c, client } => self.drop_end(*c, *client, "drop"),
            Act::DropListener { l } => {
                if let Some(s) = self.ls[*l].sock.take() {
                    self.d.on(0, || drop(s));
                    self.ls[*l].bound = false;
                    self.ls[*l].armed = 0;
                    self.ls[*l].tasks.clear();
                    self.ls[*l].dropped_at = Some(self.round);
                    self.log.ev(format!("r{} l{l}: listener dropped", self.round));
                    self.log.tag("droplistener");
                    self.rep.faults.inc("listener_dropped");
                    // connections still waiting in its queue are gone with it
                    for c in 0..self.cs.len() {
                        if self.sc.conns[c].to == Some(*l) && self.cs[c].started.is_some() && self.cs[c].accepted_round.is_none() {
                            self.rep.probes.inc("listener_dropped_with_unaccepted_connection");
                            self.nontrivial = true;
                            if self.cs[c].fut.is_some() && self.cs[c].result.is_none() {
                                self.rep.probes.inc("listener_dropped_while_connector_SynSent");
                            }
                        }
                    }
                }
            }
        }
    }

    fn drop_end(&mut self, c: usize, client: bool, what: &str) {
        let from = self.sc.conns[c].from;
        if client {
            if let Some(s) = self.cs[c].client.take() {
                self.peer_state_probe(c, true, what);
                // three ways to let go of the same stream object, none of which keeps anything
                let flavour = (c + self.round as usize) % 3;
                self.d.on(from, || drop_stream(s, flavour));
                self.rep.probes.inc(["client_dropped_whole", "client_dropped_as_forgotten_write_half_then_read_half", "client_dropped_after_split_and_reunite"][flavour]);
                self.cs[c].client_closed = true;
                self.log.ev(format!("r{} c{c}: client dropped", self.round));
                self.log.tag("cdrop");
            }
        } else if let Some(s) = self.cs[c].server.take() {
            self.peer_state_probe(c, false, what);
            let flavour = (c + 1 + self.round as usize) % 3;
            self.d.on(0, || drop_stream(s, flavour));
            self.cs[c].server_closed = true;
            self.log.ev(format!("r{} c{c}: accepted end dropped", self.round));
            self.log.tag("sdrop");
        }
    }

    fn poll_connect(&mut self, c: usize) {
        let from = self.sc.conns[c].from;
        let r = {
            let st = &mut self.cs[c];
            let (Some(f), Some(flag)) = (st.fut.as_mut(), st.flag.as_ref()) else { return };
            if !flag.take() {
                return;
            }
            match self.d.poll_fut(from, &flag.waker, f.as_mut()) {
                Poll::Ready(r) => r,
                Poll::Pending => return,
            }
        };
        let f = self.cs[c].fut.take();
        self.d.on(from, || drop(f));
        let k = match r {
            Ok(s) => {
                let la = self.d.on(from, || s.local_addr()).ok();
                let pa = self.d.on(from, || s.peer_addr()).ok();
                self.cs[c].client_local = la;
                self.cs[c].client = Some(s);
                if pa != self.cs[c].target {
                    let t = self.cs[c].target;
                    self.fail("AddressMismatch", format!("c{c}: connected stream says peer {pa:?}, connect went to {t:?}"));
                    return;
                }
                "Ok".to_string()
            }
            Err(e) => {
                self.cs[c].client_closed = true;
                ek(&e)
            }
        };
        self.cs[c].result = Some((k.clone(), self.round));
        self.log.ev(format!("r{} c{c}: connect -> {k}", self.round));
        self.log.tag(&format!("connect-{k}"));
    }

    fn poll_accepts(&mut self) {
        for l in 0..self.ls.len() {
            // acceptor tasks of their own: each is polled only when its own waker was woken
            let mut i = 0;
            while i < self.ls[l].tasks.len() && self.ls[l].sock.is_some() {
                if !self.ls[l].tasks[i].take() {
                    i += 1;
                    continue;
                }
                let r = {
                    let ll = &self.ls[l];
                    self.d.with_cx(0, &ll.tasks[i].waker, |cx| ll.sock.as_ref().unwrap().poll_accept(cx))
                };
                match r {
                    Poll::Ready(Ok((s, peer))) => {
                        // the task goes on to serve its connection: it does not park again
                        self.ls[l].tasks.remove(i);
                        self.accepted(l, s, peer);
                        if self.stopped() {
                            return;
                        }
                    }
                    Poll::Ready(Err(e)) => {
                        self.ls[l].tasks.remove(i);
                        self.log.ev(format!("r{} l{l}: accept -> {}", self.round, ek(&e)));
                    }
                    Poll::Pending => i += 1,
                }
            }
            while self.ls[l].armed > 0 && self.ls[l].sock.is_some() {
                if !self.ls[l].flag.take() {
                    break;
                }
                let r = {
                    let ll = &self.ls[l];
                    self.d.with_cx(0, &ll.flag.waker, |cx| ll.sock.as_ref().unwrap().poll_accept(cx))
                };
                match r {
                    Poll::Ready(Ok((s, peer))) => {
                        self.ls[l].armed -= 1;
                        self.ls[l].flag.set();
                        self.accepted(l, s, peer);
                        if self.stopped() {
                            return;
                        }
                    }
                    Poll::Ready(Err(e)) => {
                        self.ls[l].armed -= 1;
                        self.log.ev(format!("r{} l{l}: accept -> {}", self.round, ek(&e)));
                    }
                    Poll::Pending => break,
                }
            }
        }
    }

    /// Oracle (b): every stream handed out belongs to exactly one connection attempt made to this
    /// listener, with mirrored addresses.
    fn accepted(&mut self, l: usize, s: TcpStream, peer: SocketAddr) {
        let (la, pa) = self.d.on(0, || (s.local_addr().ok(), s.peer_addr().ok()));
        let r = self.round;
        let known = |me: &Self| {
            (0..me.cs.len()).find(|&c| {
                let st = &me.cs[c];
                st.started.is_some() && st.accepted_round.is_none() && me.sc.conns[c].to == Some(l) && st.target == la && (st.client_local == Some(peer) || (st.client_local.is_none() && st.wire_src == Some(peer)))
            })
        };
        let mut cand = known(self);
        if cand.is_none() {
            // a connector on the server host itself whose future was not polled since the handshake
            // finished: let it run now so that its address is known
            for c in 0..self.cs.len() {
                if self.sc.conns[c].from == 0 && self.cs[c].fut.is_some() {
                    self.poll_connect(c);
                }
            }
            cand = known(self);
        }
        // an attempt from the server host that was given up before the harness could learn its address
        let cand = cand.or_else(|| {
            (0..self.cs.len()).find(|&c| {
                let st = &self.cs[c];
                st.started.is_some() && st.accepted_round.is_none() && self.sc.conns[c].to == Some(l) && st.target == la && st.client_local.is_none() && st.wire_src.is_none() && self.sc.conns[c].from == 0 && (st.cancelled.is_some() || st.result.is_some())
            })
        });
        let Some(c) = cand else {
            let twice = (0..self.cs.len()).any(|c| self.cs[c].accepted_round.is_some() && self.sc.conns[c].to == Some(l) && (self.cs[c].client_local == Some(peer) || self.cs[c].wire_src == Some(peer)));
            self.strays.push(s);
            if twice {
                self.fail("AcceptedTwice", format!("r{r} l{l}: accept handed out a second stream for the connection from {peer}"));
            } else {
                self.fail("AcceptUnknown", format!("r{r} l{l}: accept handed out a stream (local {la:?}, peer {peer}) that matches no connection attempt made to this listener"));
            }
            return;
        };
        self.log.ev(format!("r{r} l{l}: accept -> c{c} peer {peer}"));
        self.log.tag("accept");
        self.cs[c].accepted_round = Some(r);
        let t = self.cs[c].target;
        self.cs[c].server = Some(s);
        if pa != Some(peer) || la != t {
            self.fail("AddressMismatch", format!("r{r} c{c}: accepted stream has local {la:?} / peer {pa:?} (accept returned {peer}); the connect went to {t:?}"));
            return;
        }
        if self.cs[c].result.as_ref().map(|x| x.0.as_str()) != Some("Ok") {
            // handed out although the connector never saw it succeed: only legitimate for a
            // connector that gave up (cancelled) or is still waiting for the SYN-ACK
            if self.cs[c].cancelled.is_some() {
                self.rep.probes.inc("accepted_after_connector_cancelled");
            }
        }
        if self.cs[c].client_closed {
            self.rep.probes.inc("accepted_after_client_closed");
            self.nontrivial = true;
        }
    }

    // ------------------------------------------------------------------------------------------
    // the wire

    fn fate(&self, idx: u32) -> Option<FaultKind> {
        // the re-use epilogue runs on a clean wire
        if self.wire_pkts > 0 && idx >= self.wire_pkts {
            return None;
        }
        self.sc.faults.iter().find(|f| f.idx == idx).map(|f| f.kind)
    }

    fn observe_wire(&mut self, p: &Packet) {
        if kind(p) == PktKind::Syn {
            let (sp, dp) = ports(p);
            let src = SocketAddr::new(p.src, sp);
            let dst = SocketAddr::new(p.dst, dp);
            if self.cs.iter().any(|c| c.wire_src == Some(src) && c.target == Some(dst)) {
                return;
            }
            let owner = self.d.owner(p.src);
            if let Some(c) = (0..self.cs.len()).find(|&c| self.cs[c].started.is_some() && self.cs[c].wire_src.is_none() && self.cs[c].target == Some(dst) && Some(self.sc.conns[c].from) == owner && self.cs[c].client_local.map(|a| a == src).unwrap_or(true)) {
                self.cs[c].wire_src = Some(src);
            }
        }
    }

    fn deliver(&mut self, p: Packet) {
        if kind(&p) == PktKind::Syn {
            let (sp, dp) = ports(&p);
            let dst = SocketAddr::new(p.dst, dp);
            let src = SocketAddr::new(p.src, sp);
            if let Some(l) = self.listening_at(dst) {
                if let Some(c) = self.cs.iter_mut().find(|c| c.wire_src == Some(src) && c.target == Some(dst)) {
                    c.syn_delivered_listening = true;
                }
                // coverage probe (fault-free runs): does this SYN meet a listener whose backlog is
                // filled only by queued and still-handshaking connections *together*?
                if self.sc.faults.is_empty() && !self.sc.reorder {
                    let backlog = self.sc.cfg.backlog;
                    let ready = self.unaccepted_ok(l);
                    let lport = self.ls[l].addr.port();
                    let ns = turmoil_net::netstat(self.d.addrs[0][0]);
                    let handshaking = ns.entries.iter().filter(|e| e.local.port() == lport && e.state == Some(NetstatState::SynReceived) && e.peer != Some(src)).count();
                    if ready > 0 && ready < backlog && handshaking > 0 && handshaking < backlog && ready + handshaking >= backlog {
                        self.rep.probes.inc("syn_met_backlog_filled_by_queued_plus_handshaking");
                    }
                    if ready >= backlog {
                        self.rep.probes.inc("syn_met_full_accept_queue");
                    }
                }
            }
        }
        self.d.deliver(p);
    }

    /// Connections to listener `l` that their connector saw established and that nobody accepted yet.
    fn unaccepted_ok(&self, l: usize) -> usize {
        (0..self.cs.len()).filter(|&c| self.sc.conns[c].to == Some(l) && self.cs[c].accepted_round.is_none() && self.cs[c].result.as_ref().map(|r| r.0 == "Ok").unwrap_or(false)).count()
    }

    /// Fault-free runs: a connector only sees `Ok` after the listener admitted its SYN, and an
    /// admitted connection occupies the backlog until it is accepted; so the connections that are
    /// established for their connector and not yet accepted can never outnumber the backlog.
    fn check_backlog_invariant(&mut self) {
        if !self.sc.faults.is_empty() || self.sc.reorder {
            return;
        }
        for l in 0..self.ls.len() {
            if !self.ls[l].bound {
                continue;
            }
            let n = self.unaccepted_ok(l);
            if n > self.sc.cfg.backlog {
                let who: Vec<usize> = (0..self.cs.len()).filter(|&c| self.sc.conns[c].to == Some(l) && self.cs[c].accepted_round.is_none() && self.cs[c].result.as_ref().map(|r| r.0 == "Ok").unwrap_or(false)).collect();
                self.fail("BacklogExceeded", format!("r{}: {n} connections to listener l{l} (c{who:?}) are established for their connectors and not yet accepted, the backlog is {}: a connect succeeded without backlog room", self.round, self.sc.cfg.backlog));
                return;
            }
        }
    }

    /// One round: poll what was woken, egress, apply fates, deliver what is due. Returns true
    /// when nothing was on the wire.
    fn wire_round(&mut self) -> bool {
        for c in 0..self.cs.len() {
            self.poll_connect(c);
        }
        self.check_backlog_invariant();
        self.poll_accepts();
        self.round += 1;
        let mut out = Vec::new();
        self.d.egress(&mut out);
        let fresh = out.len();
        for p in out {
            let idx = self.pkt_idx;
            self.pkt_idx += 1;
            self.observe_wire(&p);
            let mut f = self.fate(idx);
            if let Some((a, b)) = self.sc.blackhole {
                if self.round >= a as u64 && self.round < b as u64 && self.sc.hosts[0].iter().any(|ip| parse_ip(ip) == p.src) {
                    f = Some(FaultKind::Drop);
                    self.rep.faults.inc("blackhole_drop");
                }
            }
            self.note(|| format!("wire #{idx} {}{}", desc(&p), f.map(|f| format!("  <= {f:?}")).unwrap_or_default()));
            // the first pure ACK of a client->server 4-tuple is the handshake ACK (coverage probe)
            if kind(&p) == PktKind::Ack {
                let (sp, dp) = ports(&p);
                let tuple = (SocketAddr::new(p.src, sp), SocketAddr::new(p.dst, dp));
                let is_client = self.cs.iter().any(|c| c.target == Some(tuple.1) && (c.wire_src == Some(tuple.0) || c.client_local == Some(tuple.0)));
                if is_client && !self.handshake_acked.contains(&tuple) {
                    self.handshake_acked.push(tuple);
                    if f == Some(FaultKind::Drop) {
                        self.rep.probes.inc("handshake_ack_dropped");
                    }
                }
            }
            match f {
                Some(FaultKind::Drop) => {
                    self.rep.faults.inc(&format!("drop_{}", kind(&p).name()));
                    self.last_fault_round = self.round;
                }
                Some(FaultKind::Delay(k)) => {
                    self.rep.faults.inc(&format!("delay_{}", kind(&p).name()));
                    self.last_fault_round = self.round + k as u64;
                    self.inflight.push((self.round + k as u64, idx as u64, p));
                }
                None => self.inflight.push((self.round, idx as u64, p)),
            }
        }
        let mut due: Vec<(u64, u64, Packet)> = Vec::new();
        let mut rest = Vec::new();
        for e in self.inflight.drain(..) {
            if e.0 <= self.round {
                due.push(e);
            } else {
                rest.push(e);
            }
        }
        self.inflight = rest;
        due.sort_by_key(|e| (e.0, e.1));
        if self.sc.reorder && due.len() > 1 {
            due.reverse();
            self.rep.faults.inc("reordered_round");
        }
        for (_, _, p) in due {
            self.deliver(p);
        }
        self.rep.steps += 1;
        fresh == 0 && self.inflight.is_empty()
    }

    /// Run until the wire has been empty for `q` consecutive rounds.
    fn quiesce(&mut self, q: u64, drain_accepts: bool) -> bool {
        let mut quiet = 0;
        for _ in 0..(8 * q + 40) {
            let empty = self.wire_round();
            if drain_accepts {
                self.drain_listeners();
                for c in 0..self.cs.len() {
                    if self.cs[c].server.is_some() {
                        self.drop_end(c, false, "drop");
                    }
                }
            }
            if self.stopped() {
                return false;
            }
            if empty {
                quiet += 1;
                if quiet >= q {
                    return true;
                }
            } else {
                quiet = 0;
            }
        }
        false
    }

    /// Accept everything that is ready on every live listener and close it at once.
    fn drain_listeners(&mut self) {
        for l in 0..self.ls.len() {
            loop {
                let r = {
                    let ll = &self.ls[l];
                    let Some(s) = ll.sock.as_ref() else { break };
                    self.d.with_cx(0, std::task::Waker::noop(), |cx| s.poll_accept(cx))
                };
                match r {
                    Poll::Ready(Ok((s, peer))) => {
                        self.accepted(l, s, peer);
                        if self.stopped() {
                            return;
                        }
                        for c in 0..self.cs.len() {
                            if self.cs[c].server.is_some() {
                                self.drop_end(c, false, "drop");
                            }
                        }
                        self.rep.probes.inc("accepted_in_epilogue");
                    }
                    _ => break,
                }
            }
        }
    }

    fn check_counts(&mut self, label: &str) {
        if self.sc.no_count_check {
            return;
        }
        for h in 0..self.d.hosts.len() {
            let (s, b, c) = self.d.counts(h);
            let listeners = if h == 0 { self.ls.iter().filter(|l| l.sock.is_some()).count() } else { 0 };
            let udp = if h == 0 { 0 } else { 0 };
            let want = (listeners + udp, listeners + udp, 0usize);
            self.log.ev(format!("{label}: h{h} socket table holds {s} sockets, {b} bindings, {c} connection entries (application owns {listeners} listeners, no streams)"));
            if (s, b, c) != want {
                // diagnosis only (never the verdict): which TCP states do the left-over entries have?
                let dump = turmoil_net::verif::debug_dump(self.d.hosts[h]);
                let mut states: Vec<String> = dump.split("state: ").skip(1).map(|x| x.chars().take_while(|c| c.is_alphanumeric()).collect::<String>()).collect();
                states.sort();
                states.dedup();
                let flags = format!("{}{}", if dump.contains("reset: true") { " reset" } else { "" }, if dump.contains("timed_out: true") { " timed_out" } else { "" });
                // "aborted handshake": on the server host, only Closed entries that the application never owned
                let class = if h == 0 && states == ["Closed"] && !dump.contains("fd_closed: true") { "LeakAbortedHandshake".to_string() } else { format!("Leak{}", states.join("")) };
                let dump = format!(" (left-over TCP states: {states:?}{flags})");
                self.fail(&class, format!("{label}: every connection was closed on both ends and the wire stayed empty for {} rounds, yet h{h}'s socket table holds {s} sockets / {b} bindings / {c} connection-index entries; the application owns {} sockets, {} bindings, 0 connections{dump}", q_rounds(&self.sc.cfg), want.0, want.1));
                return;
            }
        }
        self.rep.probes.inc("reclamation_checkpoints_passed");
    }
}

/// Destination of connection `c`, a pure function of the scenario.
fn static_target(sc: &Scenario, c: usize) -> Option<SocketAddr> {
    let spec = &sc.conns[c];
    let srv: Vec<IpAddr> = sc.hosts[0].iter().map(|a| parse_ip(a)).collect();
    match spec.to {
        Some(l) => {
            let lip = parse_ip(&sc.listeners[l].ip);
            let port = sc.listeners[l].port;
            let ip = if lip.is_unspecified() {
                // any address of the server host of the listener's family
                let fam: Vec<IpAddr> = srv.iter().copied().filter(|a| a.is_ipv4() == lip.is_ipv4()).collect();
                if spec.from == 0 && (spec.sel as usize) >= fam.len() || fam.is_empty() {
                    if spec.from != 0 {
                        return None;
                    }
                    if lip.is_ipv4() {
                        "127.0.0.1".parse().unwrap()
                    } else {
                        "::1".parse().unwrap()
                    }
                } else {
                    fam[spec.sel as usize % fam.len()]
                }
            } else {
                lip
            };
            Some(SocketAddr::new(ip, port))
        }
        None => {
            let ip = if (spec.sel as usize) < srv.len() {
                srv[spec.sel as usize]
            } else if spec.from == 0 {
                "127.0.0.1".parse().unwrap()
            } else {
                srv[0]
            };
            Some(SocketAddr::new(ip, 9999))
        }
    }
}

/// Known finding: a wildcard listener counts its half-open children per destination address, so
/// handshakes that are in flight towards *different* addresses of the host do not see each other
/// in the backlog. Trigger: a wildcard listener that is connected to under two or more addresses.
fn wildcard_multi_addr(sc: &Scenario) -> bool {
    (0..sc.listeners.len()).any(|l| {
        if !parse_ip(&sc.listeners[l].ip).is_unspecified() {
            return false;
        }
        let mut seen: Vec<IpAddr> = Vec::new();
        for (_, a) in &sc.timeline {
            if let Act::Connect { c } = a {
                if sc.conns[*c].to == Some(l) {
                    if let Some(t) = static_target(sc, *c) {
                        if !seen.contains(&t.ip()) {
                            seen.push(t.ip());
                        }
                    }
                }
            }
        }
        seen.len() >= 2
    })
}

fn side(client: bool) -> &'static str {
    if client {
        "client"
    } else {
        "accepted end"
    }
}

// ------------------------------------------------------------------------------------------------
// timeline, oracle (a), epilogue

fn other_listener_covers(sim: &Sim<'_>, dst: SocketAddr, from: u64, to: u64) -> bool {
    // some listener bound for `dst` at some instant of [from, to]
    sim.ls.iter().any(|l| l.addr.port() == dst.port() && l.addr.is_ipv4() == dst.is_ipv4() && (l.addr.ip() == dst.ip() || l.addr.ip().is_unspecified()) && l.dropped_at.map(|d| d > from).unwrap_or(true) && to >= from)
}

fn judge_connects(sim: &mut Sim<'_>) {
    if sim.sc.blackhole.is_some() {
        return;
    }
    let now = sim.round;
    let clean = sim.sc.faults.is_empty() && !sim.sc.reorder;
    for c in 0..sim.cs.len() {
        let st = &sim.cs[c];
        let (Some(start), Some(dst)) = (st.started, st.target) else { continue };
        if st.cancelled.is_some() {
            continue;
        }
        let res = st.result.clone();
        let end = res.as_ref().map(|r| r.1).unwrap_or(now);
        let kindr = res.as_ref().map(|r| r.0.clone()).unwrap_or_else(|| "Pending".into());
        let spec = &sim.sc.conns[c];
        let backlog = sim.sc.cfg.backlog;
        let covered = other_listener_covers(sim, dst, start, end);
        let mut verdict: Option<(&'static str, String)> = None;
        match spec.to {
            Some(l) if sim.ls[l].dropped_at.map(|d| d > end).unwrap_or(true) => {
                // listening during the whole attempt
                let others = (0..sim.cs.len())
                    // with packets delayed or lost a retransmitted / late SYN of an already accepted
                    // connection may still occupy a backlog slot as a half-open child: only in
                    // fault-free runs do accepted connections stop counting
                    .filter(|&j| j != c && sim.sc.conns[j].to == Some(l) && sim.cs[j].started.map(|s| s <= end).unwrap_or(false) && !(clean && sim.cs[j].accepted_round.map(|a| a < start).unwrap_or(false)))
                    .count();
                let occupants = (0..sim.cs.len())
                    .filter(|&j| {
                        j != c
                            && sim.sc.conns[j].to == Some(l)
                            && sim.cs[j].result.as_ref().map(|r| r.0 == "Ok" && r.1 < start).unwrap_or(false)
                            && sim.cs[j].accepted_round.map(|a| a > end).unwrap_or(true)
                    })
                    .count();
                if others < backlog {
                    if kindr != "Ok" {
                        let class = if kindr == "Pending" { "ConnectStall" } else { "ConnectFailed" };
                        verdict = Some((class, format!("c{c}: connect h{} -> {dst} started at r{start} gave {kindr} by r{end}; listener l{l} was bound the whole time and at most {others} other connections could occupy its backlog of {backlog}", spec.from)));
                    } else {
                        sim.rep.probes.inc("connect_ok_judged");
                    }
                } else if clean && occupants >= backlog {
                    if kindr == "Ok" {
                        verdict = Some(("BacklogExceeded", format!("c{c}: connect to {dst} succeeded although {occupants} established, un-accepted connections filled the backlog of {backlog} during the whole attempt")));
                    } else {
                        sim.rep.probes.inc("connect_blocked_by_full_backlog");
                    }
                } else {
                    // room that appears while the connector is still retransmitting its SYN: once the listener
                    // has handed out enough of the other connections (by round R), even all the remaining ones
                    // together leave a slot free from R on; a SYN that is (re)sent after R must get in
                    let t = sim.sc.cfg.retx_threshold as u64;
                    let last_syn = start + t * (sim.sc.cfg.retx_max as u64).saturating_sub(1);
                    let mut rs: Vec<u64> = (0..sim.cs.len()).filter(|&j| j != c && sim.sc.conns[j].to == Some(l)).filter_map(|j| sim.cs[j].accepted_round).collect();
                    rs.sort();
                    let room_from = rs.iter().copied().find(|&r| {
                        let left = (0..sim.cs.len())
                            .filter(|&j| j != c && sim.sc.conns[j].to == Some(l) && sim.cs[j].started.map(|s| s <= end).unwrap_or(false) && !sim.cs[j].accepted_round.map(|a| a <= r).unwrap_or(false))
                            .count();
                        left < backlog
                    });
                    match room_from {
                        Some(r) if clean && r + t + 2 <= last_syn => {
                            if kindr != "Ok" {
                                let class = if kindr == "Pending" { "ConnectStall" } else { "ConnectFailed" };
                                verdict = Some((class, format!("c{c}: connect h{} -> {dst} started at r{start} gave {kindr} by r{end}; listener l{l} was bound the whole time, its backlog of {backlog} had room for certain from r{r} on, and the connector's SYN is retransmitted every {t} rounds until r{last_syn}", spec.from)));
                            } else {
                                sim.rep.probes.inc("connect_ok_after_backlog_room_appeared");
                            }
                        }
                        _ => sim.rep.probes.inc("connect_backlog_uncertain_unjudged"),
                    }
                }
            }
            Some(l) if sim.ls[l].dropped_at.map(|d| d <= start).unwrap_or(false) && !covered => {
                if kindr != "ConnectionRefused" {
                    let class = if kindr == "Pending" { "ConnectStall" } else { "ConnectWrongResult" };
                    verdict = Some((class, format!("c{c}: connect to {dst} started at r{start} after listener l{l} had been dropped; result {kindr}, ConnectionRefused required")));
                } else {
                    sim.rep.probes.inc("connect_refused_judged");
                }
            }
            None if !covered => {
                if kindr != "ConnectionRefused" {
                    let class = if kindr == "Pending" { "ConnectStall" } else { "ConnectWrongResult" };
                    verdict = Some((class, format!("c{c}: connect to {dst} where nothing listens gave {kindr}, ConnectionRefused required")));
                } else {
                    sim.rep.probes.inc("connect_refused_judged");
                }
            }
            _ => {
                sim.rep.probes.inc("connect_listener_changed_unjudged");
                if kindr == "Ok" && !covered {
                    verdict = Some(("ConnectWrongResult", format!("c{c}: connect to {dst} succeeded although no listener was bound there at any time of the attempt")));
                }
            }
        }
        if let Some((cl, m)) = verdict {
            sim.fail(cl, m);
            return;
        }
    }
}

fn all_resolved(sim: &Sim<'_>) -> bool {
    sim.cs.iter().all(|c| c.started.is_none() || c.cancelled.is_some() || c.result.is_some())
}

fn next_port(p: u16) -> u16 {
    if p == EPH_HI {
        EPH_LO
    } else {
        p + 1
    }
}

/// Rotate host `h`'s ephemeral cursor so that the next allocation hands out `want`.
fn spin_to(sim: &mut Sim<'_>, h: usize, want: u16) -> bool {
    let wild: IpAddr = "0.0.0.0".parse().unwrap();
    for _ in 0..17_000 {
        let Some(Ok(u)) = sim.d.once(h, UdpSocket::bind((wild, 0))) else { return false };
        let p = sim.d.on(h, || u.local_addr()).map(|a| a.port()).unwrap_or(0);
        sim.d.on(h, || drop(u));
        if !(EPH_LO..=EPH_HI).contains(&p) {
            sim.fail("EphemeralOutOfRange", format!("a bind to port 0 on host {h} (one of the many that rotate the allocator once round its range) was given port {p}, outside {EPH_LO}..={EPH_HI}"));
            return false;
        }
        if next_port(p) == want {
            return true;
        }
    }
    false
}

fn reuse_phase(sim: &mut Sim<'_>) {
    let tag = "";
    // (d) the listener addresses can be bound again
    for l in 0..sim.ls.len() {
        let addr = sim.ls[l].addr;
        match sim.d.once(0, TcpListener::bind(addr)) {
            Some(Ok(s)) => {
                sim.ls[l].sock = Some(s);
                sim.ls[l].bound = true;
                sim.ls[l].dropped_at = None;
                sim.log.ev(format!("reuse: l{l} bound again at {addr}"));
                sim.rep.probes.inc("listener_rebound");
            }
            Some(Err(e)) => {
                sim.fail(&format!("RebindFailed{tag}"), format!("after every socket of the run was closed and reclaimed, binding a listener at {addr} again fails with {}", ek(&e)));
                return;
            }
            None => {
                sim.herr = Some("bind pending".into());
                return;
            }
        }
    }
    // ... and the same 4-tuples carry new connections
    let olds: Vec<(usize, SocketAddr, SocketAddr, usize)> = (0..sim.cs.len())
        .filter_map(|c| {
            let st = &sim.cs[c];
            let l = sim.sc.conns[c].to?;
            let src = st.client_local.or(st.wire_src)?;
            Some((sim.sc.conns[c].from, src, st.target?, l))
        })
        .take(2)
        .collect();
    for (h, src, dst, l) in olds {
        if h == 0 || src.ip().is_loopback() {
            continue;
        }
        if !spin_to(sim, h, src.port()) {
            sim.rep.probes.inc("reuse_port_not_lined_up");
            continue;
        }
        sim.rep.probes.inc("ephemeral_cursor_wrapped");
        let mut fut: Option<ConnFut> = Some(Box::pin(TcpStream::connect(dst)));
        let flag = WakeFlag::new();
        let mut res = None;
        let faults_off = sim.pkt_idx;
        let _ = faults_off;
        for _ in 0..(q_rounds(&sim.sc.cfg) + 8) {
            if flag.take() {
                if let Poll::Ready(r) = sim.d.poll_fut(h, &flag.waker, fut.as_mut().unwrap().as_mut()) {
                    res = Some(r);
                    break;
                }
            }
            sim.wire_round();
        }
        let f = fut.take();
        sim.d.on(h, || drop(f));
        let kindr = match &res {
            None => "Pending".to_string(),
            Some(Ok(_)) => "Ok".to_string(),
            Some(Err(e)) => ek(e),
        };
        sim.log.ev(format!("reuse: connect h{h} -> {dst} wanting source port {} : {kindr}", src.port()));
        let Some(Ok(st)) = res else {
            sim.fail(&format!("ReuseFailed{tag}"), format!("a new connect h{h} -> {dst} whose ephemeral port came round to {} again (the 4-tuple of an earlier, fully closed connection) gave {kindr}; listener l{l} is bound and idle", src.port()));
            return;
        };
        let la = sim.d.on(h, || st.local_addr()).ok();
        let lined_up = la == Some(src);
        // the accepted end
        let mut got = None;
        for _ in 0..(q_rounds(&sim.sc.cfg) + 4) {
            sim.wire_round();
            let r = {
                let ll = &sim.ls[l];
                sim.d.with_cx(0, std::task::Waker::noop(), |cx| ll.sock.as_ref().unwrap().poll_accept(cx))
            };
            if let Poll::Ready(Ok((s, peer))) = r {
                got = Some((s, peer));
                break;
            }
        }
        let ok = matches!(&got, Some((_, peer)) if Some(*peer) == la);
        if let Some((s, _)) = got {
            sim.d.on(0, || drop(s));
        }
        sim.d.on(h, || drop(st));
        if !ok {
            sim.fail(&format!("ReuseFailed{tag}"), format!("the re-made connection {la:?} -> {dst} (same 4-tuple as an earlier closed one: {lined_up}) was never handed out by accept on l{l}"));
            return;
        }
        if lined_up {
            sim.rep.probes.inc("four_tuple_reused");
        } else {
            sim.rep.probes.inc("reuse_port_not_lined_up");
        }
    }
    let q = q_rounds(&sim.sc.cfg);
    if !sim.quiesce(q, true) {
        return;
    }
    sim.check_counts("checkpoint C (after re-use)");
    if sim.stopped() {
        return;
    }
    for l in 0..sim.ls.len() {
        if let Some(s) = sim.ls[l].sock.take() {
            sim.d.on(0, || drop(s));
            sim.ls[l].bound = false;
        }
    }
    if !sim.quiesce(q, false) {
        return;
    }
    sim.check_counts("checkpoint D (end)");
}

fn execute(sim: &mut Sim<'_>) {
    let sc = sim.sc;
    for (l, spec) in sc.listeners.iter().enumerate() {
        let addr = SocketAddr::new(parse_ip(&spec.ip), spec.port);
        match sim.d.once(0, TcpListener::bind(addr)) {
            Some(Ok(s)) => {
                sim.ls.push(LState { addr, sock: Some(s), armed: 0, flag: WakeFlag::new(), tasks: Vec::new(), dropped_at: None, bound: true });
                sim.log.ev(format!("l{l}: listening at {addr} backlog {}", sc.cfg.backlog));
            }
            other => {
                sim.herr = Some(format!("initial bind of {addr} failed: {:?}", other.map(|r| r.map(|_| ()).map_err(|e| e.kind()))));
                return;
            }
        }
    }
    let last = sc.timeline.last().map(|t| t.0).unwrap_or(0);
    let mut ti = 0;
    for r in 0..=last {
        while ti < sc.timeline.len() && sc.timeline[ti].0 <= r {
            let a = sc.timeline[ti].1.clone();
            sim.act(&a);
            ti += 1;
            if sim.stopped() {
                return;
            }
        }
        sim.wire_round();
        if sim.stopped() {
            return;
        }
    }
    // grace: every connect that is still waiting gets the full retransmit budget after the last fault
    let q = q_rounds(&sc.cfg);
    let mut waited = 0;
    while !all_resolved(sim) && waited < q + 6 + sim.last_fault_round.saturating_sub(sim.round) {
        sim.wire_round();
        waited += 1;
        if sim.stopped() {
            return;
        }
    }
    for c in 0..sim.cs.len() {
        sim.poll_connect(c);
    }
    judge_connects(sim);
    if sim.stopped() {
        return;
    }
    // (b') a task parked in accept() is woken when a connection becomes ready: with no fault on the wire and
    // every connect resolved, a listener cannot have both a parked acceptor task and an established
    // connection nobody was handed
    if sc.faults.is_empty() && !sc.reorder && sc.blackhole.is_none() {
        sim.poll_accepts();
        for l in 0..sim.ls.len() {
            if sim.ls[l].sock.is_none() || sim.ls[l].tasks.is_empty() {
                continue;
            }
            for c in 0..sim.cs.len() {
                let st = &sim.cs[c];
                if sc.conns[c].to == Some(l) && st.result.as_ref().map(|r| r.0 == "Ok").unwrap_or(false) && st.accepted_round.is_none() && st.cancelled.is_none() && !st.client_closed && st.result.as_ref().unwrap().1 + 4 < sim.round {
                    let msg = format!("c{c}: connect to l{l} returned Ok at r{}, {} acceptor task(s) have been parked in accept() on l{l} ever since, none of them was woken (round {})", st.result.as_ref().unwrap().1, sim.ls[l].tasks.len(), sim.round);
                    sim.fail("AcceptNotWoken", msg);
                    return;
                }
            }
        }
    }
    // ---- epilogue 1: both ends of everything are closed; listeners accept-and-close what is queued
    sim.log.ev("epilogue: closing every connection end");
    for c in 0..sim.cs.len() {
        if sim.cs[c].fut.is_some() {
            sim.act(&Act::Cancel { c });
        }
        sim.drop_end(c, true, "drop");
        sim.drop_end(c, false, "drop");
    }
    let strays = std::mem::take(&mut sim.strays);
    sim.d.on(0, || drop(strays));
    sim.aborted_handshake = (0..sim.cs.len()).any(|c| {
        let st = &sim.cs[c];
        st.started.is_some() && sc.conns[c].to.is_some() && st.result.as_ref().map(|r| r.0 != "Ok").unwrap_or(true) && (st.syn_delivered_listening || sc.conns[c].from == 0)
    });
    if !sim.quiesce(q, true) {
        if !sim.stopped() {
            sim.fail("WireNeverQuiet", format!("after every connection end was closed the wire did not stay empty for {q} rounds within {} rounds", 8 * q + 40));
        }
        return;
    }
    // (b) completeness: a connection the connector saw established is handed out exactly once
    for c in 0..sim.cs.len() {
        let st = &sim.cs[c];
        let Some(l) = sc.conns[c].to else { continue };
        // (with a black hole beyond every retransmit budget the server end may have given up on a handshake
        // the connector saw completed)
        if sc.blackhole.is_none() && st.result.as_ref().map(|r| r.0 == "Ok").unwrap_or(false) && st.accepted_round.is_none() && sim.ls[l].sock.is_some() {
            let msg = format!("c{c}: connect {:?} -> {:?} returned Ok at r{}, listener l{l} stayed bound and accepted everything it was offered, yet this connection was never handed out", st.client_local, st.target, st.result.as_ref().unwrap().1);
            sim.fail("NotAccepted", msg);
            return;
        }
    }
    sim.check_counts("checkpoint A (connections closed, listeners alive)");
    if sim.stopped() {
        return;
    }
    for l in 0..sim.ls.len() {
        sim.act(&Act::DropListener { l });
    }
    if !sim.quiesce(q, false) {
        return;
    }
    sim.check_counts("checkpoint B (listeners dropped)");
    sim.wire_pkts = sim.pkt_idx;
    if sim.stopped() || !sc.reuse {
        return;
    }
    reuse_phase(sim);
}

fn run_inner(sc: &Scenario, keep: bool) -> (Report, u32) {
    let addrs: Vec<Vec<IpAddr>> = sc.hosts.iter().map(|h| h.iter().map(|a| parse_ip(a)).collect()).collect();
    let d = Driver::new(&addrs, &sc.cfg, |_| {});
    let mut sim = Sim {
        sc,
        d,
        log: Log::new(keep),
        rep: Report::default(),
        v: None,
        herr: None,
        cs: (0..sc.conns.len()).map(|_| CState::default()).collect(),
        ls: Vec::new(),
        strays: Vec::new(),
        inflight: Vec::new(),
        round: 0,
        pkt_idx: 0,
        last_fault_round: 0,
        wire_pkts: 0,
        nontrivial: false,
        aborted_handshake: false,
        udp_keep: Vec::new(),
        handshake_acked: Vec::new(),
    };
    if wildcard_multi_addr(sc) {
        sim.rep.probes.inc("wildcard_listener_reached_under_several_addresses");
    }
    let r = core::catch(|| execute(&mut sim));
    let Sim { d, log, mut rep, mut v, herr, cs, ls, strays, udp_keep, nontrivial, wire_pkts, .. } = sim;
    match r {
        Ok(()) => {
            for (c, st) in cs.into_iter().enumerate() {
                let from = sc.conns[c].from;
                let CState { fut, client, server, .. } = st;
                d.on(from, || {
                    drop(fut);
                    drop(client)
                });
                d.on(0, || drop(server));
            }
            d.on(0, || {
                drop(strays);
                drop(ls);
                drop(udp_keep)
            });
        }
        Err(msg) => {
            std::mem::forget((cs, ls, strays, udp_keep));
            if v.is_none() {
                v = Some(Violation::new("Panic", format!("turmoil-net panicked: {msg}")));
            }
        }
    }
    drop(d);
    rep.abstract_digest = log.abs_digest();
    rep.full_digest = log.full_digest();
    rep.log = log.lines;
    rep.violation = v;
    rep.harness_error = herr;
    rep.nontrivial = nontrivial;
    rep.sim_ms = rep.steps;
    (rep, wire_pkts)
}

// ------------------------------------------------------------------------------------------------
// generator, variants, Property

/// Does the timeline cancel a connect that targets a listener? (The trigger of the repaired
/// defect O8 — fix 7eb49b5; no longer avoided by the generator, used in signatures only.)
fn guard_trigger(sc: &Scenario) -> bool {
    sc.timeline.iter().any(|(_, a)| matches!(a, Act::Cancel { c } if sc.conns[*c].to.is_some()))
}

/// Guarded scenarios: every wildcard listener is reached under one destination address only
/// (connectors on other hosts, one address selector per listener).
fn apply_guard(sc: &mut Scenario) {
    if !sc.guarded {
        return;
    }
    for l in 0..sc.listeners.len() {
        if !parse_ip(&sc.listeners[l].ip).is_unspecified() {
            continue;
        }
        let mut sel = None;
        for c in sc.conns.iter_mut().filter(|c| c.to == Some(l)) {
            if c.from == 0 {
                c.from = 1;
            }
            c.sel = *sel.get_or_insert(c.sel);
        }
    }
    debug_assert!(!wildcard_multi_addr(sc));
}

fn gen_scenario(rng: &mut Rng, tier: Tier) -> Scenario {
    let mut sc = gen_scenario_raw(rng, tier);
    apply_guard(&mut sc);
    sc
}

fn gen_scenario_raw(rng: &mut Rng, tier: Tier) -> Scenario {
    // no known finding is open for C13: nothing is steered around any more (the guard for
    // C13-F3, one destination address per wildcard listener, went with fix f6c7a1b)
    let guarded = false;
    let v6 = rng.chance(1, 6);
    let addr = |h: usize, k: usize| if v6 { format!("fd00::{h}:{}", k + 1) } else { format!("10.0.{h}.{}", k + 1) };
    let nclients = rng.usize(1, 2);
    let mut hosts = vec![(0..rng.usize(1, 2)).map(|k| addr(0, k)).collect::<Vec<_>>()];
    for h in 1..=nclients {
        hosts.push(vec![addr(h, 0)]);
    }
    let wild = if v6 { "::" } else { "0.0.0.0" };
    let nl = rng.usize(1, 2);
    let listeners: Vec<ListenerSpec> = (0..nl).map(|l| ListenerSpec { ip: if rng.chance(1, 2) { wild.to_string() } else { rng.pick(&hosts[0]).clone() }, port: 9000 + l as u16 }).collect();
    // two listeners may share one port under two specific addresses of the server host
    let mut listeners = listeners;
    if nl == 2 && hosts[0].len() == 2 && rng.chance(1, 2) {
        listeners = vec![ListenerSpec { ip: hosts[0][0].clone(), port: 9000 }, ListenerSpec { ip: hosts[0][1].clone(), port: 9000 }];
    }
    // one timeline in five: a receive buffer far smaller than the largest write (the window closes on an
    // end that nobody reads any more)
    let small_window = rng.chance(1, 5);
    let cfg = NetCfg { retx_threshold: rng.range(2, 3) as u32, retx_max: rng.range(3, 5) as u32, backlog: rng.usize(1, 4), recv_cap: if small_window { *rng.pick(&[64u32, 256, 1000]) } else { 0 } };
    let wsizes: &[u16] = if small_window { &[8, 100, 3000, 9000] } else { &[1, 8, 100] };
    if rng.chance(1, 7) {
        return gen_pressure(rng, guarded, cfg, hosts, listeners, nclients);
    }
    let nc = if tier == Tier::Thorough { rng.usize(1, 8) } else { rng.usize(1, 5) };
    let mut conns = Vec::new();
    let mut tl: Vec<(u32, Act)> = Vec::new();
    let mut start = 0u32;
    for c in 0..nc {
        let from = if rng.chance(1, 6) { 0 } else { rng.usize(1, nclients) };
        let to = if rng.chance(5, 6) { Some(rng.below(nl as u64) as usize) } else { None };
        conns.push(ConnSpec { from, to, sel: rng.below(3) as u8 });
        // up to 4 concurrent: the next one starts 0..3 rounds later, sometimes after a long gap
        start += if rng.chance(1, 5) { rng.range(4, 9) as u32 } else { rng.range(0, 3) as u32 };
        tl.push((start, Act::Connect { c }));
        let mut t = start;
        // the connecting end
        if rng.chance(3, 10) {
            tl.push((start + rng.range(0, 4) as u32, Act::Cancel { c }));
        }
        if rng.chance(1, 4) {
            tl.push((start + rng.range(0, 2) as u32, Act::Repoll { c }));
        }
        for _ in 0..rng.usize(0, 4) {
            t += rng.range(0, 3) as u32;
            let a = match rng.weighted(&[3, 2, 2, 3]) {
                0 => Act::Write { c, client: true, n: *rng.pick(wsizes) },
                1 => Act::Read { c, client: true },
                2 => Act::Shutdown { c, client: true },
                _ => Act::Drop { c, client: true },
            };
            tl.push((t + 1, a));
        }
        // the accepting end
        if let Some(l) = to {
            if rng.chance(4, 5) {
                let mut t = start + rng.range(0, 6) as u32;
                tl.push((t, Act::Accept { l }));
                for _ in 0..rng.usize(0, 4) {
                    t += rng.range(0, 3) as u32;
                    let a = match rng.weighted(&[3, 2, 2, 3]) {
                        0 => Act::Write { c, client: false, n: *rng.pick(wsizes) },
                        1 => Act::Read { c, client: false },
                        2 => Act::Shutdown { c, client: false },
                        _ => Act::Drop { c, client: false },
                    };
                    tl.push((t + 2, a));
                }
            }
        }
    }
    if rng.chance(1, 4) {
        let l = rng.below(nl as u64) as usize;
        tl.push((rng.range(0, start as u64 + 6) as u32, Act::DropListener { l }));
    }
    tl.sort_by_key(|x| x.0);
    let mut faults = Vec::new();
    if rng.chance(1, 4) {
        // a seeded multi-fault plan, inside the retransmit budget: at most retx_max-2 drops in
        // total, delays shorter than one retransmit interval
        let nd = rng.usize(1, (cfg.retx_max as usize - 2).max(1));
        for _ in 0..nd {
            let idx = rng.below(30) as u32;
            let kind = if rng.bool() { FaultKind::Drop } else { FaultKind::Delay(rng.range(1, cfg.retx_threshold as u64) as u8) };
            if !faults.iter().any(|f: &Fault| f.idx == idx) {
                faults.push(Fault { idx, kind });
            }
        }
    }
    // one timeline in ten: for a while nothing the server host sends arrives (SYN-ACKs, ACKs, FINs, RSTs)
    let blackhole = if rng.chance(1, 10) {
        let a = rng.range(0, start as u64 + 4) as u32;
        Some((a, a + cfg.retx_threshold * (cfg.retx_max + 3) + rng.range(0, 6) as u32))
    } else {
        None
    };
    Scenario { guarded, cfg, hosts, listeners, conns, timeline: tl, faults, reorder: rng.chance(1, 8), reuse: rng.chance(1, 3), no_count_check: false, acceptor_tasks: rng.chance(1, 3), blackhole }
}

/// Backlog pressure: more connectors than the backlog admits, nobody accepts until the late
/// comers have certainly given up; then everything queued is accepted.
fn gen_pressure(rng: &mut Rng, guarded: bool, mut cfg: NetCfg, hosts: Vec<Vec<String>>, listeners: Vec<ListenerSpec>, nclients: usize) -> Scenario {
    cfg.backlog = rng.usize(1, 3);
    let mut conns = Vec::new();
    let mut tl = Vec::new();
    let mut t = 0u32;
    let burst = cfg.backlog >= 2 && rng.chance(2, 3);
    // connectors that arrive one after the other and fill (part of) the accept queue
    let seq = if burst { rng.usize(1, cfg.backlog - 1) } else { cfg.backlog + rng.usize(1, 2) };
    for c in 0..seq {
        conns.push(ConnSpec { from: rng.usize(1, nclients), to: Some(0), sel: rng.below(3) as u8 });
        tl.push((t, Act::Connect { c }));
        // the next one starts after this one's handshake is over
        t += rng.range(4, 6) as u32;
        if rng.chance(1, 4) {
            tl.push((t, Act::Write { c, client: true, n: 8 }));
        }
    }
    if burst {
        // then several at once (same round or the next): while their handshakes are in flight the
        // backlog is filled by queued and half-open connections together
        let m = cfg.backlog - seq + rng.usize(1, 2);
        for k in 0..m {
            let c = seq + k;
            conns.push(ConnSpec { from: 1 + (k + rng.usize(0, 1)) % nclients, to: Some(0), sel: rng.below(3) as u8 });
            tl.push((t + rng.range(0, 1) as u32, Act::Connect { c }));
        }
        t += 2;
    }
    let n = conns.len();
    let give_up = cfg.retx_threshold * (cfg.retx_max + 2) + 3;
    // the accepts come after the late comers gave up — or early enough for their retransmitted SYNs
    let mut ta = t + if rng.chance(1, 2) { give_up } else { rng.range(1, (cfg.retx_threshold * cfg.retx_max.saturating_sub(2)).max(1) as u64) as u32 };
    for _ in 0..n {
        tl.push((ta, Act::Accept { l: 0 }));
        ta += rng.range(0, 2) as u32;
    }
    tl.sort_by_key(|x| x.0);
    Scenario { guarded, cfg, hosts, listeners, conns, timeline: tl, faults: Vec::new(), reorder: false, reuse: rng.chance(1, 4), no_count_check: false, acceptor_tasks: rng.chance(1, 3), blackhole: None }
}

impl Property for C13 {
    const ID: &'static str = "C13";
    const LEVEL: &'static str = "fault_enumeration";
    type Scenario = Scenario;

    fn rule() -> String {
        "seeded timelines: a server host (1-2 addresses, v4 or v6) with 1-2 listeners (wildcard or specific, backlog 1-4) and 1-2 client hosts; 1-5 (thorough 1-8) connections started 0-3 rounds apart (up to 4 concurrent) or after a gap (sequential), to a listener or to a port nobody listens on, from another host or from the server host itself; per connection a seeded list of client actions (cancel the pending connect at round +0..4, write 1/8/100 bytes, read, shutdown, drop) and, after a blocking accept armed at round +0..6 (or never), of accepted-end actions; optional listener drop at a seeded round; retx_threshold 2-3, retx_max 3-5. Faults: for each seeded timeline the fault-free packet sequence is recorded and the timeline is re-run once per packet position with that packet dropped and once with it delayed by retx_threshold+1 rounds (quick: positions < 24, thorough: < 48, thorough also delay 1); a quarter of the timelines carry a seeded multi-fault plan (<= retx_max-2 drops, delays) and an eighth deliver each round's packets in reverse order. Oracle: connect Ok iff a listener was bound during the whole attempt and the backlog certainly had room, ConnectionRefused iff nothing listened, not Ok when the backlog was certainly full, and never more established-but-unaccepted connections per listener than its backlog (fault-free runs; a seventh of the timelines are backlog-pressure shapes: sequential connectors beyond the backlog, or a partly filled accept queue plus a burst of simultaneous connectors, accepts only after the late comers gave up); every accepted stream matches exactly one attempt with mirrored addresses, every connection the connector saw established is handed out exactly once; after both ends of everything are closed and the wire stayed empty for Q = retx_threshold*(retx_max+2) rounds socket_counts(host) equals the listeners still open (checkpoint A) resp. zero after the listeners are dropped (B); a third of the runs then re-bind the listener addresses, rotate the client's ephemeral cursor once round the range and re-connect over the same 4-tuples (C, D). Non-trivial: some end closed/cancelled/shut down while its peer was not Established, or a listener was dropped with an un-accepted connection; distinct = digest of action kinds with the peer state at each close and outcome kinds. Added later: concurrent acceptor tasks with their own wakers, connect futures re-polled with a new waker, receive caps of 64-1000 bytes with 3-9 KB writes, one-way black holes; two listeners on one port under two addresses; backlog room that appears (by accepts) while the connector still retransmits its SYN obliges the connect to succeed; every port handed out while the allocator is rotated must lie in the ephemeral range. Round 11: a stream is let go as a whole, as a forget-ed owned write half followed by the read half, or after split + reunite.".into()
    }
    fn components_real() -> Vec<&'static str> {
        vec!["turmoil-net: kernel::tcp (handshake, accept_syn backlog, on_close, reap_closed, abort paths, retransmit), SocketTable (binding + connection index, PortAllocator), shim TcpListener / TcpStream (FdGuard on cancelled connect), netstat, verif::socket_counts hook"]
    }
    fn components_stub() -> Vec<&'static str> {
        vec!["the wire (fault plan by packet index, reordering) and the hand-polled application timeline are the harness's; no tokio runtime"]
    }
    fn assumptions() -> Vec<String> {
        vec![
            "backlog occupancy is judged only when certain: room is certain when fewer other attempts than the backlog could be pending at the listener; fullness is certain only in fault-free runs, counting connections whose connector already saw Ok and that were not accepted before the attempt ended".into(),
            "a connect during which the listener set changed is not judged beyond 'Ok needs a listener at some instant'".into(),
            "reclamation is judged at checkpoints where the application owns only listeners (or nothing): un-accepted connections in a live listener's queue are first accepted and closed".into(),
            "stream contents are C06's subject and are not compared here".into(),
            "retx_max >= 3: the kernel carries handshake retransmit counts into the established phase (reported to C06); with smaller budgets a single SYN retransmission kills the first data flight".into(),
        ]
    }
    fn budget(tier: Tier) -> u64 {
        match tier {
            Tier::Quick => 24_000,
            Tier::Thorough => 300_000,
        }
    }

    fn generate(rng: &mut Rng, _idx: u64, tier: Tier) -> Scenario {
        gen_scenario(rng, tier)
    }

    /// Systematic single-fault placement over the recorded fault-free packet sequence.
    fn variants(base: &Scenario, tier: Tier) -> Vec<Scenario> {
        let mut out = vec![base.clone()];
        if !base.faults.is_empty() {
            return out;
        }
        let mut probe = base.clone();
        probe.reuse = false;
        let (rep, n) = run_inner(&probe, false);
        if rep.violation.is_some() || rep.harness_error.is_some() {
            return out;
        }
        let cap = if tier == Tier::Thorough { 48 } else { 24 };
        let long = base.cfg.retx_threshold as u8 + 1;
        for idx in 0..n.min(cap) {
            let mut kinds = vec![FaultKind::Drop, FaultKind::Delay(long)];
            if tier == Tier::Thorough {
                kinds.push(FaultKind::Delay(1));
            }
            for k in kinds {
                let mut v = base.clone();
                v.faults = vec![Fault { idx, kind: k }];
                v.reuse = base.reuse && idx % 8 == 0;
                out.push(v);
            }
        }
        out
    }

    fn run(sc: &Scenario, keep: bool) -> Report {
        run_inner(sc, keep).0
    }

    fn shrink(sc: &Scenario) -> Vec<Scenario> {
        let mut out = Vec::new();
        // drop a whole connection (its actions with it)
        for c in (0..sc.conns.len()).rev() {
            let mut s = sc.clone();
            s.timeline.retain(|(_, a)| match a {
                Act::Connect { c: x } | Act::Cancel { c: x } | Act::Repoll { c: x } | Act::Write { c: x, .. } | Act::Read { c: x, .. } | Act::Shutdown { c: x, .. } | Act::Drop { c: x, .. } => *x != c,
                _ => true,
            });
            out.push(s);
        }
        for i in 0..sc.timeline.len() {
            if matches!(sc.timeline[i].1, Act::Connect { .. }) {
                continue;
            }
            let mut s = sc.clone();
            s.timeline.remove(i);
            out.push(s);
        }
        for i in 0..sc.faults.len() {
            let mut s = sc.clone();
            s.faults.remove(i);
            out.push(s);
        }
        for i in 0..sc.faults.len() {
            if let FaultKind::Delay(k) = sc.faults[i].kind {
                if k > 1 {
                    let mut s = sc.clone();
                    s.faults[i].kind = FaultKind::Delay(1);
                    out.push(s);
                }
            }
        }
        if sc.reorder {
            let mut s = sc.clone();
            s.reorder = false;
            out.push(s);
        }
        if sc.reuse {
            let mut s = sc.clone();
            s.reuse = false;
            out.push(s);
        }
        // earlier rounds
        for i in 0..sc.timeline.len() {
            if sc.timeline[i].0 > 0 {
                let mut s = sc.clone();
                let lo = if i > 0 { s.timeline[i - 1].0 } else { 0 };
                if lo < s.timeline[i].0 {
                    s.timeline[i].0 = lo;
                    out.push(s);
                }
            }
        }
        if sc.listeners.len() > 1 && !sc.conns.iter().any(|c| c.to == Some(sc.listeners.len() - 1)) && !sc.timeline.iter().any(|(_, a)| matches!(a, Act::Accept { l } | Act::DropListener { l } if *l == sc.listeners.len() - 1)) {
            let mut s = sc.clone();
            s.listeners.pop();
            out.push(s);
        }
        if sc.hosts.len() > 2 && !sc.conns.iter().enumerate().any(|(c, x)| x.from == sc.hosts.len() - 1 && sc.timeline.iter().any(|(_, a)| matches!(a, Act::Connect { c: y } if *y == c))) {
            let mut s = sc.clone();
            s.hosts.pop();
            for c in s.conns.iter_mut() {
                if c.from >= s.hosts.len() {
                    c.from = s.hosts.len() - 1;
                }
            }
            out.push(s);
        }
        if sc.hosts[0].len() > 1 {
            let mut s = sc.clone();
            let gone = s.hosts[0].pop().unwrap();
            if !s.listeners.iter().any(|l| l.ip == gone) {
                out.push(s);
            }
        }
        if sc.cfg.backlog < 4 {
            let mut s = sc.clone();
            s.cfg.backlog = 4;
            out.push(s);
        }
        if sc.guarded {
            out.retain(|c| !wildcard_multi_addr(c));
        }
        out
    }

    fn signature(sc: &Scenario) -> String {
        let mut letters: Vec<&'static str> = sc
            .timeline
            .iter()
            .map(|(_, a)| match a {
                Act::Connect { .. } => "C",
                Act::Cancel { .. } => "X",
                Act::Repoll { .. } => "P",
                Act::Accept { .. } => "A",
                Act::Write { client, .. } => if *client { "w" } else { "W" },
                Act::Read { client, .. } => if *client { "r" } else { "R" },
                Act::Shutdown { client, .. } => if *client { "s" } else { "S" },
                Act::Drop { client, .. } => if *client { "d" } else { "D" },
                Act::DropListener { .. } => "L",
            })
            .collect();
        letters.sort();
        letters.dedup();
        format!(
            "{}{}n{} f[{}]{}{}",
            if wildcard_multi_addr(sc) { "WILDMULTI " } else { "" },
            if guard_trigger(sc) { "X " } else { "" },
            letters.len().min(3),
            sc.faults.iter().map(|f| format!("{:?}", f.kind)).collect::<Vec<_>>().join(","),
            if sc.reorder { " reorder" } else { "" },
            if sc.reuse { " reuse" } else { "" }
        )
    }

    fn known_match(matcher: &str, sc: &Scenario, v: &Violation) -> bool {
        // O8: only the classes that say "an entry of an aborted handshake stayed behind", and only
        // when the minimised scenario still contains a connector that gives up on a live listener
        match matcher {
            KF_O8 => v.class == "LeakAbortedHandshake",
            KF_FW2 => v.class == "LeakFinWait2" && sc.faults.iter().any(|f| f.kind == FaultKind::Drop),
            KF_O7C => v.class == "NotAccepted" && sc.faults.iter().any(|f| f.kind == FaultKind::Drop),
            KF_WBL => v.class == "BacklogExceeded" && wildcard_multi_addr(sc),
            _ => false,
        }
    }
}

#[cfg(test)]
mod tests {
    use super::*;

    fn base() -> Scenario {
        Scenario {
            guarded: false,
            cfg: NetCfg { retx_threshold: 3, retx_max: 5, backlog: 4, recv_cap: 0 },
            hosts: vec![vec!["10.0.0.1".into()], vec!["10.0.1.1".into()]],
            listeners: vec![ListenerSpec { ip: "0.0.0.0".into(), port: 9000 }],
            conns: vec![ConnSpec { from: 1, to: Some(0), sel: 0 }],
            timeline: vec![(0, Act::Connect { c: 0 })],
            faults: vec![],
            reorder: false,
            reuse: true,
            no_count_check: false,
            acceptor_tasks: false,
            blackhole: None,
        }
    }

    /// Known-good scripted scenario (the shape of the crate's own tcp tests): connect, accept,
    /// write, close on both ends, re-bind and re-connect over the same 4-tuple: the oracle is silent.
    #[test]
    fn plain_connection_is_clean() {
        let mut sc = base();
        sc.timeline.push((0, Act::Accept { l: 0 }));
        sc.timeline.push((4, Act::Write { c: 0, client: true, n: 8 }));
        sc.timeline.push((6, Act::Read { c: 0, client: false }));
        sc.timeline.push((7, Act::Drop { c: 0, client: true }));
        sc.timeline.push((9, Act::Drop { c: 0, client: false }));
        let (rep, pkts) = run_inner(&sc, true);
        assert!(rep.violation.is_none(), "{:?}\n{}", rep.violation, rep.log.join("\n"));
        assert!(pkts >= 6);
        assert_eq!(rep.probes.get("four_tuple_reused"), 1);
        assert_eq!(rep.probes.get("listener_rebound"), 1);
    }

    #[test]
    fn refused_and_guard_and_matchers() {
        let mut sc = base();
        sc.conns[0].to = None;
        let (rep, _) = run_inner(&sc, false);
        assert!(rep.violation.is_none());
        assert_eq!(rep.probes.get("connect_refused_judged"), 1);
        let mut trig = base();
        trig.timeline.push((0, Act::Cancel { c: 0 }));
        assert!(guard_trigger(&trig));
        assert!(!guard_trigger(&base()));
        let v = Violation::new("LeakAbortedHandshake", "");
        assert!(C13::known_match(KF_O8, &trig, &v));
        assert!(!C13::known_match(KF_O8, &trig, &Violation::new("LeakEstablished", "")));
        assert!(!C13::known_match(KF_FW2, &trig, &Violation::new("LeakFinWait2", "")));
        trig.faults.push(Fault { idx: 3, kind: FaultKind::Drop });
        assert!(C13::known_match(KF_FW2, &trig, &Violation::new("LeakFinWait2", "")));
        trig.guarded = true;
        assert!(C13::known_match(KF_FW2, &trig, &Violation::new("LeakFinWait2", "")));
        assert!(C13::known_match(KF_O7C, &trig, &Violation::new("NotAccepted", "")));
    }
}
