//! C13 — turmoil-net connections open, close and are reclaimed like TCP.
//!
//! A scenario is a timeline of application actions (connect / cancel-connect / accept / write /
//! read / shutdown / drop on both ends, listener drop) placed at wire rounds, plus a fault plan
//! for the packets on the wire (drop / delay by index, reordering). After the timeline an epilogue
//! closes everything and checks reclamation through the `socket_counts` hook, then re-binds the
//! listener addresses and re-connects over the very same 4-tuples.

use crate::core::prng::Rng;
use crate::core::{self, Log, Property, Report, Tier, Violation};
use crate::wirekit2::table::{EPH_HI, EPH_LO};
use crate::wirekit2::{desc, ek, kind, parse_ip, ports, Driver, NetCfg, PktKind, WakeFlag};
use serde::{Deserialize, Serialize};
use std::collections::BTreeMap;
use std::future::Future;
use std::net::{IpAddr, SocketAddr};
use std::pin::Pin;
use std::task::Poll;
use turmoil_net::shim::tokio::net::{TcpListener, TcpStream, UdpSocket};
use turmoil_net::{NetstatState, Packet};

#[derive(Clone, Debug, Serialize, Deserialize, PartialEq)]
pub enum Act {
    /// start `TcpStream::connect` of connection `c`
    Connect { c: usize },
    /// drop the connect future of `c` if it is still pending
    Cancel { c: usize },
    /// start one blocking `accept` on listener `l` (stays armed until it yields)
    Accept { l: usize },
    /// `client`: the connecting end, else the accepted end (skipped while not yet accepted)
    Write { c: usize, client: bool, n: u16 },
    /// read whatever is buffered
    Read { c: usize, client: bool },
    Shutdown { c: usize, client: bool },
    Drop { c: usize, client: bool },
    DropListener { l: usize },
}

#[derive(Clone, Debug, Serialize, Deserialize, PartialEq)]
pub struct ConnSpec {
    /// connecting host
    pub from: usize,
    /// target listener (index into `listeners`), or None: a port nobody listens on
    pub to: Option<usize>,
    /// which address of the server host (beyond the list: loopback, only for from == server host)
    pub sel: u8,
}

#[derive(Clone, Debug, Serialize, Deserialize, PartialEq)]
pub struct ListenerSpec {
    /// "0.0.0.0" / "::" / a specific address of host 0
    pub ip: String,
    pub port: u16,
}

#[derive(Clone, Copy, Debug, Serialize, Deserialize, PartialEq)]
pub enum FaultKind {
    Drop,
    Delay(u8),
}

#[derive(Clone, Debug, Serialize, Deserialize, PartialEq)]
pub struct Fault {
    /// index of the packet in wire (egress) order
    pub idx: u32,
    pub kind: FaultKind,
}

#[derive(Clone, Debug, Serialize, Deserialize)]
pub struct Scenario {
    pub guarded: bool,
    pub cfg: NetCfg,
    /// host 0 is the server host
    pub hosts: Vec<Vec<String>>,
    pub listeners: Vec<ListenerSpec>,
    pub conns: Vec<ConnSpec>,
    /// (round, action), sorted by round
    pub timeline: Vec<(u32, Act)>,
    pub faults: Vec<Fault>,
    /// deliver the due packets of a round in reverse order
    pub reorder: bool,
    /// epilogue part 2: re-bind the listener addresses and re-connect over the same 4-tuples
    pub reuse: bool,
}

pub struct C13;

pub const KF_O8: &str = "synreceived-child-never-reaped";

type ConnFut = Pin<Box<dyn Future<Output = std::io::Result<TcpStream>>>>;

#[derive(Default)]
struct CState {
    target: Option<SocketAddr>,
    started: Option<u64>,
    fut: Option<ConnFut>,
    flag: Option<WakeFlag>,
    /// Ok / error kind, and the round it was observed
    result: Option<(String, u64)>,
    cancelled: Option<u64>,
    client: Option<TcpStream>,
    client_local: Option<SocketAddr>,
    /// source of this attempt's SYN as seen on the wire
    wire_src: Option<SocketAddr>,
    syn_delivered_listening: bool,
    server: Option<TcpStream>,
    accepted_round: Option<u64>,
    client_closed: bool,
    server_closed: bool,
}

struct LState {
    addr: SocketAddr,
    sock: Option<TcpListener>,
    armed: usize,
    flag: WakeFlag,
    dropped_at: Option<u64>,
    bound: bool,
}

struct Sim<'a> {
    sc: &'a Scenario,
    d: Driver,
    log: Log,
    rep: Report,
    v: Option<Violation>,
    herr: Option<String>,
    cs: Vec<CState>,
    ls: Vec<LState>,
    /// accepted streams nobody could be matched to (kept so that they are closed properly)
    strays: Vec<TcpStream>,
    inflight: Vec<(u64, u64, Packet)>,
    round: u64,
    pkt_idx: u32,
    last_fault_round: u64,
    wire_pkts: u32,
    nontrivial: bool,
    aborted_handshake: bool,
    udp_keep: Vec<UdpSocket>,
}

fn q_rounds(cfg: &NetCfg) -> u64 {
    cfg.retx_threshold as u64 * (cfg.retx_max as u64 + 2)
}

impl<'a> Sim<'a> {
    fn fail(&mut self, class: &str, msg: String) {
        if self.v.is_none() {
            self.log.ev(format!("VIOLATION {class}: {msg}"));
            self.v = Some(Violation::new(class, msg));
        }
    }
    fn stopped(&self) -> bool {
        self.v.is_some() || self.herr.is_some()
    }
    fn note(&mut self, s: impl FnOnce() -> String) {
        if self.log.keep && self.log.lines.len() < 4000 {
            let s = s();
            self.log.lines.push(format!("        {s}"));
        }
    }

    fn server_ip(&self, from: usize, sel: u8, want_v4: Option<bool>) -> Option<IpAddr> {
        let a = &self.d.addrs[0];
        let ip = if (sel as usize) < a.len() {
            a[sel as usize]
        } else if from == 0 {
            if want_v4 == Some(false) {
                "::1".parse().unwrap()
            } else {
                "127.0.0.1".parse().unwrap()
            }
        } else {
            a[0]
        };
        Some(ip)
    }

    fn target_of(&self, c: usize) -> Option<SocketAddr> {
        let spec = &self.sc.conns[c];
        match spec.to {
            Some(l) => {
                let la = self.ls[l].addr;
                let ip = if la.ip().is_unspecified() {
                    // any address of the server host of the listener's family
                    let fam: Vec<IpAddr> = self.d.addrs[0].iter().copied().filter(|a| a.is_ipv4() == la.is_ipv4()).collect();
                    if spec.from == 0 && (spec.sel as usize) >= fam.len() || fam.is_empty() {
                        if spec.from != 0 {
                            return None;
                        }
                        if la.is_ipv4() { "127.0.0.1".parse().unwrap() } else { "::1".parse().unwrap() }
                    } else {
                        fam[spec.sel as usize % fam.len()]
                    }
                } else {
                    la.ip()
                };
                Some(SocketAddr::new(ip, la.port()))
            }
            None => self.server_ip(spec.from, spec.sel, None).map(|ip| SocketAddr::new(ip, 9999)),
        }
    }

    fn can_reach(&self, from: usize, dst: IpAddr) -> bool {
        dst.is_loopback() || self.d.addrs[from].iter().any(|a| a.is_ipv4() == dst.is_ipv4())
    }

    /// Which listener (index) does the model say is bound for `dst` right now?
    fn listening_at(&self, dst: SocketAddr) -> Option<usize> {
        self.ls.iter().position(|l| l.bound && l.addr.port() == dst.port() && l.addr.is_ipv4() == dst.is_ipv4() && (l.addr.ip() == dst.ip() || l.addr.ip().is_unspecified()))
    }

    /// State of the socket `local -> remote` on the host owning `local`, as netstat shows it.
    fn state_of(&self, host: usize, local: SocketAddr, remote: SocketAddr) -> Option<NetstatState> {
        let ip = self.d.addrs[host][0];
        let ns = turmoil_net::netstat(ip);
        ns.entries.iter().find(|e| e.local == local && e.peer == Some(remote)).and_then(|e| e.state)
    }

    fn peer_state_probe(&mut self, c: usize, client_acts: bool, what: &str) {
        let (Some(cl), Some(t)) = (self.cs[c].client_local.or(self.cs[c].wire_src), self.cs[c].target) else { return };
        let from = self.sc.conns[c].from;
        let st = if client_acts { self.state_of(0, t, cl) } else { self.state_of(from, cl, t) };
        let name = match st {
            Some(s) => format!("{s:?}"),
            None => "Gone".to_string(),
        };
        if !matches!(st, Some(NetstatState::Established)) {
            self.nontrivial = true;
        }
        self.rep.probes.inc(&format!("{what}_while_peer_{name}"));
        self.log.tag(&format!("{what}/{name}"));
    }

    // ------------------------------------------------------------------------------------------

    fn act(&mut self, a: &Act) {
        match a {
            Act::Connect { c } => {
                let c = *c;
                if self.cs[c].started.is_some() {
                    return;
                }
                let Some(t) = self.target_of(c) else { return };
                let from = self.sc.conns[c].from;
                if !self.can_reach(from, t.ip()) {
                    return;
                }
                self.cs[c].target = Some(t);
                self.cs[c].started = Some(self.round);
                self.cs[c].fut = Some(Box::pin(TcpStream::connect(t)));
                self.cs[c].flag = Some(WakeFlag::new());
                self.log.ev(format!("r{} c{c}: connect h{from} -> {t}", self.round));
                self.log.tag("connect");
                self.poll_connect(c);
            }
            Act::Cancel { c } => {
                let c = *c;
                if self.cs[c].fut.is_some() && self.cs[c].result.is_none() {
                    self.peer_state_probe(c, true, "cancel");
                    let from = self.sc.conns[c].from;
                    let f = self.cs[c].fut.take();
                    self.d.on(from, || drop(f));
                    self.cs[c].cancelled = Some(self.round);
                    self.cs[c].client_closed = true;
                    self.log.ev(format!("r{} c{c}: connect cancelled", self.round));
                    self.rep.faults.inc("connect_cancelled");
                }
            }
            Act::Accept { l } => {
                if self.ls[*l].sock.is_some() {
                    self.ls[*l].armed += 1;
                    self.ls[*l].flag.set();
                    self.log.ev(format!("r{} l{l}: accept armed", self.round));
                    self.poll_accepts();
                }
            }
            Act::Write { c, client, n } => {
                let from = self.sc.conns[*c].from;
                let (h, s) = if *client { (from, self.cs[*c].client.as_ref()) } else { (0, self.cs[*c].server.as_ref()) };
                let Some(s) = s else { return };
                let data: Vec<u8> = (0..*n).map(|i| (i % 251) as u8).collect();
                let r = self.d.on(h, || s.try_write(&data));
                self.log.ev(format!("r{} c{c}: {} write {n} -> {:?}", self.round, side(*client), r.map_err(|e| e.kind())));
                self.log.tag("write");
            }
            Act::Read { c, client } => {
                let from = self.sc.conns[*c].from;
                let (h, s) = if *client { (from, self.cs[*c].client.as_ref()) } else { (0, self.cs[*c].server.as_ref()) };
                let Some(s) = s else { return };
                let mut total = 0;
                let mut last = String::new();
                let mut b = [0u8; 256];
                for _ in 0..64 {
                    match self.d.on(h, || s.try_read(&mut b)) {
                        Ok(0) => {
                            last = "EOF".into();
                            break;
                        }
                        Ok(n) => total += n,
                        Err(e) => {
                            last = ek(&e);
                            break;
                        }
                    }
                }
                self.log.ev(format!("r{} c{c}: {} read {total} then {last}", self.round, side(*client)));
                self.log.tag("read");
            }
            Act::Shutdown { c, client } => {
                let from = self.sc.conns[*c].from;
                let (h, s) = if *client { (from, self.cs[*c].client.as_mut()) } else { (0, self.cs[*c].server.as_mut()) };
                let Some(s) = s else { return };
                let r = self.d.with_cx(h, std::task::Waker::noop(), |cx| tokio::io::AsyncWrite::poll_shutdown(Pin::new(s), cx));
                let r = match r {
                    Poll::Ready(r) => format!("{:?}", r.map_err(|e| e.kind())),
                    Poll::Pending => "Pending".into(),
                };
                self.log.ev(format!("r{} c{c}: {} shutdown -> {r}", self.round, side(*client)));
                self.peer_state_probe(*c, *client, "shutdown");
            }
            Act::Drop { c, client } => self.drop_end(*c, *client, "drop"),
            Act::DropListener { l } => {
                if let Some(s) = self.ls[*l].sock.take() {
                    self.d.on(0, || drop(s));
                    self.ls[*l].bound = false;
                    self.ls[*l].armed = 0;
                    self.ls[*l].dropped_at = Some(self.round);
                    self.log.ev(format!("r{} l{l}: listener dropped", self.round));
                    self.log.tag("droplistener");
                    self.rep.faults.inc("listener_dropped");
                    // connections still waiting in its queue are gone with it
                    for c in 0..self.cs.len() {
                        if self.sc.conns[c].to == Some(*l) && self.cs[c].started.is_some() && self.cs[c].accepted_round.is_none() {
                            self.rep.probes.inc("listener_dropped_with_unaccepted_connection");
                            self.nontrivial = true;
                        }
                    }
                }
            }
        }
    }

    fn drop_end(&mut self, c: usize, client: bool, what: &str) {
        let from = self.sc.conns[c].from;
        if client {
            if let Some(s) = self.cs[c].client.take() {
                self.peer_state_probe(c, true, what);
                self.d.on(from, || drop(s));
                self.cs[c].client_closed = true;
                self.log.ev(format!("r{} c{c}: client dropped", self.round));
                self.log.tag("cdrop");
            }
        } else if let Some(s) = self.cs[c].server.take() {
            self.peer_state_probe(c, false, what);
            self.d.on(0, || drop(s));
            self.cs[c].server_closed = true;
            self.log.ev(format!("r{} c{c}: accepted end dropped", self.round));
            self.log.tag("sdrop");
        }
    }

    fn poll_connect(&mut self, c: usize) {
        let from = self.sc.conns[c].from;
        let st = &mut self.cs[c];
        let (Some(f), Some(flag)) = (st.fut.as_mut(), st.flag.as_ref()) else { return };
        if !flag.take() {
            return;
        }
        if let Poll::Ready(r) = self.d.poll_fut(from, &flag.waker, f.as_mut()) {
            let f = st.fut.take();
            self.d.on(from, || drop(f));
            let k = match r {
                Ok(s) => {
                    st.client_local = self.d.on(from, || s.local_addr()).ok();
                    let pa = self.d.on(from, || s.peer_addr()).ok();
                    st.client = Some(s);
                    if pa != st.target {
                        let t = st.target;
                        self.fail("AddressMismatch", format!("c{c}: connected stream says peer {pa:?}, connect went to {t:?}"));
                        return;
                    }
                    "Ok".to_string()
                }
                Err(e) => {
                    st.client_closed = true;
                    ek(&e)
                }
            };
            st.result = Some((k.clone(), self.round));
            self.log.ev(format!("r{} c{c}: connect -> {k}", self.round));
            self.log.tag(&format!("connect-{k}"));
        }
    }

    fn poll_accepts(&mut self) {
        for l in 0..self.ls.len() {
            while self.ls[l].armed > 0 && self.ls[l].sock.is_some() {
                if !self.ls[l].flag.take() {
                    break;
                }
                let r = {
                    let ll = &self.ls[l];
                    self.d.with_cx(0, &ll.flag.waker, |cx| ll.sock.as_ref().unwrap().poll_accept(cx))
                };
                match r {
                    Poll::Ready(Ok((s, peer))) => {
                        self.ls[l].armed -= 1;
                        self.ls[l].flag.set();
                        self.accepted(l, s, peer);
                        if self.stopped() {
                            return;
                        }
                    }
                    Poll::Ready(Err(e)) => {
                        self.ls[l].armed -= 1;
                        self.log.ev(format!("r{} l{l}: accept -> {}", self.round, ek(&e)));
                    }
                    Poll::Pending => break,
                }
            }
        }
    }

    /// Oracle (b): every stream handed out belongs to exactly one connection attempt made to this
    /// listener, with mirrored addresses.
    fn accepted(&mut self, l: usize, s: TcpStream, peer: SocketAddr) {
        let (la, pa) = self.d.on(0, || (s.local_addr().ok(), s.peer_addr().ok()));
        let r = self.round;
        let cand = (0..self.cs.len()).find(|&c| {
            let st = &self.cs[c];
            st.started.is_some() && st.accepted_round.is_none() && self.sc.conns[c].to == Some(l) && (st.client_local == Some(peer) || (st.client_local.is_none() && st.wire_src == Some(peer)))
        });
        // an attempt whose client address the harness cannot know (same-host connect that never completed)
        let cand = cand.or_else(|| {
            (0..self.cs.len()).find(|&c| {
                let st = &self.cs[c];
                st.started.is_some() && st.accepted_round.is_none() && self.sc.conns[c].to == Some(l) && st.client_local.is_none() && st.wire_src.is_none() && self.sc.conns[c].from == 0
            })
        });
        let Some(c) = cand else {
            let twice = (0..self.cs.len()).any(|c| self.cs[c].accepted_round.is_some() && self.sc.conns[c].to == Some(l) && (self.cs[c].client_local == Some(peer) || self.cs[c].wire_src == Some(peer)));
            self.strays.push(s);
            if twice {
                self.fail("AcceptedTwice", format!("r{r} l{l}: accept handed out a second stream for the connection from {peer}"));
            } else {
                self.fail("AcceptUnknown", format!("r{r} l{l}: accept handed out a stream (local {la:?}, peer {peer}) that matches no connection attempt made to this listener"));
            }
            return;
        };
        self.log.ev(format!("r{r} l{l}: accept -> c{c} peer {peer}"));
        self.log.tag("accept");
        self.cs[c].accepted_round = Some(r);
        let t = self.cs[c].target;
        self.cs[c].server = Some(s);
        if pa != Some(peer) || la != t {
            self.fail("AddressMismatch", format!("r{r} c{c}: accepted stream has local {la:?} / peer {pa:?} (accept returned {peer}); the connect went to {t:?}"));
            return;
        }
        if self.cs[c].result.as_ref().map(|x| x.0.as_str()) != Some("Ok") {
            // handed out although the connector never saw it succeed: only legitimate for a
            // connector that gave up (cancelled) or is still waiting for the SYN-ACK
            if self.cs[c].cancelled.is_some() {
                self.rep.probes.inc("accepted_after_connector_cancelled");
            }
        }
        if self.cs[c].client_closed {
            self.rep.probes.inc("accepted_after_client_closed");
            self.nontrivial = true;
        }
    }

    // ------------------------------------------------------------------------------------------
    // the wire

    fn fate(&self, idx: u32) -> Option<FaultKind> {
        self.sc.faults.iter().find(|f| f.idx == idx).map(|f| f.kind)
    }

    fn observe_wire(&mut self, p: &Packet) {
        if kind(p) == PktKind::Syn {
            let (sp, dp) = ports(p);
            let src = SocketAddr::new(p.src, sp);
            let dst = SocketAddr::new(p.dst, dp);
            if self.cs.iter().any(|c| c.wire_src == Some(src) && c.target == Some(dst)) {
                return;
            }
            let owner = self.d.owner(p.src);
            if let Some(c) = (0..self.cs.len()).find(|&c| self.cs[c].started.is_some() && self.cs[c].wire_src.is_none() && self.cs[c].target == Some(dst) && Some(self.sc.conns[c].from) == owner && self.cs[c].client_local.map(|a| a == src).unwrap_or(true)) {
                self.cs[c].wire_src = Some(src);
            }
        }
    }

    fn deliver(&mut self, p: Packet) {
        if kind(&p) == PktKind::Syn {
            let (sp, dp) = ports(&p);
            let dst = SocketAddr::new(p.dst, dp);
            let src = SocketAddr::new(p.src, sp);
            if self.listening_at(dst).is_some() {
                if let Some(c) = self.cs.iter_mut().find(|c| c.wire_src == Some(src) && c.target == Some(dst)) {
                    c.syn_delivered_listening = true;
                }
            }
        }
        self.d.deliver(p);
    }

    /// One round: poll what was woken, egress, apply fates, deliver what is due. Returns true
    /// when nothing was on the wire.
    fn wire_round(&mut self) -> bool {
        for c in 0..self.cs.len() {
            self.poll_connect(c);
        }
        self.poll_accepts();
        self.round += 1;
        let mut out = Vec::new();
        self.d.egress(&mut out);
        let fresh = out.len();
        for p in out {
            let idx = self.pkt_idx;
            self.pkt_idx += 1;
            self.wire_pkts += 1;
            self.observe_wire(&p);
            let f = self.fate(idx);
            self.note(|| format!("wire #{idx} {}{}", desc(&p), f.map(|f| format!("  <= {f:?}")).unwrap_or_default()));
            match f {
                Some(FaultKind::Drop) => {
                    self.rep.faults.inc(&format!("drop_{}", kind(&p).name()));
                    self.last_fault_round = self.round;
                }
                Some(FaultKind::Delay(k)) => {
                    self.rep.faults.inc(&format!("delay_{}", kind(&p).name()));
                    self.last_fault_round = self.round + k as u64;
                    self.inflight.push((self.round + k as u64, idx as u64, p));
                }
                None => self.inflight.push((self.round, idx as u64, p)),
            }
        }
        let mut due: Vec<(u64, u64, Packet)> = Vec::new();
        let mut rest = Vec::new();
        for e in self.inflight.drain(..) {
            if e.0 <= self.round {
                due.push(e);
            } else {
                rest.push(e);
            }
        }
        self.inflight = rest;
        due.sort_by_key(|e| (e.0, e.1));
        if self.sc.reorder && due.len() > 1 {
            due.reverse();
            self.rep.faults.inc("reordered_round");
        }
        for (_, _, p) in due {
            self.deliver(p);
        }
        self.rep.steps += 1;
        fresh == 0 && self.inflight.is_empty()
    }

    /// Run until the wire has been empty for `q` consecutive rounds.
    fn quiesce(&mut self, q: u64, drain_accepts: bool) -> bool {
        let mut quiet = 0;
        for _ in 0..(8 * q + 40) {
            let empty = self.wire_round();
            if drain_accepts {
                self.drain_listeners();
            }
            if self.stopped() {
                return false;
            }
            if empty {
                quiet += 1;
                if quiet >= q {
                    return true;
                }
            } else {
                quiet = 0;
            }
        }
        false
    }

    /// Accept everything that is ready on every live listener and close it at once.
    fn drain_listeners(&mut self) {
        for l in 0..self.ls.len() {
            loop {
                let r = {
                    let ll = &self.ls[l];
                    let Some(s) = ll.sock.as_ref() else { break };
                    self.d.with_cx(0, std::task::Waker::noop(), |cx| s.poll_accept(cx))
                };
                match r {
                    Poll::Ready(Ok((s, peer))) => {
                        self.accepted(l, s, peer);
                        if self.stopped() {
                            return;
                        }
                        for c in 0..self.cs.len() {
                            if self.cs[c].server.is_some() {
                                self.drop_end(c, false, "drop");
                            }
                        }
                        self.rep.probes.inc("accepted_in_epilogue");
                    }
                    _ => break,
                }
            }
        }
    }

    fn check_counts(&mut self, label: &str) {
        for h in 0..self.d.hosts.len() {
            let (s, b, c) = self.d.counts(h);
            let listeners = if h == 0 { self.ls.iter().filter(|l| l.sock.is_some()).count() } else { 0 };
            let udp = if h == 0 { 0 } else { 0 };
            let want = (listeners + udp, listeners + udp, 0usize);
            self.log.ev(format!("{label}: h{h} socket table holds {s} sockets, {b} bindings, {c} connection entries (application owns {listeners} listeners, no streams)"));
            if (s, b, c) != want {
                let class = if self.aborted_handshake { "LeakAbortedHandshake" } else { "Leak" };
                let dump = if self.log.keep { format!(" netstat: {:?}", turmoil_net::netstat(self.d.addrs[h][0]).entries.len()) } else { String::new() };
                self.fail(class, format!("{label}: every connection was closed on both ends and the wire stayed empty for {} rounds, yet h{h}'s socket table holds {s} sockets / {b} bindings / {c} connection-index entries; the application owns {} sockets, {} bindings, 0 connections{dump}", q_rounds(&self.sc.cfg), want.0, want.1));
                return;
            }
        }
        self.rep.probes.inc("reclamation_checkpoints_passed");
    }
}

fn side(client: bool) -> &'static str {
    if client {
        "client"
    } else {
        "accepted end"
    }
}
