//! C01 — same seed, configuration and programs give the same execution.
//!
//! No schedule is chosen here — the point is that the subject chooses none either. Every scenario is
//! executed twice on one thread; the runner's 16 worker threads cover "another thread"; the extra
//! phase re-executes a batch in two fresh OS processes (`vcheck c01-child`) and compares digests.

use crate::core::prng::{Digest, Rng};
use crate::core::{catch, scenario_seed, Property, Report, Stats, Tier, Violation};
use crate::simkit::{trace, us, CfgProfile, SharedLog, SimCfg};
use serde::{Deserialize, Serialize};
use std::cell::Cell;
use std::os::fd::AsRawFd;
use std::rc::Rc;
use std::time::Duration;
use tokio::io::{AsyncReadExt, AsyncWriteExt};
use turmoil::net::{TcpListener, TcpStream, UdpSocket};

#[derive(Clone, Debug, Serialize, Deserialize)]
pub struct FsCfg {
    pub sync_pct: u32,
    pub io_err_pct: u32,
    pub short_read_pct: u32,
    /// io latency (min, max) in microseconds; None = instant
    pub latency_us: Option<(u64, u64)>,
    pub page_cache: bool,
    /// torn-write block size (0 = not configured)
    #[serde(default)]
    pub block_size: u64,
    /// page cache random eviction probability, per mille (page cache on only)
    #[serde(default)]
    pub evict_pm: u32,
}

#[derive(Clone, Debug, Serialize, Deserialize)]
pub enum HostProg {
    /// TCP echo on 9000 + UDP echo on 9001
    Server,
    /// talks to host `server`: TCP request/response, UDP ping, select/spawn/timeout patterns
    Client { server: usize, rounds: u32, msg_len: u32, timeout_ms: u64 },
    /// std shim, tokio shim and io_uring activity incl. read_dir order and CQE order
    FsWorker { files: u32, ring_ops: u32, rounds: u32 },
}

#[derive(Clone, Debug, Serialize, Deserialize)]
pub enum Ctl {
    Crash(usize),
    Bounce(usize),
    Partition(usize, usize),
    Repair(usize, usize),
    Hold(usize, usize),
    Release(usize, usize),
    /// Sim::crash / Sim::bounce with a regex that matches several host names at once
    CrashRe(String),
    BounceRe(String),
    /// LinkIter::deliver_all on every link, from the controller (between two steps)
    DeliverAll,
}

#[derive(Clone, Debug, Serialize, Deserialize)]
pub struct Scenario {
    pub cfg: SimCfg,
    pub fs: FsCfg,
    pub hosts: Vec<HostProg>,
    pub script: Vec<(u32, Ctl)>,
    pub steps: u32,
    /// Some(ms): a turmoil *client* is registered that finishes after that many ms of virtual time;
    /// together with a short simulation_duration the run ends with the "ran for duration" error, whose
    /// text is part of the trace
    #[serde(default)]
    pub waiter_ms: Option<u64>,
    /// the second execution's controller stalls in real time before its first manual delivery
    #[serde(default)]
    pub stall_b: bool,
}

pub struct C01;

fn pattern(tag: u32, len: u32) -> Vec<u8> {
    (0..len).map(|i| 1 + ((tag.wrapping_mul(37).wrapping_add(i.wrapping_mul(11))) % 250) as u8).collect()
}

fn name(i: usize) -> String {
    format!("n{i}")
}

async fn server(log: SharedLog, me: usize, inc: u32, v6: bool) -> turmoil::Result {
    let any = if v6 { "::" } else { "0.0.0.0" };
    let l = TcpListener::bind((any, 9000)).await?;
    let u = UdpSocket::bind((any, 9001)).await?;
    log.ev(format!("n{me}.{inc} server up at {}us", us(turmoil::elapsed())));
    // multicast announcements: fan-out to every member host
    if let Ok(m) = UdpSocket::bind((any, 9003)).await {
        let mlog = log.clone();
        tokio::task::spawn_local(async move {
            for k in 0..6u8 {
                tokio::time::sleep(Duration::from_millis(7)).await;
                let r = if v6 { m.send_to(&[k, 0xAA], "[ff08::7]:9002").await } else { m.send_to(&[k, 0xAA], "239.1.1.7:9002").await };
                mlog.ev(format!("n{me}.{inc} multicast #{k} -> {:?}", r.map_err(|e| e.kind())));
            }
        });
    }
    let ulog = log.clone();
    tokio::task::spawn_local(async move {
        let mut buf = [0u8; 128];
        loop {
            match u.recv_from(&mut buf).await {
                Ok((n, from)) => {
                    ulog.ev(format!("n{me}.{inc} udp recv {n}B from {from} at {}us", us(turmoil::elapsed())));
                    let _ = u.send_to(&buf[..n], from).await;
                }
                Err(e) => {
                    ulog.ev(format!("n{me}.{inc} udp recv error {:?}", e.kind()));
                    break;
                }
            }
        }
    });
    loop {
        let (mut s, peer) = l.accept().await?;
        log.ev(format!("n{me}.{inc} accept {peer} at {}us", us(turmoil::elapsed())));
        let clog = log.clone();
        tokio::task::spawn_local(async move {
            let mut buf = [0u8; 64];
            loop {
                match s.read(&mut buf).await {
                    Ok(0) => {
                        clog.ev(format!("n{me}.{inc} conn {peer} eof"));
                        break;
                    }
                    Ok(n) => {
                        if s.write_all(&buf[..n]).await.is_err() {
                            break;
                        }
                    }
                    Err(e) => {
                        clog.ev(format!("n{me}.{inc} conn {peer} read error {:?}", e.kind()));
                        break;
                    }
                }
            }
        });
    }
}

async fn client(log: SharedLog, me: usize, inc: u32, srv: usize, rounds: u32, msg_len: u32, timeout_ms: u64, v6: bool) -> turmoil::Result {
    let to = Duration::from_millis(timeout_ms);
    let u = UdpSocket::bind((if v6 { "::" } else { "0.0.0.0" }, 0)).await?;
    if let Ok(g) = UdpSocket::bind((if v6 { "::" } else { "0.0.0.0" }, 9002)).await {
        let joined = if v6 { g.join_multicast_v6(&"ff08::7".parse().unwrap(), 0) } else { g.join_multicast_v4("239.1.1.7".parse().unwrap(), "0.0.0.0".parse().unwrap()) };
        let glog = log.clone();
        glog.ev(format!("n{me}.{inc} join group -> {:?}", joined.as_ref().map_err(|e| e.kind())));
        tokio::task::spawn_local(async move {
            let mut buf = [0u8; 8];
            while let Ok((n, from)) = g.recv_from(&mut buf).await {
                glog.ev(format!("n{me}.{inc} multicast recv {:?} from {from} at {}us", &buf[..n], us(turmoil::elapsed())));
            }
        });
    }
    let lo = if v6 { "::1" } else { "127.0.0.1" };
    for r in 0..rounds {
        // loopback traffic on this very host (TCP and UDP through 127.0.0.1 / ::1), with virtual timestamps
        if let Ok(ll) = TcpListener::bind((lo, 9100)).await {
            let llog = log.clone();
            let srvh = tokio::task::spawn_local(async move {
                if let Ok((mut s, peer)) = ll.accept().await {
                    let mut b = [0u8; 4];
                    let x = s.read_exact(&mut b).await.map(|_| ()).map_err(|e| e.kind());
                    llog.ev(format!("n{me}.{inc} loopback accept {peer} read {x:?} {b:?} at {}us", us(turmoil::elapsed())));
                    let _ = s.write_all(&b).await;
                }
            });
            let res = tokio::time::timeout(to, async {
                let mut s = TcpStream::connect((lo, 9100)).await?;
                s.write_all(&[r as u8, 1, 2, 3]).await?;
                let mut b = [0u8; 4];
                s.read_exact(&mut b).await?;
                Ok::<_, std::io::Error>(b)
            })
            .await;
            log.ev(format!("n{me}.{inc} round {r} loopback tcp -> {:?} at {}us", res.map(|x| x.map_err(|e| e.kind())).map_err(|_| "timeout"), us(turmoil::elapsed())));
            srvh.abort();
            let _ = srvh.await;
        }
        if let Ok(lu) = UdpSocket::bind((lo, 9101)).await {
            let _ = lu.send_to(&[9, r as u8], (lo, 9101)).await;
            let mut b = [0u8; 4];
            let x = tokio::time::timeout(to, lu.recv_from(&mut b)).await;
            log.ev(format!("n{me}.{inc} round {r} loopback udp -> {:?} at {}us", x.map(|y| y.map_err(|e| e.kind())).map_err(|_| "timeout"), us(turmoil::elapsed())));
        }
        // TCP request / response under a timeout
        let res = tokio::time::timeout(to, async {
            let mut s = TcpStream::connect((name(srv).as_str(), 9000)).await?;
            let msg = crate::simkit::stream_bytes(me as u32, 0, (r * msg_len) as u64, msg_len as usize);
            s.write_all(&msg).await?;
            let mut back = vec![0u8; msg.len()];
            s.read_exact(&mut back).await?;
            Ok::<_, std::io::Error>((s.local_addr()?, back == msg))
        })
        .await;
        log.ev(format!(
            "n{me}.{inc} round {r} tcp -> {} at {}us",
            match &res {
                Ok(Ok((a, same))) => format!("ok local={a} echo_intact={same}"),
                Ok(Err(e)) => format!("err {:?}", e.kind()),
                Err(_) => "timeout".to_string(),
            },
            us(turmoil::elapsed())
        ));
        // UDP ping raced against a sleep
        let payload = [me as u8, r as u8, 7, 7];
        let _ = u.send_to(&payload, (name(srv).as_str(), 9001)).await;
        let mut buf = [0u8; 16];
        tokio::select! {
            x = u.recv_from(&mut buf) => {
                log.ev(format!("n{me}.{inc} round {r} udp -> {:?} at {}us", x.map(|(n, a)| (n, a)).map_err(|e| e.kind()), us(turmoil::elapsed())));
            }
            _ = tokio::time::sleep(to) => {
                log.ev(format!("n{me}.{inc} round {r} udp -> no reply at {}us", us(turmoil::elapsed())));
            }
        }
        // two branches ready at the same instant: tokio picks the first branch to poll with the
        // runtime's rng, which turmoil seeds per host from the world rng
        let coin = tokio::select! {
            _ = tokio::time::sleep(Duration::from_millis(2)) => "a",
            _ = tokio::time::sleep(Duration::from_millis(2)) => "b",
            _ = tokio::time::sleep(Duration::from_millis(2)) => "c",
        };
        log.ev(format!("n{me}.{inc} round {r} select coin -> {coin}"));
        // a spawned task and an interval
        let h = tokio::task::spawn_local(async move {
            tokio::time::sleep(Duration::from_millis(3)).await;
            turmoil::elapsed()
        });
        let t = h.await.map(us).unwrap_or(0);
        log.ev(format!("n{me}.{inc} round {r} spawned task finished at {t}us"));
    }
    std::future::pending::<()>().await;
    Ok(())
}

async fn fs_worker(log: SharedLog, me: usize, inc: u32, files: u32, ring_ops: u32, rounds: u32) -> turmoil::Result {
    use turmoil::fs::shim::std::fs as sfs;
    use turmoil::fs::shim::tokio::fs as tfs;
    use turmoil::io_uring::{opcode, types, IoUring};
    let dir = format!("/w{me}");
    // what a previous incarnation left behind, in listing order (after a crash: the durable image)
    for d in [dir.clone(), format!("{dir}/tmp")] {
        if let Ok(rd) = sfs::read_dir(&d) {
            let names: Vec<String> = rd.filter_map(|e| e.ok()).map(|e| e.file_name().to_string_lossy().to_string()).collect();
            log.ev(format!("n{me}.{inc} start: read_dir {d} -> {:?}", names));
            // ... and what the files hold (after a crash: whatever the torn-write lottery left of unsynced writes)
            for n in names.iter().take(12) {
                if let Ok(b) = sfs::read(format!("{d}/{n}")) {
                    log.ev(format!("n{me}.{inc} start: {d}/{n} holds {} bytes {:?}", b.len(), &b[..b.len().min(10)]));
                }
            }
        }
    }
    let _ = sfs::create_dir_all(format!("{dir}/tmp"));
    let _ = sfs::sync_dir("/");
    let stamp = |p: &str| -> String {
        match sfs::metadata(p) {
            Ok(m) => format!("{:?}/{:?}", m.created().ok().and_then(|t| t.duration_since(std::time::UNIX_EPOCH).ok()).map(us), m.modified().ok().and_then(|t| t.duration_since(std::time::UNIX_EPOCH).ok()).map(us)),
            Err(e) => format!("{:?}", e.kind()),
        }
    };
    log.ev(format!("n{me}.{inc} start: created/modified of {dir}/tmp {}", stamp(&format!("{dir}/tmp"))));
    // a handle that lives as long as the incarnation (same descriptor number on every fs worker)
    let journal = sfs::OpenOptions::new().read(true).write(true).create(true).open(format!("{dir}/journal")).ok();
    for r in 0..rounds {
        // orphans: files whose data is synced while their directory entry never is (tmp is never sync_dir'ed)
        for k in 0..2u32 {
            let p = format!("{dir}/tmp/o{r}-{k}");
            if sfs::write(&p, pattern(200 + r * 2 + k, 6)).is_ok() {
                if let Ok(h) = sfs::OpenOptions::new().read(true).write(true).open(&p) {
                    let _ = h.sync_all();
                }
            }
        }
        // several files created in one directory, then listed IN ORDER
        for f in 0..files {
            let p = format!("{dir}/f{}-{}", (f * 7 + r) % 11, f);
            let data = pattern(r * 16 + f, 8 + f);
            let res = sfs::write(&p, &data);
            log.ev(format!("n{me}.{inc} r{r} write {p} -> {:?}", res.map_err(|e| e.kind())));
            if f % 2 == 0 {
                if let Ok(h) = sfs::OpenOptions::new().read(true).write(true).open(&p) {
                    let _ = h.sync_all();
                }
            }
        }
        // symlinks (and a hard link) made durable together with the files
        for k in 0..3u32 {
            let _ = sfs::symlink(format!("{dir}/f{}-{}", (k * 7 + r) % 11, k), format!("{dir}/l{r}-{}", (k * 5 + r) % 7));
        }
        let _ = sfs::hard_link(format!("{dir}/f{}-0", r % 11), format!("{dir}/h{r}"));
        let _ = sfs::sync_dir(&dir);
        log.ev(format!("n{me}.{inc} r{r} created/modified of first file {}", stamp(&format!("{dir}/f{}-0", r % 11))));
        if let Some(j) = &journal {
            use std::os::unix::fs::FileExt;
            let w = j.write_at(&pattern(300 + r, 5), r as u64 * 5);
            let len = j.metadata().map(|m| m.len());
            log.ev(format!("n{me}.{inc} r{r} journal write -> {:?} len {:?}", w.map_err(|e| e.kind()), len.map_err(|e| e.kind())));
        }
        match sfs::read_dir(&dir) {
            Ok(rd) => {
                let names: Vec<String> = rd.filter_map(|e| e.ok()).map(|e| e.file_name().to_string_lossy().to_string()).collect();
                log.ev(format!("n{me}.{inc} r{r} read_dir {dir} -> {:?}", names));
            }
            Err(e) => {
                log.ev(format!("n{me}.{inc} r{r} read_dir error {:?}", e.kind()));
            }
        }
        // tokio shim (sleeps for the configured io latency)
        let p0 = format!("{dir}/t{r}");
        let w = tfs::write(&p0, b"tokio-shim-data").await;
        let rd = tfs::read(&p0).await;
        log.ev(format!("n{me}.{inc} r{r} tokio write {:?} read {:?} at {}us", w.map_err(|e| e.kind()), rd.map_err(|e| e.kind()), us(turmoil::elapsed())));
        // the same (cached, unless evicted) page again and again: every completion instant is part of the trace
        if let Ok(tf) = tfs::OpenOptions::new().read(true).open(&p0).await {
            for k in 0..6 {
                let mut b = [0u8; 15];
                let x = tf.read_at(&mut b, 0).await;
                log.ev(format!("n{me}.{inc} r{r} tokio re-read #{k} -> {:?} at {}us", x.map_err(|e| e.kind()), us(turmoil::elapsed())));
            }
        }
        // positional reads through the std shim (io_error / short_read knobs show up here)
        if let Ok(h) = sfs::File::open(&p0) {
            use std::os::unix::fs::FileExt;
            let mut b = [0u8; 15];
            let x = h.read_at(&mut b, 0);
            log.ev(format!("n{me}.{inc} r{r} read_at -> {:?} {:?}", x.map_err(|e| e.kind()), &b[..6]));
        }
        // io_uring: a batch of ops, completions logged in the order they are reaped
        if ring_ops > 0 {
            let path = format!("{dir}/ring{r}");
            if let Ok(file) = sfs::OpenOptions::new().read(true).write(true).create(true).open(&path) {
                let fd = types::Fd(file.as_raw_fd());
                if let Ok(mut ring) = IoUring::new(8) {
                    let mut bufs: Vec<Vec<u8>> = Vec::new();
                    for k in 0..ring_ops {
                        bufs.push(pattern(100 + k, 16));
                    }
                    for (k, b) in bufs.iter().enumerate() {
                        let e = if k % 3 == 2 {
                            opcode::Fsync::new(fd).build()
                        } else {
                            opcode::Write::new(fd, b.as_ptr(), b.len() as u32).offset((k * 8) as u64).build()
                        }
                        .user_data(k as u64 + 1);
                        unsafe {
                            let _ = ring.submission().push(&e);
                        }
                    }
                    let sub = ring.submit();
                    let mut order: Vec<(u64, i32)> = Vec::new();
                    let mut spins = 0;
                    while order.len() < ring_ops as usize && spins < 200 {
                        {
                            let mut cq = ring.completion();
                            cq.sync();
                            for c in &mut cq {
                                order.push((c.user_data(), c.result()));
                            }
                        }
                        if order.len() < ring_ops as usize {
                            tokio::time::sleep(Duration::from_millis(1)).await;
                            spins += 1;
                        }
                    }
                    log.ev(format!("n{me}.{inc} r{r} ring submit {:?} cqe order {:?} at {}us", sub.map_err(|e| e.kind()), order, us(turmoil::elapsed())));
                    drop(ring);
                    drop(bufs);
                }
                drop(file);
            }
        }
        tokio::time::sleep(Duration::from_millis(2)).await;
    }
    // the journal stays open while the host idles; it is looked at once more every few milliseconds
    for k in 0..40u32 {
        tokio::time::sleep(Duration::from_millis(3)).await;
        if let Some(j) = &journal {
            use std::os::unix::fs::FileExt;
            let mut b = [0u8; 5];
            let x = j.read_at(&mut b, 0);
            if k % 8 == 0 || x.is_err() {
                log.ev(format!("n{me}.{inc} idle journal read -> {:?} {:?}", x.map_err(|e| e.kind()), b));
            }
        }
    }
    std::future::pending::<()>().await;
    Ok(())
}

/// One complete execution; returns (log lines incl. turmoil's tracing events, digest, error text if the run itself broke).
fn execute(sc: &Scenario, keep: bool) -> (Vec<String>, u64, Option<String>, u64) {
    execute_with(sc, keep, false)
}

/// `stall`: the controller of this execution is slow in real time — it sleeps (wall clock) right before its
/// first manual delivery, for longer than the virtual time that has passed so far. Virtual timestamps and
/// the step in which anything happens must not depend on that.
fn execute_with(sc: &Scenario, keep: bool, stall: bool) -> (Vec<String>, u64, Option<String>, u64) {
    let mut stalled = !stall;
    let log = SharedLog::new(keep);
    let incs: Vec<Rc<Cell<u32>>> = sc.hosts.iter().map(|_| Rc::new(Cell::new(0))).collect();
    let (res, tr) = trace::capture(|| {
        catch(|| {
            let mut b = turmoil::Builder::new();
            b.rng_seed(sc.cfg.rng_seed)
                .epoch(std::time::UNIX_EPOCH + Duration::from_secs(sc.cfg.epoch_s) + Duration::from_micros(sc.cfg.epoch_sub_us as u64))
                .tick_duration(sc.cfg.tick())
                .simulation_duration(Duration::from_millis(sc.cfg.duration_ms))
                .min_message_latency(sc.cfg.min_latency())
                .max_message_latency(sc.cfg.max_latency())
                .fail_rate(sc.cfg.fail_rate_pm as f64 / 1000.0)
                .repair_rate(sc.cfg.repair_rate_pm as f64 / 1000.0)
                .tcp_capacity(sc.cfg.tcp_capacity)
                .udp_capacity(sc.cfg.udp_capacity)
                .ip_version(if sc.cfg.ipv6 { turmoil::IpVersion::V6 } else { turmoil::IpVersion::V4 });
            if sc.cfg.random_order {
                b.enable_random_order();
            }
            {
                let f = b.fs();
                f.sync_probability(sc.fs.sync_pct as f64 / 100.0)
                    .io_error_probability(sc.fs.io_err_pct as f64 / 100.0)
                    .short_read_probability(sc.fs.short_read_pct as f64 / 100.0);
                if let Some((lo, hi)) = sc.fs.latency_us {
                    f.io_latency().min_latency(Duration::from_micros(lo)).max_latency(Duration::from_micros(hi));
                }
                if sc.fs.page_cache {
                    let pc = f.page_cache();
                    if sc.fs.evict_pm > 0 {
                        pc.random_eviction_probability(sc.fs.evict_pm as f64 / 1000.0).max_pages(4);
                    }
                }
                if sc.fs.block_size > 0 {
                    f.block_size(sc.fs.block_size);
                }
            }
            let mut sim = b.build();
            if let Some(c) = sc.cfg.latency_curve_milli {
                sim.set_message_latency_curve(c as f64 / 1000.0);
            }
            for (i, h) in sc.hosts.iter().enumerate() {
                let l = log.clone();
                let inc = incs[i].clone();
                let h = h.clone();
                let v6 = sc.cfg.ipv6;
                sim.host(name(i), move || {
                    inc.set(inc.get() + 1);
                    let l = l.clone();
                    let k = inc.get();
                    let h = h.clone();
                    async move {
                        // hosts never fail the simulation: errors are observations
                        let r = match h {
                            HostProg::Server => server(l.clone(), i, k, v6).await,
                            HostProg::Client { server, rounds, msg_len, timeout_ms } => client(l.clone(), i, k, server, rounds, msg_len, timeout_ms, v6).await,
                            HostProg::FsWorker { files, ring_ops, rounds } => fs_worker(l.clone(), i, k, files, ring_ops, rounds).await,
                        };
                        l.ev(format!("n{i}.{k} main future ended: {:?}", r.as_ref().map_err(|e| e.to_string())));
                        std::future::pending::<()>().await;
                        Ok(())
                    }
                });
            }
            if let Some(ms) = sc.waiter_ms {
                let l = log.clone();
                sim.client("waiter", async move {
                    tokio::time::sleep(Duration::from_millis(ms)).await;
                    l.ev(format!("waiter client done at {}us", us(turmoil::elapsed())));
                    Ok(())
                });
            }
            let mut inflight = 0u32;
            for s in 1..=sc.steps {
                for (at, c) in &sc.script {
                    if *at == s {
                        match c {
                            Ctl::Crash(h) => sim.crash(name(*h)),
                            Ctl::Bounce(h) => sim.bounce(name(*h)),
                            Ctl::Partition(a, b) => sim.partition(name(*a), name(*b)),
                            Ctl::Repair(a, b) => sim.repair(name(*a), name(*b)),
                            Ctl::Hold(a, b) => sim.hold(name(*a), name(*b)),
                            Ctl::Release(a, b) => sim.release(name(*a), name(*b)),
                            Ctl::CrashRe(re) => sim.crash(regex::Regex::new(re).unwrap()),
                            Ctl::BounceRe(re) => sim.bounce(regex::Regex::new(re).unwrap()),
                            Ctl::DeliverAll => {
                                let lead_us = s as u64 * sc.cfg.tick_us.max(1000);
                                if !stalled && lead_us <= 40_000 {
                                    stalled = true;
                                    std::thread::sleep(Duration::from_micros(lead_us + 2_000));
                                }
                                sim.links(|links| {
                                    for link in links {
                                        link.deliver_all();
                                    }
                                })
                            }
                        }
                        log.ev(format!("ctl before step {s}: {:?}", c));
                    }
                }
                let r = sim.step();
                // what is on the links after this step (logged when it changes): the step in which a
                // message leaves a link is part of the execution
                let mut n = 0u32;
                sim.links(|ls| {
                    for l in ls {
                        n += l.count() as u32;
                    }
                });
                if n != inflight {
                    inflight = n;
                    log.ev(format!("after step {s}: {n} messages on the links"));
                }
                if let Err(e) = &r {
                    log.ev(format!("step {s} -> Err({e})"));
                    break;
                }
            }
            log.ev(format!("final Sim::elapsed={}us", us(sim.elapsed())));
            drop(sim);
        })
    });
    let err = res.err();
    let mut l = log.take();
    for t in &tr {
        l.ev(format!("trace {t}"));
    }
    if let Some(e) = &err {
        l.ev(format!("PANIC {e}"));
    }
    let n = l.seq;
    (std::mem::take(&mut l.lines), l.full_digest(), err, n)
}

fn on_fresh_thread<T: Send>(f: impl FnOnce() -> T + Send) -> T {
    std::thread::scope(|s| std::thread::Builder::new().stack_size(16 << 20).spawn_scoped(s, f).expect("spawn").join().expect("execution thread"))
}

fn first_diff(a: &[String], b: &[String]) -> String {
    for (i, (x, y)) in a.iter().zip(b.iter()).enumerate() {
        if x != y {
            return format!("first differing event #{i}: run A `{}` vs run B `{}`", x.trim(), y.trim());
        }
    }
    format!("one trace is a prefix of the other ({} vs {} events)", a.len(), b.len())
}

fn gen_scenario(rng: &mut Rng) -> Scenario {
    let mut cfg = SimCfg::gen(rng, &CfgProfile { latency_range: true, random_failures: true, small_capacities: true, max_tick_ms: 10, max_latency_ticks: 6 });
    cfg.tcp_capacity = cfg.tcp_capacity.max(8);
    cfg.udp_capacity = cfg.udp_capacity.max(2);
    // legal but unusual seeds
    if rng.chance(1, 12) {
        cfg.rng_seed = *rng.pick(&[0u64, 1, u64::MAX, 1 << 63]);
    }
    let nh = rng.usize(1, 5);
    let mut hosts = Vec::new();
    hosts.push(if nh == 1 || rng.chance(1, 4) { HostProg::FsWorker { files: rng.range(3, 7) as u32, ring_ops: rng.range(0, 5) as u32, rounds: rng.range(1, 3) as u32 } } else { HostProg::Server });
    for _ in 1..nh {
        hosts.push(match rng.below(3) {
            0 => HostProg::FsWorker { files: rng.range(3, 7) as u32, ring_ops: rng.range(0, 5) as u32, rounds: rng.range(1, 3) as u32 },
            _ => HostProg::Client { server: 0, rounds: rng.range(1, 4) as u32, msg_len: rng.range(1, 48) as u32, timeout_ms: rng.range(20, 400) },
        });
    }
    // the server is not always the host that was registered first: registered last, it is the later end of every
    // link it has, and the requests of several clients reach it over links that were set up in one registration
    if nh >= 3 && matches!(hosts[0], HostProg::Server) && rng.chance(1, 2) {
        let k = rng.usize(1, nh - 1);
        hosts.swap(0, k);
        for h in hosts.iter_mut() {
            if let HostProg::Client { server, .. } = h {
                *server = k;
            }
        }
    }
    let steps = rng.range(40, 300) as u32;
    let mut script = Vec::new();
    for _ in 0..rng.below(5) {
        let at = rng.range(2, steps as u64) as u32;
        let a = rng.below(nh as u64) as usize;
        let b = rng.below(nh as u64) as usize;
        match rng.below(5) {
            0 | 4 => {
                script.push((at, Ctl::Crash(a)));
                script.push((at + rng.range(0, 20) as u32, Ctl::Bounce(a)));
            }
            1 if a != b => {
                script.push((at, Ctl::Partition(a, b)));
                script.push((at + rng.range(1, 40) as u32, Ctl::Repair(a, b)));
            }
            2 if a != b => {
                script.push((at, Ctl::Hold(a, b)));
                script.push((at + rng.range(1, 40) as u32, Ctl::Release(a, b)));
            }
            3 if nh >= 2 && rng.chance(1, 2) => {
                // several hosts at once, selected by a regex over the host names
                let re = if rng.bool() { "^n[0-9]$".to_string() } else { format!("^n[{}{}]$", a, (a + 1) % nh) };
                script.push((at, Ctl::CrashRe(re.clone())));
                script.push((at + rng.range(0, 20) as u32, Ctl::BounceRe(re)));
            }
            _ => script.push((at, Ctl::Bounce(a))),
        }
    }
    // deliveries by hand out of a held link, early in the run; some of these runs use ticks far below a
    // millisecond, so that many steps pass in less real time than virtual time and vice versa
    let mut stall_b = false;
    if nh >= 2 && rng.chance(1, 5) {
        if rng.chance(1, 3) {
            // a slow controller in one of the two executions (real time), ticks of one millisecond
            stall_b = rng.chance(1, 3);
            let ratio = (cfg.tick_us / 1000).max(1);
            cfg.min_latency_us /= ratio;
            cfg.max_latency_us /= ratio;
            cfg.tick_us = 1000;
        } else if rng.chance(1, 2) {
            let t = *rng.pick(&[2u64, 10, 50, 250]);
            let ratio = (cfg.tick_us / t).max(1);
            cfg.min_latency_us /= ratio;
            cfg.max_latency_us /= ratio;
            cfg.tick_us = t;
        }
        let b = rng.range(1, nh as u64 - 1) as usize;
        let at = rng.range(1, 4) as u32;
        script.push((at, Ctl::Hold(0, b)));
        let mut s = at;
        for _ in 0..rng.range(1, 4) {
            s += rng.range(1, 12) as u32;
            script.push((s, Ctl::DeliverAll));
        }
        if rng.bool() {
            script.push((s + rng.range(1, 30) as u32, Ctl::Release(0, b)));
        }
    }
    // the epoch may be the UNIX epoch itself (virtual time since the epoch is zero in the first tick)
    if rng.chance(1, 10) {
        cfg.epoch_s = 0;
    } else if rng.chance(1, 10) {
        cfg.epoch_sub_us = rng.range(1, 999_999) as u32;
    }
    script.sort_by_key(|(s, _)| *s);
    let fs = FsCfg {
        sync_pct: *rng.pick(&[0u32, 0, 30, 100]),
        io_err_pct: *rng.pick(&[0u32, 0, 0, 20]),
        short_read_pct: *rng.pick(&[0u32, 0, 50]),
        // (half of the latency ranges reach beyond one tick: a hit and a miss then complete in different steps)
        latency_us: if rng.chance(1, 3) { Some((rng.range(10, 500), rng.range(500, 4000) + if rng.bool() { cfg.tick_us * rng.range(1, 3) } else { 0 })) } else { None },
        page_cache: rng.chance(1, 4),
        block_size: *rng.pick(&[0u64, 0, 4, 16]),
        evict_pm: *rng.pick(&[0u32, 300, 700]),
    };
    let waiter_ms = if rng.chance(1, 4) {
        let run_ms = steps as u64 * cfg.tick_us / 1000;
        cfg.duration_ms = rng.range(1, run_ms.max(2));
        Some(if rng.bool() { rng.range(1, run_ms.max(2)) } else { 10 * run_ms + 1000 })
    } else {
        None
    };
    Scenario { cfg, fs, hosts, script, steps, waiter_ms, stall_b }
}

impl Property for C01 {
    const ID: &'static str = "C01";
    const LEVEL: &'static str = "exploration";
    const VIOLATION_MAY_NOT_REPRODUCE: bool = true;
    type Scenario = Scenario;

    fn rule() -> String {
        "seeded simulations of 1-5 hosts drawn from three program families (TCP/UDP echo server; clients doing connect+request/response under timeouts, UDP pings raced against sleeps with select!, spawned tasks; fs workers using the std shim, the tokio shim and io_uring, logging read_dir order and CQE order) under every fault knob (latency range and curve, fail/repair rate, random host order, capacities, IP version, fs sync/io-error/short-read probabilities, io latency, page cache) and controller scripts (crash/bounce, partition/repair, hold/release at seeded steps). Each scenario is executed twice in one thread and the complete traces (program observations with virtual timestamps + turmoil's own Send/Delivered/Recv/Drop/Hold tracing events + step results + final clock) are compared; worker threads differ between scenarios; a batch is re-executed in two fresh OS processes and compared by digest. Non-trivial: >=1 network delivery and (a listing with >=3 entries, or a ring batch >=3, or random host order with >=2 hosts, or a fault fired); distinct = digest of the abstract trace shape. Added later: the second execution runs on a fresh OS thread and, in scenarios with manual deliveries (hold + Sim::links deliver_all), its controller stalls in real time before the first delivery; link occupancy after every step is part of the trace; epochs incl. the UNIX epoch itself and sub-second parts with created/modified stamps of files logged; fs knobs block_size 4/16 (contents read back at the start of every incarnation) and page-cache eviction probability 0.3/0.7 with repeated cached reads through a tokio File, fs latencies up to three ticks; a journal handle that lives as long as the incarnation; symlinks and a hard link; a waiter client with a short simulation_duration. Round 11: the echo server may be the host registered last.".into()
    }
    fn components_real() -> Vec<&'static str> {
        vec!["turmoil (Sim, Builder, World rng, Topology, per-host tokio runtimes with RngSeed, net::tcp/udp, crash/bounce/partition/hold)", "turmoil-fs (per-host rng, std/tokio shims, read_dir)", "turmoil-io-uring (completion order shuffle from the fs rng)"]
    }
    fn components_stub() -> Vec<&'static str> {
        vec!["host programs and controller scripts (deterministic by construction: no hash iteration, no addresses, no wall clock)"]
    }
    fn assumptions() -> Vec<String> {
        vec![
            "rng seed and epoch are always set explicitly (the builder's defaults are from_os_rng / SystemTime::now, which the property excludes)".into(),
            "the cross-process phase compares 2000 scenarios (quick) / 40000 (thorough) of the same VERIF_SEED in two child processes with the parent".into(),
        ]
    }
    fn budget(tier: Tier) -> u64 {
        match tier {
            Tier::Quick => 40_000,
            Tier::Thorough => 1_500_000,
        }
    }

    fn generate(rng: &mut Rng, _idx: u64, _tier: Tier) -> Scenario {
        gen_scenario(rng)
    }

    fn run(sc: &Scenario, keep: bool) -> Report {
        let dbg = std::env::var("C01_DEBUG").is_ok();
        let (la, da, ea, na) = execute(sc, keep || dbg);
        // the second execution runs on a thread of its own (fresh thread-local state of every crate involved),
        // the first one on the worker thread that has run thousands of other scenarios before
        let stall = sc.stall_b;
        let (lb, db, _eb, _nb) = on_fresh_thread(|| execute_with(sc, dbg, stall));
        if dbg && da != db {
            eprintln!("C01_DEBUG divergence: {}", first_diff(&la, &lb));
        }
        let mut rep = Report::default();
        rep.full_digest = da;
        rep.steps = sc.steps as u64;
        rep.sim_ms = sc.steps as u64 * sc.cfg.tick_us / 1000;
        if da != db {
            // reproduce both traces in full to name the first differing event
            let (a, _, _, _) = execute(sc, true);
            let (b, _, _, _) = on_fresh_thread(|| execute_with(sc, true, stall));
            let mut msg = first_diff(&a, &b);
            if a == b {
                msg = format!("two executions differed (digests {da:016x} vs {db:016x}) but a third and fourth agreed with each other: {msg}");
            }
            rep.violation = Some(Violation::new("InProcessDivergence", format!("two executions of the same scenario (worker thread, fresh thread) differ: {msg}")));
        }
        if let Some(e) = ea {
            if rep.violation.is_none() {
                rep.harness_error = Some(format!("C01 workload panicked (generator must keep inside documented limits): {e}"));
            }
        }
        // abstract shape + non-triviality from a cheap scan of the kept/unkept log is not available when
        // lines are not kept, so derive it from the scenario and the event count
        let mut d = Digest::default();
        d.u64(sc.hosts.len() as u64);
        for h in &sc.hosts {
            d.str(match h {
                HostProg::Server => "srv",
                HostProg::Client { .. } => "cli",
                HostProg::FsWorker { .. } => "fsw",
            });
        }
        d.u64(na / 8);
        d.u64(sc.script.len() as u64);
        rep.abstract_digest = d.finish();
        let has_net = sc.hosts.iter().any(|h| matches!(h, HostProg::Client { .. }));
        let listing = sc.hosts.iter().any(|h| matches!(h, HostProg::FsWorker { files, .. } if *files >= 3));
        let ring = sc.hosts.iter().any(|h| matches!(h, HostProg::FsWorker { ring_ops, .. } if *ring_ops >= 3));
        rep.nontrivial = (has_net || listing || ring) && (listing || ring || (sc.cfg.random_order && sc.hosts.len() >= 2) || !sc.script.is_empty() || sc.cfg.fail_rate_pm > 0);
        for (_, c) in &sc.script {
            rep.faults.inc(match c {
                Ctl::Crash(_) => "crash",
                Ctl::Bounce(_) => "bounce",
                Ctl::Partition(..) => "partition",
                Ctl::Repair(..) => "repair",
                Ctl::Hold(..) => "hold",
                Ctl::Release(..) => "release",
                Ctl::CrashRe(..) => "crash_by_regex",
                Ctl::BounceRe(..) => "bounce_by_regex",
                Ctl::DeliverAll => "manual_deliver_all",
            });
        }
        if sc.cfg.fail_rate_pm > 0 {
            rep.faults.inc("random_link_failures_enabled");
        }
        if sc.fs.io_err_pct > 0 {
            rep.faults.inc("fs_io_errors_enabled");
        }
        if sc.fs.short_read_pct > 0 {
            rep.faults.inc("fs_short_reads_enabled");
        }
        if sc.fs.sync_pct > 0 {
            rep.faults.inc("fs_random_sync_enabled");
        }
        if sc.cfg.tick_us < 1000 {
            rep.probes.inc("tick_below_one_millisecond");
        }
        if sc.stall_b {
            rep.faults.inc("controller_stalled_in_real_time_in_one_execution");
        }
        if sc.cfg.epoch_s == 0 {
            rep.probes.inc("epoch_is_unix_epoch");
        }
        if matches!(sc.hosts[0], HostProg::FsWorker { .. }) && sc.hosts.iter().skip(1).any(|h| matches!(h, HostProg::FsWorker { .. })) {
            rep.probes.inc("two_fs_workers_first_host_is_one");
        }
        if sc.cfg.random_order {
            rep.probes.inc("random_host_order");
        }
        if listing {
            rep.probes.inc("directory_listing_3plus");
        }
        if ring {
            rep.probes.inc("ring_batch_3plus");
        }
        rep.log = la;
        rep
    }

    fn shrink(sc: &Scenario) -> Vec<Scenario> {
        let mut out = Vec::new();
        for i in 0..sc.script.len() {
            let mut c = sc.clone();
            c.script.remove(i);
            out.push(c);
        }
        // drop the last host (scripts referring to it are dropped as well)
        if sc.hosts.len() > 1 {
            let last = sc.hosts.len() - 1;
            let mut c = sc.clone();
            c.hosts.pop();
            c.script.retain(|(_, k)| match k {
                Ctl::Crash(h) | Ctl::Bounce(h) => *h != last,
                Ctl::Partition(a, b) | Ctl::Repair(a, b) | Ctl::Hold(a, b) | Ctl::Release(a, b) => *a != last && *b != last,
                Ctl::CrashRe(_) | Ctl::BounceRe(_) | Ctl::DeliverAll => true,
            });
            out.push(c);
        }
        if sc.steps > 10 {
            let mut c = sc.clone();
            c.steps /= 2;
            out.push(c);
        }
        for i in 0..sc.hosts.len() {
            match &sc.hosts[i] {
                HostProg::FsWorker { files, ring_ops, rounds } => {
                    if *ring_ops > 0 {
                        let mut c = sc.clone();
                        c.hosts[i] = HostProg::FsWorker { files: *files, ring_ops: 0, rounds: *rounds };
                        out.push(c);
                    }
                    if *rounds > 1 {
                        let mut c = sc.clone();
                        c.hosts[i] = HostProg::FsWorker { files: *files, ring_ops: *ring_ops, rounds: 1 };
                        out.push(c);
                    }
                }
                HostProg::Client { server, rounds, msg_len, timeout_ms } if *rounds > 1 => {
                    let mut c = sc.clone();
                    c.hosts[i] = HostProg::Client { server: *server, rounds: 1, msg_len: *msg_len, timeout_ms: *timeout_ms };
                    out.push(c);
                }
                _ => {}
            }
        }
        let plain = FsCfg { sync_pct: 0, io_err_pct: 0, short_read_pct: 0, latency_us: None, page_cache: false, block_size: 0, evict_pm: 0 };
        out.push(Scenario { fs: plain, ..sc.clone() });
        let mut c = sc.clone();
        c.cfg.fail_rate_pm = 0;
        c.cfg.random_order = false;
        out.push(c);
        out
    }

    fn signature(sc: &Scenario) -> String {
        format!("{:?}", sc.hosts.iter().map(|h| match h { HostProg::Server => "srv", HostProg::Client { .. } => "cli", HostProg::FsWorker { .. } => "fsw" }).collect::<Vec<_>>())
    }

    fn known_match(_matcher: &str, _sc: &Scenario, _v: &Violation) -> bool {
        false
    }

    /// Cross-process phase: the first N scenarios of this VERIF_SEED are executed in two fresh OS
    /// processes; their digests must equal the digests computed in this process.
    fn extra_phase(seed: u64, tier: Tier, stats: &mut Stats) -> Vec<(serde_json::Value, Violation)> {
        let n: u64 = match tier {
            Tier::Quick => 2_000,
            Tier::Thorough => 40_000,
        };
        let mine = child_digests(seed, n);
        let exe = std::env::current_exe().expect("current_exe");
        let mut out = Vec::new();
        let mut compared = 0u64;
        for child in 0..2 {
            let o = std::process::Command::new(&exe).arg("c01-child").arg(seed.to_string()).arg(n.to_string()).output();
            let o = match o {
                Ok(o) => o,
                Err(e) => {
                    // says nothing about the subject (the executable was replaced or removed while the check ran)
                    eprintln!("harness error: could not spawn the child process {}: {e}", exe.display());
                    std::process::exit(2);
                }
            };
            let text = String::from_utf8_lossy(&o.stdout);
            let theirs: Vec<(u64, u64)> = text
                .lines()
                .filter_map(|l| {
                    let mut it = l.split_whitespace();
                    Some((it.next()?.parse().ok()?, u64::from_str_radix(it.next()?, 16).ok()?))
                })
                .collect();
            if theirs.len() as u64 != n {
                out.push((serde_json::json!({"child": child, "lines": theirs.len()}), Violation::new("ChildFailed", format!("child process printed {} digests, expected {n}", theirs.len()))));
                continue;
            }
            for ((i, a), (j, b)) in mine.iter().zip(theirs.iter()) {
                compared += 1;
                if i != j || a != b {
                    let mut rng = Rng::new(scenario_seed("C01", seed, *i));
                    let sc = gen_scenario(&mut rng);
                    out.push((
                        serde_json::to_value(&sc).unwrap(),
                        Violation::new("CrossProcessDivergence", format!("scenario {i} of VERIF_SEED {seed}: trace digest {a:016x} in this process, {b:016x} in fresh process #{child}")),
                    ));
                    break;
                }
            }
        }
        stats.extra.insert("cross_process_comparisons".into(), serde_json::json!(compared));
        stats.extra.insert("cross_process_children".into(), serde_json::json!(2));
        out
    }
}

/// Digests of the first `n` scenarios of `seed` (one execution each), in index order.
pub fn child_digests(seed: u64, n: u64) -> Vec<(u64, u64)> {
    use std::sync::atomic::{AtomicU64, Ordering};
    use std::sync::Mutex;
    let next = AtomicU64::new(0);
    let out: Mutex<Vec<(u64, u64)>> = Mutex::new(Vec::new());
    std::thread::scope(|s| {
        for _ in 0..8 {
            s.spawn(|| loop {
                let i = next.fetch_add(1, Ordering::Relaxed);
                if i >= n {
                    break;
                }
                let mut rng = Rng::new(scenario_seed("C01", seed, i));
                let sc = gen_scenario(&mut rng);
                let (_, d, _, _) = execute(&sc, false);
                out.lock().unwrap().push((i, d));
            });
        }
    });
    let mut v = out.into_inner().unwrap();
    v.sort();
    v
}

/// Debug aid: execute scenario `idx` of `seed` `reps` times and print the first differing event between
/// the first execution and any later one.
pub fn hunt(seed: u64, idx: u64, reps: u64) {
    let mut rng = Rng::new(scenario_seed("C01", seed, idx));
    let sc = gen_scenario(&mut rng);
    let (a, da, _, _) = execute(&sc, true);
    let mut diffs = 0;
    for r in 0..reps {
        let (b, db, _, _) = execute(&sc, true);
        if db != da {
            diffs += 1;
            if diffs <= 3 {
                println!("rep {r}: {}", first_diff(&a, &b));
                for (i, (x, y)) in a.iter().zip(b.iter()).enumerate() {
                    if x != y {
                        for k in i.saturating_sub(6)..(i + 3).min(a.len()) {
                            println!("   A {}", a[k].trim());
                        }
                        for k in i.saturating_sub(1)..(i + 3).min(b.len()) {
                            println!("   B {}", b[k].trim());
                        }
                        break;
                    }
                }
            }
        }
    }
    println!("{diffs} of {reps} executions differ from the first; scenario: {}", serde_json::to_string(&sc).unwrap());
}
