//! C16 — turmoil-net never exceeds its buffer caps, the MSS or the peer's window.

use crate::core::prng::Rng;
use crate::core::{Property, Report, Tier, Violation};
use crate::props::c06::report_from;
use crate::wirekit::conn::{run_conn, Scenario};
use crate::wirekit::gen::{self, Spread};

pub struct C16;

impl Property for C16 {
    const ID: &'static str = "C16";
    const LEVEL: &'static str = "exploration";
    type Scenario = Scenario;

    fn rule() -> String {
        "the C06 workload and fault-plan generator (one TCP connection between seeded programs over the harness-owned wire: drops, delays, reordering, exhaustion; a sample of single-fault placements per fault-free workload) with the widest KernelConfig spread: MSS 1..1460 through mtu resp. loopback_mtu just above the header size, the other interface's MTU unrelated, send_buf_cap/recv_buf_cap independently from {1,2,3,5,8,13,16,31,64,...,65536} (below one MSS, below the transfer, asymmetric), IPv4/IPv6, cross-host / loopback / own address, poll_write and try_write writers, plus UDP size probes with payloads around mtu-ip_hdr-8 (equal, +1, -1, far beyond) to the other host and to loopback through every send path of the shim: send_to, try_send_to, and connect() followed by send / try_send; late readers keep receive queues and windows closed for long stretches. Monitors: every TCP segment seen on the wire: payload <= mtu(source interface) - ip_hdr - 20; every DATA segment: (offset of its last byte) - (highest acknowledgement the wire has delivered to that sender) <= window field of the last ACK-bearing segment the wire delivered to that sender; netstat of every host after the applications ran and after every delivery: recv_q <= recv_buf_cap, send_q <= send_buf_cap; every write call against the send-queue depth read just before it: parked / WouldBlock only when the queue is at the cap, accepted bytes <= free space, >= 1 byte accepted when there is free space; UDP: size <= limit => Ok(size), size > limit => Err and no oversized datagram on the wire. Non-trivial: a zero window was advertised or the send queue reached its cap at least once; distinct = distinct digests of (packet kind, fate, application outcome kind) sequences. Added later: a loopback side connection on the client host, opened first and kept busy, so that one egress pass segments for two interfaces with different MTUs; one-shot and abortive closes; loopback-bound UDP senders (oversize clause only).".into()
    }
    fn components_real() -> Vec<&'static str> {
        vec!["turmoil-net: kernel tcp.rs (poll_send, segmentation, window bookkeeping, receive-side admission), udp.rs (send size check), packet.rs header accounting, netstat, shim TcpStream/UdpSocket"]
    }
    fn components_stub() -> Vec<&'static str> {
        vec!["the wire with its fault plan, the task executor and the application programs (same as C06)"]
    }
    fn assumptions() -> Vec<String> {
        vec![
            "header accounting as in kernel/packet.rs: IPv4 20, IPv6 40, TCP 20 (no options), UDP 8 bytes; MSS = mtu_i - ip_hdr - 20 where interface i is the loopback interface (loopback_mtu) iff the segment's source address is a loopback address, otherwise `mtu`; UDP limit = mtu_i - ip_hdr - 8 with i chosen by the destination address the same way".into(),
            "loopback and own-address TCP segments are folded back inside Kernel::egress and never reach the wire (nor the rules), so for those paths only the queue caps, the write-call checks and the byte stream are observed; segment sizes and windows are checked on cross-host connections".into(),
            "the window last advertised to a sender is the window field of the last ACK-bearing (or SYN) segment the harness delivered to it, in delivery order — a reordered stale window counts as what the peer 'last advertised' from the sender's point of view; the check is made when a DATA segment is emitted, so bytes that were already in flight when a smaller window arrived are not counted against the sender".into(),
            "SYN and SYN-ACK advertise 65535 regardless of recv_buf_cap; the first flight may therefore exceed the receiver's real buffer — the receiver must still never queue more than recv_buf_cap (checked), the sender is within the advertised window (not a violation)".into(),
            "UDP datagrams to the host's own non-loopback address are not generated (which MTU applies there is not stated)".into(),
            "liveness (a writer blocked on a full buffer is released by acknowledgements) is C06's verdict; here every single write call is checked against the queue depth before it".into(),
        ]
    }
    fn budget(tier: Tier) -> u64 {
        match tier {
            Tier::Quick => 150_000,
            Tier::Thorough => 1_000_000,
        }
    }

    fn generate(rng: &mut Rng, _idx: u64, _tier: Tier) -> Scenario {
        gen::generate(rng, &Spread { wide: true })
    }

    fn variants(base: &Scenario, tier: Tier) -> Vec<Scenario> {
        gen::variants(base, Tier::Quick, if tier == Tier::Quick { 4 } else { 8 })
    }

    fn run(sc: &Scenario, keep: bool) -> Report {
        let out = run_conn(sc, keep);
        let nontrivial = out.zero_window_seen || out.sendbuf_full_seen;
        let v = out.v16.clone();
        report_from(out, v, nontrivial)
    }

    fn shrink(sc: &Scenario) -> Vec<Scenario> {
        gen::shrink(sc)
    }

    fn known_match(_matcher: &str, _sc: &Scenario, _v: &Violation) -> bool {
        false
    }

    fn signature(sc: &Scenario) -> String {
        let out = run_conn(sc, false);
        let class = out.v16.as_ref().map(|v| v.class.clone()).unwrap_or_default();
        gen::signature(sc, &out, &class)
    }
}
