//! C09 — `turmoil::net` UDP delivers datagrams whole, to the right sockets, at most once.
//!
//! Every host runs a few *actors* (tasks); an actor owns at most one UDP socket at a time and
//! interprets a list of ops (bind / connect / flags / join / leave / send / three receive paths /
//! sleep / drop). Every op logs what it observed; after the run the log is replayed into the
//! reference routing model of `simkit::udpmodel`, which judges every receive.

use crate::core::prng::Rng;
use crate::core::{catch, Property, Report, Tier, Violation};
use crate::simkit::udpmodel::{self as um, Model, NetCfg, Outcome, RecvRec};
use crate::simkit::{CfgProfile, SharedLog, SimCfg};
use serde::{Deserialize, Serialize};
use std::cell::{Cell, RefCell};
use std::future::Future;
use std::net::{IpAddr, Ipv4Addr, Ipv6Addr, SocketAddr};
use std::pin::Pin;
use std::rc::Rc;
use std::task::{Context, Poll};
use std::time::Duration;
use turmoil::net::UdpSocket;

#[derive(Clone, Copy, Debug, Serialize, Deserialize, PartialEq)]
pub enum PortRef {
    Fixed(u16),
    /// the port the given actor's socket is bound to right now (ephemeral binds); op skipped if unknown
    Of { host: u8, actor: u8 },
}

#[derive(Clone, Copy, Debug, Serialize, Deserialize, PartialEq)]
pub enum Dst {
    /// ("n<host>", port): resolved through turmoil's DNS
    Name { host: u8, port: PortRef },
    /// literal address of the host
    Ip { host: u8, port: PortRef },
    /// 127.0.0.1 / ::1
    Loopback { port: PortRef },
    /// 255.255.255.255 (IPv4 simulations only)
    Broadcast { port: PortRef },
    Group { g: u8, port: PortRef },
    /// an address no host owns
    Nowhere { port: u16 },
}

#[derive(Clone, Debug, Serialize, Deserialize, PartialEq)]
pub enum Op {
    Bind { local: bool, port: u16 },
    Connect { to: Dst },
    SetBroadcast(bool),
    SetLoop(bool),
    Join { g: u8, lo_iface: bool },
    /// join_multicast_v4 with an interface address that is not the host's: refused, no membership
    JoinBadIface { g: u8 },
    Leave { g: u8 },
    Send { to: Dst, len: u8, try_send: bool },
    /// recv_from wrapped in a timeout of `wait` ticks
    Recv { buf: u8, wait: u8 },
    /// try_recv_from
    TryRecv { buf: u8 },
    /// readable() (timeout `wait` ticks) then try_recv (no origin reported)
    /// `reps` x readable() (each under the timeout, `gap` ticks apart) and only then, if `consume`, one
    /// try_recv: a readiness event must survive repeated waits until it is consumed
    Readable {
        buf: u8,
        wait: u8,
        #[serde(default = "one")]
        reps: u8,
        #[serde(default)]
        gap: u8,
        #[serde(default = "yes")]
        consume: bool,
    },
    /// try_recv_from until WouldBlock
    Drain { buf: u8 },
    /// sleep ticks * tick + extra_ms
    Sleep { ticks: u8, extra_ms: u8 },
    DropSock,
}

fn one() -> u8 {
    1
}
fn yes() -> bool {
    true
}

#[derive(Clone, Debug, Serialize, Deserialize)]
pub struct HostProg {
    pub actors: Vec<Vec<Op>>,
}

#[derive(Clone, Debug, Serialize, Deserialize)]
pub struct Scenario {
    pub cfg: SimCfg,
    /// registration order of the hosts (decides their addresses)
    pub reg_order: Vec<u8>,
    pub hosts: Vec<HostProg>,
    /// known-finding trigger avoided by the generator (95% of the scenarios)
    pub guarded: bool,
}

pub struct C09;

// ------------------------------------------------------------------------------------------------
// events

#[derive(Clone, Debug)]
enum EvK {
    Bind { local: bool, port: u16, err: Option<String> },
    Connect { target: SocketAddr },
    SetBroadcast(bool),
    SetLoop(bool),
    Join { group: IpAddr, ok: bool },
    Leave { group: IpAddr, ok: bool },
    Send { id: u16, tag: u8, dst: SocketAddr, len: usize, err: Option<String> },
    Recv { start_seq: u64, start_step: u32, ready_step: u32, buf: usize, first_pending: bool, outcome: Outcome },
    DropSock,
}

#[derive(Clone, Debug)]
struct Ev {
    seq: u64,
    step: u32,
    host: usize,
    actor: usize,
    k: EvK,
}

#[derive(Clone)]
struct Shared {
    log: SharedLog,
    evs: Rc<RefCell<Vec<Ev>>>,
    step: Rc<Cell<u32>>,
    /// current port of (host, actor)
    ports: Rc<RefCell<Vec<Vec<Option<u16>>>>>,
    next_id: Rc<Cell<u16>>,
    ops_done: Rc<Cell<u32>>,
    drained: Rc<Cell<u32>>,
    drain_now: Rc<Cell<bool>>,
    counts: Rc<RefCell<std::collections::BTreeMap<&'static str, u64>>>,
    tick_us: u64,
    v6: bool,
    nhosts: usize,
}

impl Shared {
    fn ev(&self, host: usize, actor: usize, k: EvK) -> u64 {
        let step = self.step.get();
        let seq = self.log.ev(format!("s{step} n{host}.a{actor} {k:?}"));
        self.log.tag(match &k {
            EvK::Bind { err: None, .. } => "bind",
            EvK::Bind { .. } => "bind-err",
            EvK::Connect { .. } => "connect",
            EvK::SetBroadcast(_) => "bc",
            EvK::SetLoop(_) => "loop",
            EvK::Join { .. } => "join",
            EvK::Leave { .. } => "leave",
            EvK::Send { err: None, .. } => "send",
            EvK::Send { .. } => "send-err",
            EvK::Recv { outcome: Outcome::Data { .. }, .. } => "rx",
            EvK::Recv { outcome: Outcome::Empty, .. } => "rx-empty",
            EvK::Recv { outcome: Outcome::Timeout, .. } => "rx-timeout",
            EvK::DropSock => "drop",
        });
        self.evs.borrow_mut().push(Ev { seq, step, host, actor, k });
        seq
    }
    fn tick(&self) -> Duration {
        Duration::from_micros(self.tick_us)
    }
    fn count(&self, k: &'static str) {
        *self.counts.borrow_mut().entry(k).or_insert(0) += 1;
    }
}

fn group_ip(v6: bool, g: u8) -> IpAddr {
    if v6 {
        IpAddr::V6(Ipv6Addr::new(0xff08, 0, 0, 0, 0, 0, 0, 1 + g as u16))
    } else {
        IpAddr::V4(Ipv4Addr::new(239, 0, 0, 1 + g))
    }
}

fn loopback_ip(v6: bool) -> IpAddr {
    if v6 {
        IpAddr::V6(Ipv6Addr::LOCALHOST)
    } else {
        IpAddr::V4(Ipv4Addr::LOCALHOST)
    }
}

fn nowhere_ip(v6: bool) -> IpAddr {
    if v6 {
        IpAddr::V6(Ipv6Addr::new(0xfe80, 0, 0, 0, 0, 0, 0, 0x7777))
    } else {
        IpAddr::V4(Ipv4Addr::new(192, 168, 77, 77))
    }
}

/// Records whether the first poll of the wrapped future was Pending.
struct FirstPoll<F> {
    f: Pin<Box<F>>,
    polled: bool,
    first_pending: Rc<Cell<bool>>,
}

impl<F: Future> Future for FirstPoll<F> {
    type Output = F::Output;
    fn poll(mut self: Pin<&mut Self>, cx: &mut Context<'_>) -> Poll<F::Output> {
        let r = self.f.as_mut().poll(cx);
        if !self.polled {
            self.polled = true;
            self.first_pending.set(r.is_pending());
        }
        r
    }
}

enum Target {
    /// (name, port): goes through turmoil's DNS
    Named(String, u16),
    Addr(SocketAddr),
}

fn resolve_port(sh: &Shared, p: PortRef) -> Option<u16> {
    match p {
        PortRef::Fixed(p) => Some(p),
        PortRef::Of { host, actor } => sh.ports.borrow().get(host as usize).and_then(|h| h.get(actor as usize).copied().flatten()),
    }
}

/// (what the program passes to turmoil, what the model is told)
fn resolve(sh: &Shared, d: Dst) -> Option<(Target, SocketAddr)> {
    Some(match d {
        Dst::Name { host, port } => {
            let p = resolve_port(sh, port)?;
            let name = format!("n{host}");
            let ip = turmoil::lookup(name.as_str());
            (Target::Named(name, p), SocketAddr::new(ip, p))
        }
        Dst::Ip { host, port } => {
            let p = resolve_port(sh, port)?;
            let ip = turmoil::lookup(format!("n{host}").as_str());
            (Target::Addr(SocketAddr::new(ip, p)), SocketAddr::new(ip, p))
        }
        Dst::Loopback { port } => {
            let a = SocketAddr::new(loopback_ip(sh.v6), resolve_port(sh, port)?);
            (Target::Addr(a), a)
        }
        Dst::Broadcast { port } => {
            let a = SocketAddr::new(IpAddr::V4(Ipv4Addr::BROADCAST), resolve_port(sh, port)?);
            (Target::Addr(a), a)
        }
        Dst::Group { g, port } => {
            let a = SocketAddr::new(group_ip(sh.v6, g), resolve_port(sh, port)?);
            (Target::Addr(a), a)
        }
        Dst::Nowhere { port } => {
            let a = SocketAddr::new(nowhere_ip(sh.v6), port);
            (Target::Addr(a), a)
        }
    })
}

fn recv_outcome(buf: &[u8], r: std::io::Result<(usize, Option<SocketAddr>)>) -> Outcome {
    match r {
        Ok((n, origin)) => Outcome::Data { len: n, origin, bytes: buf[..n.min(buf.len())].to_vec() },
        Err(e) if e.kind() == std::io::ErrorKind::WouldBlock => Outcome::Empty,
        Err(e) => Outcome::Data { len: usize::MAX, origin: None, bytes: format!("{e:?}").into_bytes() },
    }
}

async fn run_actor(sh: Shared, host: usize, actor: usize, ops: Vec<Op>) {
    let mut sock: Option<UdpSocket> = None;
    let tag = (host * 16 + actor) as u8;
    for op in ops.iter() {
        match op {
            Op::Bind { local, port } => {
                if sock.is_some() {
                    continue;
                }
                let ip = if *local {
                    loopback_ip(sh.v6)
                } else if sh.v6 {
                    IpAddr::V6(Ipv6Addr::UNSPECIFIED)
                } else {
                    IpAddr::V4(Ipv4Addr::UNSPECIFIED)
                };
                match UdpSocket::bind(SocketAddr::new(ip, *port)).await {
                    Ok(s) => {
                        let la = s.local_addr().unwrap();
                        sh.ports.borrow_mut()[host][actor] = Some(la.port());
                        sh.ev(host, actor, EvK::Bind { local: *local, port: la.port(), err: None });
                        sock = Some(s);
                    }
                    Err(e) => {
                        sh.ev(host, actor, EvK::Bind { local: *local, port: *port, err: Some(format!("{:?}", e.kind())) });
                    }
                }
            }
            Op::Sleep { ticks, extra_ms } => {
                let d = sh.tick() * (*ticks as u32) + Duration::from_millis(*extra_ms as u64);
                if d.is_zero() {
                    tokio::task::yield_now().await;
                } else {
                    tokio::time::sleep(d).await;
                }
            }
            _ => {
                let Some(s) = sock.as_ref() else { continue };
                match op {
                    Op::Connect { to } => {
                        let Some((t, model_addr)) = resolve(&sh, *to) else { continue };
                        let r = match t {
                            Target::Named(n, p) => s.connect((n.as_str(), p)).await,
                            Target::Addr(a) => s.connect(a).await,
                        };
                        if r.is_ok() {
                            sh.ev(host, actor, EvK::Connect { target: model_addr });
                        }
                    }
                    Op::SetBroadcast(on) => {
                        if s.set_broadcast(*on).is_ok() {
                            sh.ev(host, actor, EvK::SetBroadcast(*on));
                        }
                    }
                    Op::SetLoop(on) => {
                        let r = if sh.v6 { s.set_multicast_loop_v6(*on) } else { s.set_multicast_loop_v4(*on) };
                        if r.is_ok() {
                            sh.ev(host, actor, EvK::SetLoop(*on));
                        }
                    }
                    Op::JoinBadIface { g } => {
                        // an interface address the host does not have: the join is refused and must leave no trace
                        if let IpAddr::V4(a) = group_ip(sh.v6, *g) {
                            let r = s.join_multicast_v4(a, Ipv4Addr::new(10, 9, 8, 7));
                            *sh.counts.borrow_mut().entry(if r.is_ok() { "join_with_foreign_interface_accepted" } else { "join_with_foreign_interface_refused" }).or_insert(0) += 1;
                            sh.ev(host, actor, EvK::Join { group: IpAddr::V4(a), ok: r.is_ok() });
                        }
                    }
                    Op::Join { g, lo_iface } => {
                        let group = group_ip(sh.v6, *g);
                        let r = match group {
                            IpAddr::V4(a) => s.join_multicast_v4(a, if *lo_iface { Ipv4Addr::LOCALHOST } else { Ipv4Addr::UNSPECIFIED }),
                            IpAddr::V6(a) => s.join_multicast_v6(&a, 0),
                        };
                        sh.ev(host, actor, EvK::Join { group, ok: r.is_ok() });
                    }
                    Op::Leave { g } => {
                        let group = group_ip(sh.v6, *g);
                        let r = match group {
                            IpAddr::V4(a) => s.leave_multicast_v4(a, Ipv4Addr::UNSPECIFIED),
                            IpAddr::V6(a) => s.leave_multicast_v6(&a, 0),
                        };
                        sh.ev(host, actor, EvK::Leave { group, ok: r.is_ok() });
                    }
                    Op::Send { to, len, try_send } => {
                        let Some((t, model_addr)) = resolve(&sh, *to) else { continue };
                        let id = sh.next_id.get();
                        sh.next_id.set(id + 1);
                        let p = um::payload(id, tag, *len as usize);
                        let r = match (t, try_send) {
                            (Target::Named(n, port), false) => s.send_to(&p, (n.as_str(), port)).await,
                            (Target::Named(n, port), true) => s.try_send_to(&p, (n.as_str(), port)),
                            (Target::Addr(a), false) => s.send_to(&p, a).await,
                            (Target::Addr(a), true) => s.try_send_to(&p, a),
                        };
                        let err = match r {
                            Ok(n) if n == p.len() => None,
                            Ok(n) => Some(format!("short send {n}")),
                            Err(e) => Some(format!("{:?}", e.kind())),
                        };
                        sh.ev(host, actor, EvK::Send { id, tag, dst: model_addr, len: p.len(), err });
                    }
                    Op::Recv { buf, wait } => {
                        let mut b = vec![0u8; *buf as usize];
                        let (ss, st) = (sh.log.seq(), sh.step.get());
                        let fp = Rc::new(Cell::new(false));
                        let fut = FirstPoll { f: Box::pin(s.recv_from(&mut b)), polled: false, first_pending: fp.clone() };
                        let r = tokio::time::timeout(sh.tick() * (*wait as u32).max(1), fut).await;
                        let outcome = match r {
                            Ok(r) => recv_outcome(&b, r.map(|(n, o)| (n, Some(o)))),
                            Err(_) => Outcome::Timeout,
                        };
                        sh.ev(host, actor, EvK::Recv { start_seq: ss, start_step: st, ready_step: sh.step.get(), buf: *buf as usize, first_pending: fp.get(), outcome });
                    }
                    Op::TryRecv { buf } => {
                        let mut b = vec![0u8; *buf as usize];
                        let (ss, st) = (sh.log.seq(), sh.step.get());
                        let r = s.try_recv_from(&mut b);
                        let outcome = recv_outcome(&b, r.map(|(n, o)| (n, Some(o))));
                        sh.ev(host, actor, EvK::Recv { start_seq: ss, start_step: st, ready_step: sh.step.get(), buf: *buf as usize, first_pending: false, outcome });
                    }
                    Op::Readable { buf, wait, reps, gap, consume } => {
                        let mut b = vec![0u8; *buf as usize];
                        let (ss, st) = (sh.log.seq(), sh.step.get());
                        let fp = Rc::new(Cell::new(false));
                        let fut = FirstPoll { f: Box::pin(s.readable()), polled: false, first_pending: fp.clone() };
                        let ready = tokio::time::timeout(sh.tick() * (*wait as u32).max(1), fut).await.is_ok();
                        let ready_step = sh.step.get();
                        if ready {
                            // the readiness event is not consumed yet: further waits must not lose it
                            for _ in 1..(*reps).max(1) {
                                if *gap > 0 {
                                    tokio::time::sleep(sh.tick() * *gap as u32).await;
                                }
                                sh.count("readable_repeated_before_consume");
                                if tokio::time::timeout(sh.tick() * (*wait as u32).max(1), s.readable()).await.is_err() {
                                    sh.count("repeated_readable_blocked_although_ready");
                                }
                            }
                        }
                        if !ready {
                            sh.ev(host, actor, EvK::Recv { start_seq: ss, start_step: st, ready_step, buf: *buf as usize, first_pending: fp.get(), outcome: Outcome::Timeout });
                        } else if *consume {
                            let r = s.try_recv(&mut b).map(|n| (n, None));
                            let outcome = recv_outcome(&b, r);
                            sh.ev(host, actor, EvK::Recv { start_seq: ss, start_step: st, ready_step, buf: *buf as usize, first_pending: fp.get(), outcome });
                        } else {
                            sh.count("readiness_left_unconsumed_for_next_op");
                            sh.log.ev(format!("s{} n{host}.a{actor} readable x{reps} (not consumed)", sh.step.get()));
                            sh.log.tag("rdbl-keep");
                        }
                    }
                    Op::Drain { buf } => drain(&sh, host, actor, s, *buf as usize),
                    Op::DropSock => {
                        sh.ports.borrow_mut()[host][actor] = None;
                        sh.ev(host, actor, EvK::DropSock);
                        sock = None;
                    }
                    Op::Bind { .. } | Op::Sleep { .. } => unreachable!(),
                }
            }
        }
    }
    sh.ops_done.set(sh.ops_done.get() + 1);
    // keep the socket alive until the controller asks for the final drain
    while !sh.drain_now.get() {
        tokio::time::sleep(sh.tick()).await;
    }
    if let Some(s) = sock.as_ref() {
        drain(&sh, host, actor, s, 64);
    }
    sh.drained.set(sh.drained.get() + 1);
    std::future::pending::<()>().await;
}

fn drain(sh: &Shared, host: usize, actor: usize, s: &UdpSocket, buf: usize) {
    for _ in 0..200 {
        let mut b = vec![0u8; buf];
        let (ss, st) = (sh.log.seq(), sh.step.get());
        let r = s.try_recv_from(&mut b);
        let outcome = recv_outcome(&b, r.map(|(n, o)| (n, Some(o))));
        let empty = outcome == Outcome::Empty;
        sh.ev(host, actor, EvK::Recv { start_seq: ss, start_step: st, ready_step: sh.step.get(), buf, first_pending: false, outcome });
        if empty {
            break;
        }
    }
}

async fn host_main(sh: Shared, host: usize, prog: HostProg) -> turmoil::Result {
    for (a, ops) in prog.actors.iter().enumerate() {
        tokio::task::spawn_local(run_actor(sh.clone(), host, a, ops.clone()));
    }
    std::future::pending::<()>().await;
    Ok(())
}

// ------------------------------------------------------------------------------------------------
// generator

#[derive(Clone, Copy, PartialEq)]
enum Role {
    Sender,
    SlowReceiver,
    EagerReceiver,
    Mixed,
}

struct ActorGen {
    bound: bool,
    local: bool,
    port: PortRef,
    joined: Vec<u8>,
}

const FIXED_PORTS: [u16; 3] = [9000, 9001, 9002];

fn gen_scenario(rng: &mut Rng) -> Scenario {
    let mut cfg = SimCfg::gen(rng, &CfgProfile { latency_range: true, random_failures: false, small_capacities: true, max_tick_ms: 20, max_latency_ticks: 6 });
    cfg.udp_capacity = *rng.pick(&[1usize, 1, 2, 2, 3, 4, 8, 64]);
    if rng.chance(1, 10) {
        cfg.fail_rate_pm = *rng.pick(&[20u32, 100, 300]);
        cfg.repair_rate_pm = *rng.pick(&[300u32, 1000]);
    }
    if rng.chance(1, 3) {
        cfg.ipv6 = true;
    }
    let guarded = !rng.chance(1, 20);
    let v6 = cfg.ipv6;
    let nh = rng.usize(2, 4);
    let mut reg_order: Vec<u8> = (0..nh as u8).collect();
    if rng.chance(1, 2) {
        rng.shuffle(&mut reg_order);
    }
    // theme of the scenario: which traffic classes dominate
    let theme = rng.weighted(&[3, 3, 3, 2, 2]); // 0 mixed, 1 multicast, 2 broadcast, 3 unicast+capacity, 4 loopback/same-host
    let theme = if v6 && theme == 2 { 1 } else { theme };
    let ngroups = rng.usize(1, 2) as u8;
    let tick_ms = (cfg.tick_us / 1000).max(1);

    // plan sockets first so that destinations can refer to them
    let mut plan: Vec<Vec<(bool, u16)>> = Vec::new(); // per host, per actor: (local, port (0 = ephemeral))
    for _ in 0..nh {
        let na = rng.usize(1, 3);
        let mut used: Vec<u16> = Vec::new();
        let mut actors = Vec::new();
        for _ in 0..na {
            let local = rng.chance(1, 6);
            let port = if rng.chance(1, 5) {
                0
            } else {
                // the first fixed port is the favourite so that fan-outs have several receivers
                let p = if rng.chance(1, 2) { FIXED_PORTS[0] } else { *rng.pick(&FIXED_PORTS) };
                if used.contains(&p) && !rng.chance(1, 12) {
                    // avoid AddrInUse most of the time
                    match FIXED_PORTS.iter().find(|q| !used.contains(q)) {
                        Some(q) => *q,
                        None => 0,
                    }
                } else {
                    p
                }
            };
            if port != 0 {
                used.push(port);
            }
            actors.push((local, port));
        }
        plan.push(actors);
    }

    let port_of = |h: usize, a: usize, plan: &Vec<Vec<(bool, u16)>>| -> PortRef {
        let p = plan[h][a].1;
        if p == 0 {
            PortRef::Of { host: h as u8, actor: a as u8 }
        } else {
            PortRef::Fixed(p)
        }
    };

    let mut hosts = Vec::new();
    for h in 0..nh {
        let mut actors = Vec::new();
        for a in 0..plan[h].len() {
            let role = match rng.below(4) {
                0 => Role::Sender,
                1 => Role::SlowReceiver,
                2 => Role::EagerReceiver,
                _ => Role::Mixed,
            };
            let mut g = ActorGen { bound: false, local: plan[h][a].0, port: port_of(h, a, &plan), joined: Vec::new() };
            let mut ops: Vec<Op> = Vec::new();
            if rng.chance(1, 4) {
                ops.push(Op::Sleep { ticks: rng.range(0, 3) as u8, extra_ms: 0 });
            }
            ops.push(Op::Bind { local: g.local, port: plan[h][a].1 });
            g.bound = true;
            // setup: flags, memberships, filter
            if !g.local || rng.chance(1, 3) {
                if theme != 3 && theme != 4 && rng.chance(if theme == 1 { 5 } else { 2 }, 6) {
                    let gi = rng.below(ngroups as u64) as u8;
                    ops.push(Op::Join { g: gi, lo_iface: !v6 && rng.chance(1, 5) });
                    g.joined.push(gi);
                }
                if !v6 && rng.chance(if theme == 2 { 5 } else { 2 }, 6) {
                    ops.push(Op::SetBroadcast(true));
                }
                if rng.chance(1, 6) {
                    ops.push(Op::SetLoop(false));
                }
            }
            if rng.chance(1, 8) {
                // connected filter on some peer socket (or on a loopback peer)
                let (ph, pa) = {
                    let ph = rng.below(nh as u64) as usize;
                    (ph, rng.below(plan[ph].len() as u64) as usize)
                };
                let pr = port_of(ph, pa, &plan);
                let to = if ph == h && rng.chance(1, 2) {
                    Dst::Loopback { port: pr }
                } else if rng.bool() {
                    Dst::Name { host: ph as u8, port: pr }
                } else {
                    Dst::Ip { host: ph as u8, port: pr }
                };
                if matches!(pr, PortRef::Of { .. }) {
                    ops.push(Op::Sleep { ticks: 1, extra_ms: 0 });
                }
                ops.push(Op::Connect { to });
            }
            let n = rng.usize(3, 12);
            let mut i = 0;
            while i < n {
                i += 1;
                if !g.bound {
                    ops.push(Op::Bind { local: g.local, port: plan[h][a].1 });
                    g.bound = true;
                    continue;
                }
                if rng.chance(1, 30) {
                    // connect / re-connect in the middle of the program: the filter moves to the new peer
                    let ph = rng.below(nh as u64) as usize;
                    let pr = port_of(ph, rng.below(plan[ph].len() as u64) as usize, &plan);
                    let to = if ph == h && rng.bool() {
                        Dst::Loopback { port: pr }
                    } else if rng.bool() {
                        Dst::Name { host: ph as u8, port: pr }
                    } else {
                        Dst::Ip { host: ph as u8, port: pr }
                    };
                    ops.push(Op::Connect { to });
                    continue;
                }
                let w: [u32; 9] = match role {
                    //            send recv try  rdbl sleep join leave flag drop
                    Role::Sender => [12, 1, 1, 0, 2, 1, 1, 1, 0],
                    Role::SlowReceiver => [1, 3, 3, 2, 6, 1, 1, 0, 1],
                    Role::EagerReceiver => [1, 8, 1, 3, 0, 1, 1, 0, 0],
                    Role::Mixed => [5, 3, 2, 2, 2, 2, 2, 1, 1],
                };
                match rng.weighted(&w) {
                    0 => {
                        // pick a destination
                        let len = match rng.below(10) {
                            0 => rng.range(0, 2) as u8,
                            1 => 64,
                            _ => rng.range(3, 40) as u8,
                        };
                        let try_send = rng.chance(1, 3);
                        let th = rng.below(nh as u64) as usize;
                        let ta = rng.below(plan[th].len() as u64) as usize;
                        let tport = if rng.chance(1, 12) { PortRef::Fixed(9009) } else { port_of(th, ta, &plan) };
                        let to = if g.local && rng.chance(1, 6) {
                            // a socket bound to the loopback address sends off the loopback address: refused or
                            // lost (not judged) — but no other datagram may suffer from it
                            match rng.below(4) {
                                0 | 1 => Dst::Group { g: rng.below(ngroups as u64) as u8, port: tport },
                                2 if !v6 => Dst::Broadcast { port: tport },
                                _ => Dst::Ip { host: th as u8, port: tport },
                            }
                        } else if g.local {
                            Dst::Loopback { port: if rng.chance(3, 4) { port_of(h, rng.below(plan[h].len() as u64) as usize, &plan) } else { tport } }
                        } else {
                            let k = match theme {
                                1 => rng.weighted(&[2, 0, 1, 8, 0]),
                                2 => rng.weighted(&[2, 8, 1, 0, 0]),
                                3 => rng.weighted(&[10, 0, 1, 0, 1]),
                                4 => rng.weighted(&[1, 0, 8, 0, 0]),
                                _ => rng.weighted(&[5, 2, 2, 3, 1]),
                            };
                            let k = if v6 && k == 1 { 0 } else { k };
                            match k {
                                0 => {
                                    if rng.bool() {
                                        Dst::Name { host: th as u8, port: tport }
                                    } else {
                                        Dst::Ip { host: th as u8, port: tport }
                                    }
                                }
                                1 => Dst::Broadcast { port: tport },
                                2 => {
                                    // same host: loopback address or own address
                                    let oa = rng.below(plan[h].len() as u64) as usize;
                                    let p = if rng.chance(1, 10) { tport } else { port_of(h, oa, &plan) };
                                    match rng.below(3) {
                                        0 => Dst::Loopback { port: p },
                                        1 => Dst::Ip { host: h as u8, port: p },
                                        _ => Dst::Name { host: h as u8, port: p },
                                    }
                                }
                                3 => {
                                    let extra = if rng.chance(1, 10) { 1 } else { 0 };
                                    Dst::Group { g: rng.below(ngroups as u64 + extra) as u8, port: tport }
                                }
                                _ => Dst::Nowhere { port: 9000 },
                            }
                        };
                        ops.push(Op::Send { to, len, try_send });
                        // bursts
                        if role == Role::Sender && rng.chance(1, 2) {
                            for _ in 0..rng.range(1, 4) {
                                ops.push(Op::Send { to, len: rng.range(3, 20) as u8, try_send: rng.bool() });
                            }
                        }
                    }
                    1 => ops.push(Op::Recv { buf: gen_buf(rng), wait: rng.range(1, 8) as u8 }),
                    2 => ops.push(Op::TryRecv { buf: gen_buf(rng) }),
                    3 => ops.push(Op::Readable { buf: gen_buf(rng), wait: rng.range(1, 8) as u8, reps: *rng.pick(&[1u8, 1, 2, 2, 3]), gap: *rng.pick(&[0u8, 0, 1, 2]), consume: !rng.chance(1, 5) }),
                    4 => ops.push(Op::Sleep { ticks: rng.range(0, 6) as u8, extra_ms: if tick_ms > 1 && rng.chance(1, 3) { rng.below(tick_ms) as u8 } else { 0 } }),
                    5 => {
                        let gi = rng.below(ngroups as u64) as u8;
                        if !v6 && rng.chance(1, 8) {
                            // (not recorded in `g.joined`: the socket is no member afterwards)
                            ops.push(Op::JoinBadIface { g: gi });
                            continue;
                        }
                        ops.push(Op::Join { g: gi, lo_iface: !v6 && rng.chance(1, 6) });
                        if !g.joined.contains(&gi) {
                            g.joined.push(gi);
                        }
                    }
                    6 => {
                        // mostly leave a joined group, sometimes one never joined (error path)
                        if !g.joined.is_empty() && rng.chance(5, 6) {
                            let k = rng.below(g.joined.len() as u64) as usize;
                            let gi = g.joined.remove(k);
                            ops.push(Op::Leave { g: gi });
                        } else {
                            ops.push(Op::Leave { g: rng.below(ngroups as u64) as u8 });
                        }
                    }
                    7 => {
                        if rng.bool() && !v6 {
                            ops.push(Op::SetBroadcast(rng.bool()));
                        } else {
                            ops.push(Op::SetLoop(rng.bool()));
                        }
                    }
                    _ => {
                        if rng.chance(1, 2) {
                            ops.push(Op::Drain { buf: 64 });
                        }
                        ops.push(Op::DropSock);
                        g.bound = false;
                        g.joined.clear();
                        if rng.chance(1, 3) {
                            ops.push(Op::Sleep { ticks: rng.range(0, 4) as u8, extra_ms: 0 });
                        }
                    }
                }
            }
            actors.push(ops);
        }
        hosts.push(HostProg { actors });
    }
    let mut sc = Scenario { cfg, reg_order, hosts, guarded };
    if guarded {
        apply_guard(&mut sc);
    }
    sc
}

fn gen_buf(rng: &mut Rng) -> u8 {
    match rng.below(10) {
        0 => rng.range(0, 2) as u8,
        1 | 2 => rng.range(3, 16) as u8,
        _ => 64,
    }
}

/// Trigger of known finding `multicast-in-flight-rebind` (see `known_match`): (host, fixed port p)
/// such that the scenario sends to some group on port p, a socket of that host bound to p joins a
/// group, and p is bound more than once on that host (so a socket that never joined may hold p while
/// a multicast datagram addressed to the old member is still in flight).
fn rebind_triggers(sc: &Scenario) -> Vec<(usize, u16)> {
    let mut out = Vec::new();
    let group_ports: Vec<u16> = sc
        .hosts
        .iter()
        .flat_map(|h| h.actors.iter().flatten())
        .filter_map(|o| match o {
            Op::Send { to: Dst::Group { port: PortRef::Fixed(p), .. }, .. } => Some(*p),
            _ => None,
        })
        .collect();
    for (hi, h) in sc.hosts.iter().enumerate() {
        for p in FIXED_PORTS.iter().chain([9009u16].iter()) {
            if !group_ports.contains(p) {
                continue;
            }
            let mut binds = 0;
            let mut joins = false;
            let mut drops = false;
            for ops in &h.actors {
                let mut on_p = false;
                for o in ops {
                    match o {
                        Op::Bind { port, .. } => {
                            on_p = port == p;
                            if on_p {
                                binds += 1;
                            }
                        }
                        Op::Join { .. } if on_p => joins = true,
                        Op::DropSock if on_p => drops = true,
                        _ => {}
                    }
                }
            }
            if binds >= 2 && joins && drops {
                out.push((hi, *p));
            }
        }
    }
    out
}

fn guard_wait(sc: &Scenario) -> u8 {
    (sc.cfg.max_latency_ticks() + 3).min(200) as u8
}

/// A trigger (host, port) is harmless when a single actor binds the port and lets every in-flight
/// datagram expire (sleep of ceil(max_latency/tick)+3 ticks) after each DropSock.
fn guard_ok(sc: &Scenario) -> bool {
    let wait = guard_wait(sc);
    rebind_triggers(sc).into_iter().all(|(hi, p)| {
        let owners: Vec<&Vec<Op>> = sc.hosts[hi].actors.iter().filter(|ops| ops.iter().any(|o| matches!(o, Op::Bind { port, .. } if *port == p))).collect();
        owners.len() == 1
            && owners[0].iter().enumerate().all(|(i, o)| !matches!(o, Op::DropSock) || matches!(owners[0].get(i + 1), Some(Op::Sleep { ticks, .. }) if *ticks >= wait) || !owners[0][i + 1..].iter().any(|o| matches!(o, Op::Bind { .. })))
    })
}

/// Make a scenario guard-compliant: other actors of the host move to ephemeral ports, the owner sleeps
/// after each drop.
fn apply_guard(sc: &mut Scenario) {
    let wait = guard_wait(sc);
    for _ in 0..4 {
        if guard_ok(sc) {
            return;
        }
        for (hi, p) in rebind_triggers(sc) {
            let mut owner_seen = false;
            for ops in sc.hosts[hi].actors.iter_mut() {
                let on_p = ops.iter().any(|o| matches!(o, Op::Bind { port, .. } if *port == p));
                if !on_p {
                    continue;
                }
                if owner_seen {
                    for o in ops.iter_mut() {
                        if let Op::Bind { port, .. } = o {
                            if *port == p {
                                *port = 0;
                            }
                        }
                    }
                    continue;
                }
                owner_seen = true;
                let mut i = 0;
                while i < ops.len() {
                    if matches!(ops[i], Op::DropSock) && !matches!(ops.get(i + 1), Some(Op::Sleep { ticks, .. }) if *ticks >= wait) {
                        ops.insert(i + 1, Op::Sleep { ticks: wait, extra_ms: 0 });
                        i += 1;
                    }
                    i += 1;
                }
            }
        }
    }
}

// ------------------------------------------------------------------------------------------------

impl Property for C09 {
    const ID: &'static str = "C09";
    const LEVEL: &'static str = "exploration";
    type Scenario = Scenario;

    fn rule() -> String {
        "seeded simulations of 2-4 hosts (IPv4/IPv6, random registration order, random node order on/off), 1-3 socket-owning tasks per host; sockets bound to wildcard / localhost, fixed (shared small pool) / ephemeral ports; ops: unicast by name and by address, same-host via own address and via 127.0.0.1/::1, broadcast with and without set_broadcast, multicast after arbitrary join/leave/drop sequences (multicast_loop on/off), connect() filters, sends to unbound ports / unknown groups / unowned addresses, payload 0-64 B vs receive buffers 0-64 B, udp_capacity 1-64 with slow receivers and sender bursts, latency ranges that reorder, 10% of the runs with random link failures (safety clauses only); receive via recv_from, try_recv_from, readable()+try_recv. Oracle = reference routing model (bind-table and membership timelines): every receive must match a send whose destination set contains the socket at some instant between send and receive, with the origin address of that path and the payload cut to the buffer; at most one receive per (datagram, socket) (bipartite matching for datagrams too short to carry their id); a datagram whose destination set contains the socket during the whole delivery window, on a healthy link and with the model's queue bound within capacity, must have been received before the socket first observes an empty queue after ceil(max_latency/tick)+2 steps. Non-trivial: >=1 multicast/broadcast datagram received by >=2 sockets, or >=1 datagram lost to a full queue; distinct = digest of (op kinds, outcome kinds). Added later: sockets bound to the loopback address also send to groups, broadcast and other hosts (owed to nobody, receipts by the rightful destinations not judged); joins with a foreign interface address; re-connects; a datagram that certainly found capacity+1 earlier datagrams unread in the socket's queue must not be received.".into()
    }
    fn components_real() -> Vec<&'static str> {
        vec!["turmoil::net::UdpSocket (bind, connect, send_to, try_send_to, recv_from, try_recv_from, readable, try_recv, set_broadcast, set_multicast_loop_*, join/leave_multicast_*, Drop)", "turmoil host UDP table, MulticastGroups, Topology/Link delivery, Sim::step"]
    }
    fn components_stub() -> Vec<&'static str> {
        vec!["host programs (op lists interpreted by one generic task), controller loop, reference routing model"]
    }
    fn assumptions() -> Vec<String> {
        vec![
            "what a socket bound to the loopback address sends to a group, to the broadcast address or to another address is owed to nobody and its result is not judged (the text is silent on it); such sends are generated all the same, because no other datagram may suffer from them".into(),
            "localhost-bound sockets and sockets with a non-matching connected peer are neither required nor forbidden to receive broadcast/multicast datagrams; multicast to a member on the sender's own host is owed only if both sockets have multicast_loop on and forbidden only if both have it off".into(),
            "destination sets may be evaluated at send time or at delivery time: a receive is accepted if the socket was a destination at some instant between send and receive; a datagram is owed only if the socket was a destination during the whole window".into(),
            "delivery deadline = ceil(max_latency/tick)+2 steps after the send (3 steps on the same host); judged at the socket's next observation of an empty queue".into(),
        ]
    }
    fn budget(tier: Tier) -> u64 {
        match tier {
            Tier::Quick => 250_000,
            Tier::Thorough => 6_000_000,
        }
    }

    fn generate(rng: &mut Rng, _idx: u64, _tier: Tier) -> Scenario {
        gen_scenario(rng)
    }

    fn run(sc: &Scenario, keep: bool) -> Report {
        let nh = sc.hosts.len();
        let sh = Shared {
            log: SharedLog::new(keep),
            evs: Rc::new(RefCell::new(Vec::new())),
            step: Rc::new(Cell::new(0)),
            ports: Rc::new(RefCell::new(sc.hosts.iter().map(|h| vec![None; h.actors.len()]).collect())),
            next_id: Rc::new(Cell::new(1)),
            ops_done: Rc::new(Cell::new(0)),
            drained: Rc::new(Cell::new(0)),
            drain_now: Rc::new(Cell::new(false)),
            counts: Rc::new(RefCell::new(Default::default())),
            tick_us: sc.cfg.tick_us,
            v6: sc.cfg.ipv6,
            nhosts: nh,
        };
        let _ = sh.nhosts;
        let nactors: u32 = sc.hosts.iter().map(|h| h.actors.len() as u32).sum();
        let max_ticks = sc.cfg.max_latency_ticks() as u32;
        // hard cap on steps: every op waits a bounded number of ticks
        let mut longest = 0u64;
        for h in &sc.hosts {
            for ops in &h.actors {
                let mut t = 0u64;
                for o in ops {
                    t += match o {
                        Op::Sleep { ticks, .. } => *ticks as u64 + 2,
                        Op::Recv { wait, .. } => *wait as u64 + 2,
                        Op::Readable { wait, reps, gap, .. } => (*wait as u64 + *gap as u64 + 2) * (*reps as u64).max(1),
                        _ => 0,
                    };
                }
                longest = longest.max(t);
            }
        }
        let cap = longest + max_ticks as u64 + 24;
        let mut addrs: Vec<IpAddr> = vec![IpAddr::V4(Ipv4Addr::UNSPECIFIED); nh];
        let mut steps = 0u64;
        let mut harness_error = None;

        // one scenario in eight runs with turmoil's trace events enabled and formatted (a subscriber at
        // TRACE level, as under RUST_LOG=turmoil=trace): logging must not change or break anything
        let traced = sc.cfg.rng_seed % 8 == 0;
        let res = catch(|| {
            let _cap = if traced { Some(crate::simkit::trace::Enabled::new()) } else { None };
            let mut sim = sc.cfg.build();
            let mut order: Vec<usize> = sc.reg_order.iter().map(|h| *h as usize).filter(|h| *h < nh).collect();
            for h in 0..nh {
                if !order.contains(&h) {
                    order.push(h);
                }
            }
            for &h in &order {
                let shc = sh.clone();
                let prog = sc.hosts[h].clone();
                let started = Rc::new(Cell::new(false));
                sim.host(format!("n{h}"), move || {
                    let first = !started.replace(true);
                    let shc = shc.clone();
                    let prog = prog.clone();
                    async move {
                        if first {
                            host_main(shc, h, prog).await
                        } else {
                            Ok(())
                        }
                    }
                });
            }
            for (h, a) in addrs.iter_mut().enumerate() {
                *a = sim.lookup(format!("n{h}"));
            }
            let mut phase = 0; // 0 running ops, 1 settling, 2 draining
            let mut phase_until = 0u64;
            let mut s = 0u64;
            loop {
                s += 1;
                if s > cap {
                    return Err(format!("step cap {cap} reached in phase {phase} ({} of {} actors finished their ops)", sh.ops_done.get(), nactors));
                }
                sh.step.set(s as u32);
                if let Err(e) = sim.step() {
                    return Ok(Some(Violation::new("StepError", format!("Sim::step returned an error at step {s}: {e}"))));
                }
                match phase {
                    0 if sh.ops_done.get() == nactors => {
                        phase = 1;
                        phase_until = s + max_ticks as u64 + 4;
                    }
                    1 if s >= phase_until => {
                        sh.drain_now.set(true);
                        phase = 2;
                        phase_until = s + 3;
                    }
                    2 if sh.drained.get() == nactors || s >= phase_until => break,
                    _ => {}
                }
            }
            steps = s;
            drop(sim);
            Ok(None)
        });
        let mut violation = match res {
            Ok(Ok(v)) => v,
            Ok(Err(e)) => {
                harness_error = Some(e);
                None
            }
            Err(p) => {
                if p.contains("ports exhausted") || p.contains("ip version mismatch") {
                    harness_error = Some(format!("generator outside documented limits: {p}"));
                    None
                } else {
                    Some(Violation::new("Panic", format!("panic while running the simulation: {p}")))
                }
            }
        };

        // ---- replay the log into the reference model ----
        let evs = sh.evs.borrow().clone();
        let mut m = Model::new(
            addrs.clone(),
            NetCfg { capacity: sc.cfg.udp_capacity, min_ticks: (sc.cfg.min_latency_us.div_ceil(sc.cfg.tick_us.max(1))) as u32, max_ticks, healthy: sc.cfg.fail_rate_pm == 0 },
        );
        let mut cur: Vec<Vec<Option<usize>>> = sc.hosts.iter().map(|h| vec![None; h.actors.len()]).collect();
        let mut gens: Vec<Vec<u32>> = sc.hosts.iter().map(|h| vec![0; h.actors.len()]).collect();
        let mut rep = Report::default();
        let mut sends_by_class: [u64; 5] = [0; 5];
        if violation.is_none() && harness_error.is_none() {
            for e in &evs {
                let slot = cur[e.host][e.actor];
                match &e.k {
                    EvK::Bind { local, port, err } => {
                        if err.is_none() {
                            gens[e.host][e.actor] += 1;
                            let name = format!("n{}.a{}#{}", e.host, e.actor, gens[e.host][e.actor]);
                            // the bind table: one socket per (host, port)
                            let clash = m.socks.iter().any(|s| s.host == e.host && s.dead.is_none() && s.port() == *port);
                            if clash {
                                violation = Some(Violation::new("BindTable", format!("{name} bound port {port} although another live socket of n{} holds it", e.host)));
                                break;
                            }
                            cur[e.host][e.actor] = Some(m.bind(e.seq, e.step, e.host, name, *local, *port));
                        } else {
                            rep.probes.inc("bind_error");
                        }
                    }
                    EvK::Connect { target } => m.connect(slot.unwrap(), e.seq, e.step, *target),
                    EvK::SetBroadcast(on) => m.set_broadcast(slot.unwrap(), e.seq, e.step, *on),
                    EvK::SetLoop(on) => m.set_loop(slot.unwrap(), e.seq, e.step, *on),
                    EvK::Join { group, ok } => {
                        if *ok {
                            m.join(slot.unwrap(), e.seq, e.step, *group)
                        }
                    }
                    EvK::Leave { group, ok } => {
                        let was = m.is_member(slot.unwrap(), *group);
                        if *ok != was {
                            violation = Some(Violation::new("LeaveResult", format!("n{}.a{} leave({group}) returned ok={ok} but the membership table says member={was}", e.host, e.actor)));
                            break;
                        }
                        if *ok {
                            m.leave(slot.unwrap(), e.seq, e.step, *group)
                        }
                    }
                    EvK::Send { id, tag, dst, len, err } => {
                        m.send(e.seq, e.step, slot.unwrap(), *id, *tag, *dst, *len, err.is_none());
                        let d = m.sends.last().unwrap();
                        let ci = match d.class {
                            um::Class::Unicast(h) if h == e.host => 1,
                            um::Class::Unicast(_) => 0,
                            um::Class::Loopback => 1,
                            um::Class::Broadcast => 2,
                            um::Class::Multicast(_) => 3,
                            um::Class::Nowhere => 4,
                        };
                        sends_by_class[ci] += 1;
                        // the text does not fix the result of a broadcast send without the flag (turmoil
                        // reports PermissionDenied); only the delivery is judged
                        if let um::Class::Broadcast = d.class {
                            if !d.src_bcast {
                                rep.probes.inc(if err.is_some() { "broadcast_refused_without_flag" } else { "broadcast_accepted_without_flag" });
                            }
                        }
                    }
                    EvK::Recv { start_seq, start_step, ready_step, buf, first_pending, outcome } => {
                        if let Outcome::Data { len, bytes, .. } = outcome {
                            if *len == usize::MAX {
                                violation = Some(Violation::new("RecvError", format!("n{}.a{} receive failed: {}", e.host, e.actor, String::from_utf8_lossy(bytes))));
                                break;
                            }
                        }
                        m.recv(RecvRec { start_seq: *start_seq, start_step: *start_step, seq: e.seq, step: e.step, ready_step: *ready_step, sock: slot.unwrap(), buf: *buf, first_pending: *first_pending, outcome: outcome.clone() });
                    }
                    EvK::DropSock => {
                        m.drop_sock(slot.unwrap(), e.seq, e.step);
                        cur[e.host][e.actor] = None;
                    }
                }
            }
        }
        let mut nontrivial = false;
        if violation.is_none() && harness_error.is_none() {
            let (bad, st) = m.judge();
            if let Some(b) = bad {
                violation = Some(Violation::new(b.class, b.message));
            }
            nontrivial = st.fanout2 > 0 || st.overflow_loss_observed > 0;
            rep.probes.add("owed_datagram_socket_pairs", st.owed_pairs);
            rep.probes.add("receives_judged", st.allowed_receives);
            rep.probes.add("owed_short_datagram_socket_pairs", st.short_owed_pairs);
            rep.probes.add("receives_too_short_for_id_matched", st.ambiguous_receives);
            rep.probes.add("fanout_to_2plus_sockets", st.fanout2);
            rep.probes.add("overflow_loss_observed", st.overflow_loss_observed);
            rep.probes.add("received_in_ambiguous_window", st.received_after_leave_or_rebind_window);
            rep.probes.add("receives_where_text_is_silent", st.may_receives);
            rep.probes.add("truncated_receives", st.truncated_receives);
            for (k, v) in sh.counts.borrow().iter() {
                rep.probes.add(k, *v);
            }
            rep.probes.add("empty_queue_observations", st.empty_observations);
            rep.probes.add("datagrams_without_destination_seen_by_nobody", st.not_delivered_unbound_or_filtered);
            rep.faults.add("send_unicast_remote", sends_by_class[0]);
            rep.faults.add("send_same_host", sends_by_class[1]);
            rep.faults.add("send_broadcast", sends_by_class[2]);
            rep.faults.add("send_multicast", sends_by_class[3]);
            rep.faults.add("send_to_unowned_address", sends_by_class[4]);
            rep.faults.add("queue_overflow_drop", st.overflow_loss_observed);
            if sc.cfg.min_latency_us < sc.cfg.max_latency_us {
                rep.faults.inc("reordering_latency_range");
            }
            if sc.cfg.fail_rate_pm > 0 {
                rep.faults.inc("random_link_failures_enabled");
            }
            let drops = evs.iter().filter(|e| matches!(e.k, EvK::DropSock)).count() as u64;
            rep.faults.add("socket_drop", drops);
        }
        let log = sh.log.take();
        rep.abstract_digest = log.abs_digest();
        rep.full_digest = log.full_digest();
        rep.log = log.lines;
        rep.violation = violation;
        rep.harness_error = harness_error;
        rep.nontrivial = nontrivial;
        rep.steps = steps;
        rep.sim_ms = steps * sc.cfg.tick_us / 1000;
        rep
    }

    fn shrink(sc: &Scenario) -> Vec<Scenario> {
        let mut out = Vec::new();
        // empty a whole host / actor (indices stay valid)
        for h in 0..sc.hosts.len() {
            if sc.hosts[h].actors.iter().any(|a| !a.is_empty()) {
                let mut c = sc.clone();
                for a in c.hosts[h].actors.iter_mut() {
                    a.clear();
                }
                out.push(c);
            }
        }
        if sc.hosts.len() > 2 && sc.hosts.last().map(|h| h.actors.iter().all(|a| a.is_empty())).unwrap_or(false) {
            let last = sc.hosts.len() - 1;
            let referenced = sc.hosts.iter().flat_map(|h| h.actors.iter().flatten()).any(|o| op_refs_host(o, last));
            if !referenced {
                let mut c = sc.clone();
                c.hosts.pop();
                c.reg_order.retain(|x| (*x as usize) < last);
                out.push(c);
            }
        }
        for h in 0..sc.hosts.len() {
            for a in 0..sc.hosts[h].actors.len() {
                if !sc.hosts[h].actors[a].is_empty() {
                    let mut c = sc.clone();
                    c.hosts[h].actors[a].clear();
                    out.push(c);
                }
            }
        }
        for h in 0..sc.hosts.len() {
            for a in 0..sc.hosts[h].actors.len() {
                let n = sc.hosts[h].actors[a].len();
                // drop the tail half, then single ops
                if n > 3 {
                    let mut c = sc.clone();
                    c.hosts[h].actors[a].truncate(n / 2);
                    out.push(c);
                }
                for o in 0..n {
                    let mut c = sc.clone();
                    c.hosts[h].actors[a].remove(o);
                    out.push(c);
                }
            }
        }
        if sc.cfg.min_latency_us != sc.cfg.max_latency_us {
            let mut c = sc.clone();
            c.cfg.max_latency_us = c.cfg.min_latency_us;
            out.push(c);
        }
        if sc.cfg.min_latency_us > 0 {
            let mut c = sc.clone();
            c.cfg.min_latency_us = 0;
            c.cfg.max_latency_us = sc.cfg.max_latency_us - sc.cfg.min_latency_us;
            out.push(c);
        }
        if sc.cfg.random_order {
            let mut c = sc.clone();
            c.cfg.random_order = false;
            out.push(c);
        }
        if sc.cfg.udp_capacity != 64 {
            let mut c = sc.clone();
            c.cfg.udp_capacity = 64;
            out.push(c);
        }
        if sc.cfg.tick_us != 1000 {
            let mut c = sc.clone();
            let f = sc.cfg.tick_us / 1000;
            c.cfg.tick_us = 1000;
            c.cfg.min_latency_us /= f.max(1);
            c.cfg.max_latency_us /= f.max(1);
            out.push(c);
        }
        if sc.cfg.ipv6 && !sc.hosts.iter().flat_map(|h| h.actors.iter().flatten()).any(|o| matches!(o, Op::Send { to: Dst::Broadcast { .. }, .. })) {
            let mut c = sc.clone();
            c.cfg.ipv6 = false;
            out.push(c);
        }
        if sc.cfg.latency_curve_milli.is_some() {
            let mut c = sc.clone();
            c.cfg.latency_curve_milli = None;
            out.push(c);
        }
        let sorted: Vec<u8> = (0..sc.hosts.len() as u8).collect();
        if sc.reg_order != sorted {
            let mut c = sc.clone();
            c.reg_order = sorted;
            out.push(c);
        }
        // smaller payloads / larger buffers
        for h in 0..sc.hosts.len() {
            for a in 0..sc.hosts[h].actors.len() {
                for o in 0..sc.hosts[h].actors[a].len() {
                    match &sc.hosts[h].actors[a][o] {
                        Op::Send { to, len, try_send } if *len != 4 => {
                            let mut c = sc.clone();
                            c.hosts[h].actors[a][o] = Op::Send { to: *to, len: 4, try_send: *try_send };
                            out.push(c);
                        }
                        Op::Recv { buf, wait } if *buf != 64 => {
                            let mut c = sc.clone();
                            c.hosts[h].actors[a][o] = Op::Recv { buf: 64, wait: *wait };
                            out.push(c);
                        }
                        Op::Readable { buf, wait, reps, gap, consume } if *reps > 1 || !*consume || *gap > 0 => {
                            let mut c = sc.clone();
                            c.hosts[h].actors[a][o] = Op::Readable { buf: *buf, wait: *wait, reps: (*reps - 1).max(1), gap: 0, consume: true };
                            out.push(c);
                        }
                        Op::Sleep { ticks, extra_ms } if *extra_ms != 0 => {
                            let mut c = sc.clone();
                            c.hosts[h].actors[a][o] = Op::Sleep { ticks: *ticks, extra_ms: 0 };
                            out.push(c);
                        }
                        _ => {}
                    }
                }
            }
        }
        if sc.guarded {
            out.retain(guard_ok);
        }
        out
    }

    fn signature(sc: &Scenario) -> String {
        let mut kinds: Vec<&'static str> = Vec::new();
        for o in sc.hosts.iter().flat_map(|h| h.actors.iter().flatten()) {
            let k = match o {
                Op::Bind { local: true, .. } => "bindL",
                Op::Bind { .. } => "bind",
                Op::Connect { .. } => "connect",
                Op::SetBroadcast(_) => "bc",
                Op::SetLoop(_) => "loop",
                Op::Join { .. } => "join",
                Op::JoinBadIface { .. } => "join-bad-iface",
                Op::Leave { .. } => "leave",
                Op::Send { to: Dst::Broadcast { .. }, .. } => "sendB",
                Op::Send { to: Dst::Group { .. }, .. } => "sendM",
                Op::Send { to: Dst::Loopback { .. }, .. } => "sendL",
                Op::Send { to: Dst::Nowhere { .. }, .. } => "sendX",
                Op::Send { .. } => "sendU",
                Op::Recv { .. } => "recv",
                Op::TryRecv { .. } => "try",
                Op::Readable { .. } => "rdbl",
                Op::Drain { .. } => "drain",
                Op::Sleep { .. } => "sleep",
                Op::DropSock => "drop",
            };
            kinds.push(k);
        }
        format!("{}{}{} cap{} lat{}..{} {}", if rebind_triggers(sc).is_empty() { "" } else { "KNOWN[rebind] " }, if sc.guarded { "G" } else { "U" }, if sc.cfg.ipv6 { "v6" } else { "v4" }, sc.cfg.udp_capacity, sc.cfg.min_latency_us, sc.cfg.max_latency_us, kinds.join(","))
    }

    fn known_match(matcher: &str, sc: &Scenario, v: &Violation) -> bool {
        match matcher {
            // a multicast datagram in flight is handed to whichever socket holds the member's port at
            // delivery time, even one that never joined the group
            "multicast-in-flight-rebind" => v.class == "MisroutedToPortHeir" && !rebind_triggers(sc).is_empty(),
            _ => false,
        }
    }
}

fn op_refs_host(o: &Op, h: usize) -> bool {
    let pr = |p: &PortRef| matches!(p, PortRef::Of { host, .. } if *host as usize == h);
    let d = |d: &Dst| match d {
        Dst::Name { host, port } | Dst::Ip { host, port } => *host as usize == h || pr(port),
        Dst::Loopback { port } | Dst::Broadcast { port } | Dst::Group { port, .. } => pr(port),
        Dst::Nowhere { .. } => false,
    };
    match o {
        Op::Connect { to } | Op::Send { to, .. } => d(to),
        _ => false,
    }
}
