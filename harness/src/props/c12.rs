//! C12 — `turmoil::net` pairs every connect with exactly one accept, or refuses it.
//!
//! One listener program on host h0 (bind wildcard/localhost, accept, drop, re-bind, sleeps) and 1-4
//! connectors on 1-3 hosts (h0 itself through its own address or 127.0.0.1, other hosts by IP or by
//! name), optionally wrapped in `tokio::time::timeout`, aimed at the listener, at a port nobody
//! listens on or at an address no host owns. Each connector writes a nonce, each accepted stream
//! reads it. The controller script imposes hold/release and partitions around the handshake. The
//! verdict is a history check over the structured event list (connector events, listener events,
//! SYN arrivals observed through `Sim::links`), see `judge`.

use crate::core::prng::Rng;
use crate::core::{catch, Counters, Property, Report, Tier, Violation};
use crate::simkit::tcpprog::{gone, host_ip, host_name, inflight, kind_name, loopback, wildcard, Flight, LinkAct, MsgKind, Sleepers};
use crate::simkit::{CfgProfile, SharedLog, SimCfg};
use serde::{Deserialize, Serialize};
use std::cell::{Cell, RefCell};
use std::io;
use std::net::{IpAddr, Ipv4Addr, Ipv6Addr, SocketAddr};
use std::rc::Rc;
use std::time::Duration;
use tokio::io::{AsyncReadExt, AsyncWriteExt};
use turmoil::net::{TcpListener, TcpStream};

const LPORT: u16 = 2000;
const DEAD_PORT: u16 = 2999;
pub const KF_O4: &str = "failed-connect-leaks-stream-entry";

#[derive(Clone, Copy, Debug, Serialize, Deserialize, PartialEq, Eq)]
pub enum Via {
    /// by IP literal of the listener's host
    Ip,
    /// by host name
    Name,
    /// 127.0.0.1 / ::1 (connector lives on h0)
    Loopback,
}

#[derive(Clone, Copy, Debug, Serialize, Deserialize, PartialEq, Eq)]
pub enum Target {
    Listener,
    /// a port of h0 nobody ever binds
    UnboundPort,
    /// an address no host owns
    Unowned,
}

#[derive(Clone, Debug, Serialize, Deserialize, PartialEq)]
pub struct Connector {
    pub host: usize,
    pub via: Via,
    pub target: Target,
    /// ticks after the host started
    pub start: u16,
    /// tokio::time::timeout around the connect, in ticks
    pub timeout: Option<u16>,
    /// ticks the stream is kept after the nonce was written
    pub hold: u16,
    /// the pending connect future is raced (select!, cancel branch first) against a signal the listener
    /// program raises right after *any* accept() returned: the connector is cancelled in the window
    /// between the accept of its request and its own next poll — a window no timer can hit, because
    /// `tokio::time::timeout` polls the inner future first (what `JoinHandle::abort` or a `select!`
    /// on an application event do)
    #[serde(default)]
    pub abort_on_accept: bool,
}

#[derive(Clone, Debug, Serialize, Deserialize, PartialEq)]
pub enum LOp {
    Bind { localhost: bool },
    /// accept one connection; the accepted stream reads the nonce and is dropped `keep` ticks later
    Accept { keep: u16 },
    /// `n` (2 or 3) accept() calls parked concurrently on the one listener (join!); completes when all returned
    AcceptPar { n: u8, keep: u16 },
    Drop,
    Sleep { ticks: u16 },
}

#[derive(Clone, Debug, Serialize, Deserialize, PartialEq)]
pub struct Scenario {
    pub cfg: SimCfg,
    /// historical (O4 guard, removed once the defect was fixed); always false in generated scenarios
    pub guarded: bool,
    pub hosts: usize,
    pub lops: Vec<LOp>,
    pub conns: Vec<Connector>,
    pub script: Vec<(u32, LinkAct)>,
    /// the listener's port is the first port of the default ephemeral range (49152) instead of 2000:
    /// connectors on the listener's own host draw their local ports from that very range
    #[serde(default)]
    pub lport_eph: bool,
    /// IPv6 simulations only, wildcard binds only: loopback connectors dial 127.0.0.1 instead of ::1
    #[serde(default)]
    pub lo4: bool,
}

pub struct C12;

/// Can some connect of the scenario fail or be cancelled (statically)? Every failed, refused or
/// cancelled `TcpStream::connect` leaves its entry in the connector's stream table (O4).
pub fn o4_exposed(sc: &Scenario) -> bool {
    if sc.conns.iter().any(|c| c.target != Target::Listener || c.timeout.is_some()) {
        return true;
    }
    if sc.script.iter().any(|(_, a)| a.is_partition()) {
        return true;
    }
    // the listener: bound first thing, never dropped before the end, enough accepts for everybody
    let Some(LOp::Bind { localhost }) = sc.lops.first() else { return true };
    if *localhost && sc.conns.iter().any(|c| c.via != Via::Loopback) {
        return true;
    }
    if sc.lops.iter().skip(1).any(|o| matches!(o, LOp::Drop | LOp::Bind { .. })) {
        return true;
    }
    let accepts: usize = sc.lops.iter().map(|o| match o { LOp::Accept { .. } => 1, LOp::AcceptPar { n, .. } => *n as usize, _ => 0 }).sum();
    accepts < sc.conns.len()
}

fn gen_scenario(rng: &mut Rng) -> Scenario {
    // (O4 is fixed in /repo: refusals, cancellations, partitions and listener drops everywhere)
    let guarded = false;
    // half of the listener programs are orderly (bind first, an accept for everybody) so that
    // queues of several pending requests stay frequent; the connectors and the script are unrestricted
    let orderly = rng.chance(1, 2);
    let mut cfg = SimCfg::gen(rng, &CfgProfile { latency_range: true, random_failures: false, small_capacities: false, max_tick_ms: 20, max_latency_ticks: 10 });
    cfg.fail_rate_pm = 0;
    let lat = cfg.max_latency_ticks();
    let hosts = rng.usize(1, 3);
    let n = rng.usize(1, 4);
    // pending requests stay below tcp_capacity (documented panic otherwise)
    cfg.tcp_capacity = *rng.pick(&[n + 1, n + 1, 8, 64]);
    let mut conns: Vec<Connector> = Vec::new();
    // a third of the scenarios send their requests in one burst (same start tick): several requests
    // reach the listener in one step
    let burst = if rng.chance(1, 3) { Some(rng.range(1, 6 + 2 * lat) as u16) } else { None };
    for _ in 0..n {
        let host = rng.usize(0, hosts - 1);
        let via = if host == 0 { *rng.pick(&[Via::Ip, Via::Loopback]) } else { *rng.pick(&[Via::Ip, Via::Name]) };
        let target = *rng.pick(&[Target::Listener, Target::Listener, Target::Listener, Target::Listener, Target::Listener, Target::Listener, Target::UnboundPort, Target::Unowned]);
        // arrival steps of different connectors differ by >= 2 ticks where the latency allows it to
        // be arranged; ties are not judged anyway
        let mut start = rng.range(1, 6 + 2 * lat) as u16;
        for _ in 0..8 {
            if conns.iter().any(|c| c.host == host && c.start == start) {
                start += 1;
            }
        }
        if let Some(b) = burst {
            start = b;
        }
        let timeout = if rng.chance(1, 4) { Some(rng.range(1, 2 * lat + 8) as u16) } else { None };
        let abort_on_accept = timeout.is_none() && target == Target::Listener && rng.chance(1, 6);
        conns.push(Connector { host, via, target, start, timeout, hold: rng.range(0, 6) as u16, abort_on_accept });
    }
    let all_loop = conns.iter().all(|c| c.via == Via::Loopback);
    let mut lops = Vec::new();
    if orderly {
        lops.push(LOp::Bind { localhost: all_loop && rng.chance(1, 2) });
        let extra = rng.usize(0, 1);
        let mut left = n + extra;
        while left > 0 {
            if rng.chance(1, 2) {
                lops.push(LOp::Sleep { ticks: rng.range(1, 4 + 2 * lat) as u16 });
            }
            if left >= 2 && rng.chance(1, 3) {
                let k = if left >= 3 && rng.chance(1, 3) { 3 } else { 2 };
                lops.push(LOp::AcceptPar { n: k as u8, keep: rng.range(0, 6) as u16 });
                left -= k;
            } else {
                lops.push(LOp::Accept { keep: rng.range(0, 6) as u16 });
                left -= 1;
            }
        }
    } else {
        if rng.chance(1, 5) {
            lops.push(LOp::Sleep { ticks: rng.range(1, 4 + lat) as u16 });
        }
        lops.push(LOp::Bind { localhost: rng.chance(1, 5) });
        for _ in 0..rng.usize(0, 7) {
            lops.push(match rng.below(10) {
                0..=3 => LOp::Accept { keep: rng.range(0, 6) as u16 },
                4 => LOp::AcceptPar { n: rng.range(2, 3) as u8, keep: rng.range(0, 6) as u16 },
                5 | 6 => LOp::Sleep { ticks: rng.range(1, 4 + 2 * lat) as u16 },
                7 => LOp::Drop,
                _ => LOp::Bind { localhost: rng.chance(1, 5) },
            });
        }
    }
    let mut script = Vec::new();
    let remote: Vec<usize> = conns.iter().filter(|c| c.host != 0).map(|c| c.host).collect();
    if !remote.is_empty() && rng.chance(1, 2) {
        // hold and one-way partitions are not mixed (documented as unsupported); a full partition
        // of a held link is fine: it drops what the hold kept back
        let kind = rng.below(7);
        let part = kind < 2;
        for _ in 0..rng.usize(1, 2) {
            let h = *rng.pick(&remote);
            let s1 = rng.range(1, 8 + 3 * lat) as u32;
            let s2 = s1 + rng.range(1, 6 + 2 * lat) as u32;
            if kind == 4 {
                // hold, then partition the same link while requests are kept back, then repair / release
                script.push((s1, LinkAct::Hold(h, 0)));
                script.push((s2, LinkAct::Partition(h, 0)));
                let s3 = s2 + rng.range(1, 6 + 2 * lat) as u32;
                match rng.below(3) {
                    0 => script.push((s3, LinkAct::Repair(h, 0))),
                    1 => script.push((s3, LinkAct::Release(h, 0))),
                    _ => {
                        script.push((s3, LinkAct::Repair(h, 0)));
                        script.push((s3 + 1, LinkAct::Release(h, 0)));
                    }
                }
            } else if kind == 6 {
                // one direction cut first (either one), then the whole link
                script.push((s1, if rng.bool() { LinkAct::PartitionOneway(0, h) } else { LinkAct::PartitionOneway(h, 0) }));
                script.push((s2, LinkAct::Partition(h, 0)));
                if rng.chance(1, 2) {
                    script.push((s2 + rng.range(1, 6 + 2 * lat) as u32, LinkAct::Repair(h, 0)));
                }
            } else if kind == 5 {
                // hold, then repair (which does not let go of what the hold kept back), then release
                script.push((s1, LinkAct::Hold(h, 0)));
                script.push((s2, LinkAct::Repair(h, 0)));
                // ... or no release at all: what was kept back stays there, but the link works again
                if rng.chance(2, 3) {
                    script.push((s2 + rng.range(1, 6 + 2 * lat) as u32, LinkAct::Release(h, 0)));
                }
            } else if part {
                script.push((s1, if rng.chance(1, 2) { LinkAct::Partition(h, 0) } else { LinkAct::PartitionOneway(h, 0) }));
                if rng.chance(3, 4) {
                    script.push((s2, LinkAct::Repair(h, 0)));
                }
            } else {
                script.push((s1, LinkAct::Hold(h, 0)));
                script.push((s2, LinkAct::Release(h, 0)));
            }
        }
        script.sort_by_key(|(s, _)| *s);
    }
    let lport_eph = rng.chance(1, 6);
    if !lport_eph && rng.chance(1, 4) {
        // a small ephemeral range (always one port more than connectors)
        let span = n as u16 + rng.range(0, 2) as u16;
        cfg.ephemeral = Some((50_000, 50_000 + span));
    }
    let lo4 = cfg.ipv6 && rng.chance(1, 3) && !lops.iter().any(|o| matches!(o, LOp::Bind { localhost: true }));
    Scenario { cfg, guarded, hosts, lops, conns, script, lport_eph, lo4 }
}

// ------------------------------------------------------------------------------------------------
// structured events

#[derive(Clone, Debug)]
enum Ev {
    ConnStart { x: usize },
    ConnOk { x: usize, local: SocketAddr, peer: SocketAddr },
    ConnErr { x: usize, kind: io::ErrorKind },
    /// the timeout fired: the pending connect future was dropped
    ConnGaveUp { x: usize },
    ConnDrop { x: usize },
    LBind { ok: bool, localhost: bool },
    LDrop,
    AcceptStart,
    AcceptOk { a: usize, local: SocketAddr, peer: SocketAddr, origin: SocketAddr },
    Nonce { a: usize, got: Option<u64>, timed_out: bool },
    AccDrop { a: usize },
    /// a SYN left the link during this step (delivered to h0)
    Arrive { src: SocketAddr },
    /// a SYN vanished from the link between two steps (partition)
    SynLost { src: SocketAddr },
    Act(LinkAct),
    Audit { host: usize, own: usize, on: Vec<usize> },
}

#[derive(Clone, Debug)]
struct Rec {
    seq: u64,
    /// 3*step for host events, 3*step-1 for arrivals during the step, 3*step-2 for controller
    /// actions before the step
    t3: u64,
    ev: Ev,
}

#[derive(Clone)]
struct Sh {
    log: SharedLog,
    evs: Rc<RefCell<Vec<Rec>>>,
    step: Rc<Cell<u32>>,
    sleepers: Sleepers,
    audit: Rc<Cell<bool>>,
    accepted: Rc<Cell<usize>>,
    /// raised (notify_waiters) by the listener program right after an accept() returned
    accept_note: Rc<tokio::sync::Notify>,
    tick: Duration,
    hosts: usize,
    ipv6: bool,
    lport: u16,
    lo4: bool,
}

impl Sh {
    fn host_ev(&self, ev: Ev, line: String) {
        let seq = self.log.ev(format!("[step {}] {line}", self.step.get()));
        self.evs.borrow_mut().push(Rec { seq, t3: 3 * self.step.get() as u64, ev });
    }
    fn ctl_ev(&self, t3: u64, ev: Ev, line: String) {
        let seq = self.log.ev(line);
        self.evs.borrow_mut().push(Rec { seq, t3, ev });
    }
    async fn sleep_ticks(&self, n: u64) {
        if n > 0 {
            self.sleepers.sleep(self.tick * n as u32).await;
        }
    }
}

fn nonce_of(x: usize) -> u64 {
    0xC12C_0000_0000_0000 | x as u64
}

fn unowned(ipv6: bool) -> IpAddr {
    if ipv6 {
        IpAddr::V6(Ipv6Addr::new(0xfe80, 0, 0, 0, 0, 0, 9, 9))
    } else {
        IpAddr::V4(Ipv4Addr::new(192, 168, 9, 9))
    }
}

async fn acceptor(sh: Sh, a: usize, mut s: TcpStream, keep: u16, wait: u64) {
    let mut buf = [0u8; 8];
    let r = sh.sleepers.timed(tokio::time::timeout(sh.tick * wait as u32, s.read_exact(&mut buf))).await;
    let got = match r {
        Ok(Ok(_)) => Some(u64::from_be_bytes(buf)),
        _ => None,
    };
    sh.host_ev(Ev::Nonce { a, got, timed_out: r.is_err() }, format!("accepted #{a}: nonce {}", got.map(|g| format!("{g:#x}")).unwrap_or_else(|| format!("not received ({})", if r.is_err() { "timed out" } else { "eof/error" }))));
    sh.sleep_ticks(keep as u64).await;
    drop(s);
    sh.host_ev(Ev::AccDrop { a }, format!("accepted #{a}: stream dropped"));
}

async fn accept_one(sh: &Sh, li: &TcpListener, keep: u16, wait: u64) {
    sh.host_ev(Ev::AcceptStart, "listener: accept ...".into());
    match li.accept().await {
        Ok((s, origin)) => {
            let a = sh.accepted.get();
            sh.accepted.set(a + 1);
            let (local, peer) = (s.local_addr().unwrap(), s.peer_addr().unwrap());
            sh.host_ev(Ev::AcceptOk { a, local, peer, origin }, format!("listener: accept -> #{a} local={local} peer={peer} origin={origin}"));
            sh.accept_note.notify_waiters();
            tokio::task::spawn_local(acceptor(sh.clone(), a, s, keep, wait));
        }
        Err(e) => {
            sh.log.ev(format!("listener: accept -> Err {}", kind_name(e.kind())));
        }
    }
}

async fn listener_prog(sh: Sh, sc: Rc<Scenario>) {
    let mut l: Option<TcpListener> = None;
    let wait = sc.cfg.max_latency_ticks() + 6;
    for op in &sc.lops {
        match op {
            LOp::Bind { localhost } => {
                if l.is_some() {
                    continue;
                }
                let ip = if *localhost { loopback(sh.ipv6) } else { wildcard(sh.ipv6) };
                match TcpListener::bind((ip, sh.lport)).await {
                    Ok(x) => {
                        sh.host_ev(Ev::LBind { ok: true, localhost: *localhost }, format!("listener: bind {ip}:{} -> Ok", sh.lport));
                        l = Some(x);
                    }
                    Err(e) => sh.host_ev(Ev::LBind { ok: false, localhost: *localhost }, format!("listener: bind {ip}:{} -> Err {}", sh.lport, kind_name(e.kind()))),
                }
            }
            LOp::Accept { keep } => {
                let Some(li) = &l else { continue };
                accept_one(&sh, li, *keep, wait).await;
            }
            LOp::AcceptPar { n, keep } => {
                let Some(li) = &l else { continue };
                if *n >= 3 {
                    tokio::join!(accept_one(&sh, li, *keep, wait), accept_one(&sh, li, *keep, wait), accept_one(&sh, li, *keep, wait));
                } else {
                    tokio::join!(accept_one(&sh, li, *keep, wait), accept_one(&sh, li, *keep, wait));
                }
            }
            LOp::Drop => {
                if let Some(x) = l.take() {
                    drop(x);
                    sh.host_ev(Ev::LDrop, "listener: dropped".into());
                }
            }
            LOp::Sleep { ticks } => sh.sleep_ticks(*ticks as u64).await,
        }
    }
    if let Some(x) = l.take() {
        drop(x);
        sh.host_ev(Ev::LDrop, "listener: dropped (end of program)".into());
    }
}

async fn connector(sh: Sh, x: usize, c: Connector) {
    sh.sleep_ticks(c.start.max(1) as u64).await;
    let port = if c.target == Target::UnboundPort { DEAD_PORT } else { sh.lport };
    sh.host_ev(Ev::ConnStart { x }, format!("connector {x} on h{}: connect {:?} via {:?} timeout {:?}", c.host, c.target, c.via, c.timeout));
    let (sh2, ipv6) = (sh.clone(), sh.ipv6);
    let fut = async move {
        let _ = &sh2;
        match (c.target, c.via) {
            (Target::Unowned, _) => TcpStream::connect((unowned(ipv6), port)).await,
            (_, Via::Ip) => TcpStream::connect((host_ip(0, ipv6), port)).await,
            (_, Via::Name) => TcpStream::connect((host_name(0), port)).await,
            (_, Via::Loopback) => TcpStream::connect((loopback(ipv6 && !sh2.lo4), port)).await,
        }
    };
    let r = match c.timeout {
        None if c.abort_on_accept => {
            let note = sh.accept_note.clone();
            let cancelled = async move { note.notified().await };
            tokio::select! {
                biased;
                _ = cancelled => {
                    sh.host_ev(Ev::ConnGaveUp { x }, format!("connector {x}: cancelled by the accept signal, connect future dropped"));
                    return;
                }
                r = fut => r,
            }
        }
        Some(t) => match sh.sleepers.timed(tokio::time::timeout(sh.tick * t as u32, fut)).await {
            Ok(r) => r,
            Err(_) => {
                sh.host_ev(Ev::ConnGaveUp { x }, format!("connector {x}: timeout after {t} ticks, connect future dropped"));
                return;
            }
        },
        None => fut.await,
    };
    match r {
        Ok(mut s) => {
            let (local, peer) = (s.local_addr().unwrap(), s.peer_addr().unwrap());
            sh.host_ev(Ev::ConnOk { x, local, peer }, format!("connector {x}: connected local={local} peer={peer}"));
            let w = s.write_all(&nonce_of(x).to_be_bytes()).await;
            sh.log.ev(format!("connector {x}: nonce written -> {}", w.as_ref().map(|_| "Ok").unwrap_or("Err")));
            sh.sleep_ticks(c.hold as u64).await;
            drop(s);
            sh.host_ev(Ev::ConnDrop { x }, format!("connector {x}: stream dropped"));
        }
        Err(e) => sh.host_ev(Ev::ConnErr { x, kind: e.kind() }, format!("connector {x}: connect -> Err {} ({e})", kind_name(e.kind()))),
    }
}

async fn auditor(sh: Sh, host: usize) {
    loop {
        tokio::time::sleep(sh.tick).await;
        if sh.audit.get() {
            let own = turmoil::established_tcp_stream_count();
            let on: Vec<usize> = (0..sh.hosts).map(|h| turmoil::established_tcp_stream_count_on(host_name(h))).collect();
            sh.host_ev(Ev::Audit { host, own, on: on.clone() }, format!("audit on h{host}: established_tcp_stream_count()={own} established_tcp_stream_count_on(h0..)={on:?}"));
            break;
        }
    }
    std::future::pending::<()>().await;
}

async fn host_main(sh: Sh, host: usize, sc: Rc<Scenario>) -> turmoil::Result {
    if host == 0 {
        tokio::task::spawn_local(listener_prog(sh.clone(), sc.clone()));
    }
    for (x, c) in sc.conns.iter().enumerate() {
        if c.host == host {
            tokio::task::spawn_local(connector(sh.clone(), x, c.clone()));
        }
    }
    auditor(sh.clone(), host).await;
    Ok(())
}

// ------------------------------------------------------------------------------------------------
// the controller

struct Outcome {
    recs: Vec<Rec>,
    syn_src: Vec<Option<SocketAddr>>,
    /// some but not all SYNs of the connects started together on one host were seen on the link:
    /// which is whose cannot be told
    syn_amb: Vec<bool>,
    hook_streams: Vec<usize>,
    end_step: u32,
    /// SYNs still sitting on a link when the run ended
    stuck_syn: Vec<SocketAddr>,
    audited: bool,
}

fn step_cap(sc: &Scenario) -> u32 {
    let lat = sc.cfg.max_latency_ticks() + 2;
    let mut t = 40 + 4 * lat;
    for c in &sc.conns {
        t += c.start as u64 + c.timeout.unwrap_or(0) as u64 + c.hold as u64 + 2 * lat;
    }
    for o in &sc.lops {
        t += match o {
            LOp::Sleep { ticks } => *ticks as u64,
            LOp::Accept { keep } | LOp::AcceptPar { keep, .. } => *keep as u64 + lat + 8,
            _ => 1,
        };
    }
    t += sc.script.iter().map(|(s, _)| *s as u64).max().unwrap_or(0);
    t.min(5000) as u32
}

fn execute(sc: &Scenario, keep: bool) -> (Report, Option<Outcome>) {
    let sh = Sh {
        log: SharedLog::new(keep),
        evs: Rc::new(RefCell::new(Vec::new())),
        step: Rc::new(Cell::new(0)),
        sleepers: Sleepers::default(),
        audit: Rc::new(Cell::new(false)),
        accepted: Rc::new(Cell::new(0)),
        accept_note: Rc::new(tokio::sync::Notify::new()),
        tick: sc.cfg.tick(),
        hosts: sc.hosts,
        ipv6: sc.cfg.ipv6,
        lport: if sc.lport_eph { 49152 } else { LPORT },
        lo4: sc.lo4,
    };
    let scr = Rc::new(sc.clone());
    let cap = step_cap(sc);
    let quiet_need = sc.cfg.max_latency_ticks() + 3;
    let mut faults = Counters::default();
    let mut out: Option<Outcome> = None;
    let mut step_err: Option<String> = None;
    let mut steps = 0u32;

    let res = catch(|| {
        let mut sim = sc.cfg.build();
        for i in 0..sc.hosts {
            let (shc, scc) = (sh.clone(), scr.clone());
            sim.host(host_name(i), move || host_main(shc.clone(), i, scc.clone()));
        }
        let mut syn_src: Vec<Option<SocketAddr>> = vec![None; sc.conns.len()];
        let mut syn_amb: Vec<bool> = vec![false; sc.conns.len()];
        let mut prev_after: Vec<Flight> = Vec::new();
        let mut holds: Vec<usize> = Vec::new();
        let last_script = sc.script.iter().map(|(s, _)| *s).max().unwrap_or(0);
        let mut quiet = 0u64;
        let is_syn = |f: &Flight| f.kind == MsgKind::Syn;
        let mut s = 0u32;
        while s < cap {
            s += 1;
            steps = s;
            sh.step.set(s);
            for (at, act) in &sc.script {
                let (a, b) = act.hosts();
                if *at == s && a < sc.hosts && b < sc.hosts && a != b {
                    act.apply(&sim);
                    faults.inc(act.name());
                    sh.ctl_ev(3 * s as u64 - 2, Ev::Act(act.clone()), format!("ctl before step {s}: {} h{a} h{b}", act.name()));
                    let h = a.max(b);
                    match act {
                        LinkAct::Hold(..) => {
                            if !holds.contains(&h) {
                                holds.push(h)
                            }
                        }
                        LinkAct::Release(..) | LinkAct::Partition(..) | LinkAct::Repair(..) => holds.retain(|x| *x != h),
                        _ => {}
                    }
                }
            }
            let before = inflight(&sim);
            for f in gone(&prev_after, &before).into_iter().filter(is_syn) {
                sh.ctl_ev(3 * s as u64 - 2, Ev::SynLost { src: f.src }, format!("ctl before step {s}: SYN {}->{} vanished from the link", f.src, f.dst));
            }
            let seq0 = sh.log.seq();
            let nev0 = sh.evs.borrow().len();
            if let Err(e) = sim.step() {
                step_err = Some(format!("Sim::step returned an error at step {s}: {e}"));
                break;
            }
            let after = inflight(&sim);
            for f in gone(&before, &after).into_iter().filter(is_syn) {
                sh.ctl_ev(3 * s as u64 - 1, Ev::Arrive { src: f.src }, format!("ctl step {s}: SYN {}->{} delivered", f.src, f.dst));
            }
            // SYNs that appeared during this step belong to the connects started in it (per host, in call order)
            let new_syns: Vec<Flight> = gone(&after, &before).into_iter().filter(is_syn).collect();
            let started: Vec<usize> = sh.evs.borrow()[nev0..].iter().filter_map(|r| if let Ev::ConnStart { x } = r.ev { Some(x) } else { None }).collect();
            for h in 1..sc.hosts {
                let ip = host_ip(h, sc.cfg.ipv6);
                let syns: Vec<&Flight> = new_syns.iter().filter(|f| f.src.ip() == ip).collect();
                let xs: Vec<usize> = started.iter().copied().filter(|x| sc.conns[*x].host == h && sc.conns[*x].target != Target::Unowned).collect();
                if syns.len() == xs.len() {
                    for (x, f) in xs.iter().zip(syns) {
                        syn_src[*x] = Some(f.src);
                    }
                } else if !syns.is_empty() {
                    for x in &xs {
                        syn_amb[*x] = true;
                    }
                }
            }
            let moving = after.iter().any(|f| {
                let h = (1..sc.hosts).find(|h| host_ip(*h, sc.cfg.ipv6) == f.src.ip() || host_ip(*h, sc.cfg.ipv6) == f.dst.ip());
                h.map(|h| !holds.contains(&h)).unwrap_or(true)
            });
            prev_after = after;
            let active = sh.log.seq() != seq0 || moving || sh.sleepers.count() > 0 || s <= last_script;
            if active {
                quiet = 0;
            } else {
                quiet += 1;
                if quiet >= quiet_need {
                    break;
                }
            }
        }
        let end_step = steps;
        let mut audited = false;
        if step_err.is_none() {
            sh.audit.set(true);
            for k in 1..=2 {
                sh.step.set(end_step + k);
                steps = end_step + k;
                if let Err(e) = sim.step() {
                    step_err = Some(format!("Sim::step returned an error during the audit: {e}"));
                    break;
                }
            }
            audited = step_err.is_none();
        }
        let hook_streams = (0..sc.hosts).map(|h| sim.verif_host_table_counts(host_name(h)).tcp_streams).collect();
        let stuck_syn = inflight(&sim).into_iter().filter(is_syn).map(|f| f.src).collect();
        drop(sim);
        out = Some(Outcome { recs: sh.evs.borrow().clone(), syn_src, syn_amb, hook_streams, end_step, stuck_syn, audited });
    });

    let mut violation = None;
    let mut harness_error = None;
    let mut probes = Counters::default();
    let mut nontrivial = false;
    match res {
        Err(p) => {
            if p.contains("server socket buffer full") || p.contains("ports exhausted") {
                harness_error = Some(format!("generator left the documented limits: {p}"));
            } else {
                violation = Some(Violation::new("Panic", format!("panic while running the simulation (step {steps}): {p}")));
            }
        }
        Ok(()) => {
            if let Some(e) = step_err {
                violation = Some(Violation::new("StepError", e));
            } else if let Some(o) = &out {
                let (v, nt) = judge(sc, o, &mut probes);
                violation = v;
                nontrivial = nt;
            }
        }
    }
    if let Some(o) = &out {
        for r in &o.recs {
            sh.log.tag(match &r.ev {
                Ev::ConnStart { .. } => "cs",
                Ev::ConnOk { .. } => "cok",
                Ev::ConnErr { .. } => "cerr",
                Ev::ConnGaveUp { .. } => "cgu",
                Ev::ConnDrop { .. } => "cdr",
                Ev::LBind { ok: true, .. } => "lb",
                Ev::LBind { ok: false, .. } => "lbe",
                Ev::LDrop => "ld",
                Ev::AcceptStart => "as",
                Ev::AcceptOk { .. } => "aok",
                Ev::Nonce { got: Some(_), .. } => "n",
                Ev::Nonce { got: None, .. } => "n-",
                Ev::AccDrop { .. } => "adr",
                Ev::Arrive { .. } => "arr",
                Ev::SynLost { .. } => "lost",
                Ev::Act(a) => a.name(),
                Ev::Audit { .. } => "aud",
            });
        }
    }
    let mut rep = Report::from_log(sh.log.take());
    rep.violation = violation;
    rep.harness_error = harness_error;
    rep.nontrivial = nontrivial;
    rep.faults = faults;
    rep.probes = probes;
    rep.steps = steps as u64;
    rep.sim_ms = steps as u64 * sc.cfg.tick_us / 1000;
    (rep, out)
}

// ------------------------------------------------------------------------------------------------
// the history check

#[derive(Clone, Debug, PartialEq)]
enum Res {
    Pending,
    Ok { local: SocketAddr, peer: SocketAddr },
    Err(io::ErrorKind),
    GaveUp,
}

#[derive(Clone, Debug)]
struct CInfo {
    started: bool,
    start_t3: u64,
    res: Res,
    res_t3: u64,
    res_seq: u64,
    dropped: bool,
    /// arrival of the request at h0 as an interval of t3 instants
    arr: Option<(u64, u64)>,
    /// the arrival cannot be determined (see Outcome::syn_amb)
    arr_unknown: bool,
    lost_t3: Option<u64>,
    /// index of the accept that returned this connector's stream
    paired: Option<usize>,
}

#[derive(Clone, Debug)]
struct AInfo {
    seq: u64,
    t3: u64,
    local: SocketAddr,
    peer: SocketAddr,
    origin: SocketAddr,
    nonce: Option<Option<u64>>,
    nonce_timed_out: bool,
    dropped: bool,
    pair: Option<usize>,
}

#[derive(Clone, Copy, Debug, PartialEq)]
enum LState {
    Unbound,
    Bound { localhost: bool },
}

#[derive(Clone, Copy, Debug, PartialEq)]
enum DirState {
    Healthy,
    Held,
    Partitioned,
}

fn step_of(t3: u64) -> u64 {
    t3.div_ceil(3)
}

/// State of the direction h -> h0 after all controller actions with instant <= t3.
fn dir_state(recs: &[Rec], h: usize, t3: u64) -> DirState {
    let mut st = DirState::Healthy;
    for r in recs {
        if r.t3 > t3 {
            continue;
        }
        if let Ev::Act(a) = &r.ev {
            let (x, y) = a.hosts();
            if !((x == h && y == 0) || (x == 0 && y == h)) {
                continue;
            }
            match a {
                LinkAct::Hold(..) => st = DirState::Held,
                // (a repair of a held link makes it healthy for new messages; what the hold kept back stays
                // held until a release — see `still_held`)
                LinkAct::Release(..) | LinkAct::Repair(..) => st = DirState::Healthy,
                LinkAct::Partition(..) => st = DirState::Partitioned,
                LinkAct::PartitionOneway(from, _) if *from == h => st = DirState::Partitioned,
                LinkAct::RepairOneway(from, _) if *from == h => st = DirState::Healthy,
                _ => {}
            }
        }
    }
    st
}

/// A request sent at `from` while the link was held is kept back until the link is released or
/// partitioned; a repair alone does not let go of it.
fn still_held(recs: &[Rec], h: usize, from: u64, until: u64) -> bool {
    if dir_state(recs, h, from) != DirState::Held {
        return false;
    }
    !recs.iter().any(|r| r.t3 > from && r.t3 <= until && matches!(&r.ev, Ev::Act(LinkAct::Release(a, b) | LinkAct::Partition(a, b)) if (*a == h && *b == 0) || (*a == 0 && *b == h)))
}

fn held_within(recs: &[Rec], h: usize, from: u64, to: u64) -> bool {
    if dir_state(recs, h, from) == DirState::Held {
        return true;
    }
    recs.iter().any(|r| r.t3 >= from && r.t3 <= to && matches!(&r.ev, Ev::Act(LinkAct::Hold(a, b)) if (*a == h && *b == 0) || (*a == 0 && *b == h)))
}

/// Listener state seen by a request arriving in [lo, hi]; None when a bind/drop falls into the window.
fn lstate(levs: &[(u64, LState)], lo: u64, hi: u64) -> Option<LState> {
    let mut st = LState::Unbound;
    for (t, s) in levs {
        if *t < lo {
            st = *s;
        } else if *t <= hi {
            return None;
        }
    }
    Some(st)
}

fn judge(sc: &Scenario, o: &Outcome, probes: &mut Counters) -> (Option<Violation>, bool) {
    let recs = &o.recs;
    let lat = sc.cfg.max_latency_ticks();
    let n = sc.conns.len();
    let mut ci: Vec<CInfo> = vec![CInfo { started: false, start_t3: 0, res: Res::Pending, res_t3: 0, res_seq: 0, dropped: false, arr: None, arr_unknown: false, lost_t3: None, paired: None }; n];
    let mut acc: Vec<AInfo> = Vec::new();
    let mut levs: Vec<(u64, LState)> = Vec::new();
    let mut ldrops: Vec<(u64, u64)> = Vec::new(); // (t3, seq)
    let mut bind_failed_after_drop: Option<u64> = None;
    let mut was_dropped = false;
    let mut accepts_outstanding = 0i64;
    let mut max_parked = 0i64;
    for r in recs {
        match &r.ev {
            Ev::ConnStart { x } => {
                ci[*x].started = true;
                ci[*x].start_t3 = r.t3;
            }
            Ev::ConnOk { x, local, peer } => {
                ci[*x].res = Res::Ok { local: *local, peer: *peer };
                ci[*x].res_t3 = r.t3;
                ci[*x].res_seq = r.seq;
            }
            Ev::ConnErr { x, kind } => {
                ci[*x].res = Res::Err(*kind);
                ci[*x].res_t3 = r.t3;
                ci[*x].res_seq = r.seq;
            }
            Ev::ConnGaveUp { x } => {
                ci[*x].res = Res::GaveUp;
                ci[*x].res_t3 = r.t3;
                ci[*x].res_seq = r.seq;
            }
            Ev::ConnDrop { x } => ci[*x].dropped = true,
            Ev::LBind { ok, localhost } => {
                if *ok {
                    levs.push((r.t3, LState::Bound { localhost: *localhost }));
                    if was_dropped {
                        probes.inc("listener_rebound");
                    }
                } else if bind_failed_after_drop.is_none() {
                    bind_failed_after_drop = Some(step_of(r.t3));
                }
            }
            Ev::LDrop => {
                levs.push((r.t3, LState::Unbound));
                ldrops.push((r.t3, r.seq));
                was_dropped = true;
            }
            Ev::AcceptStart => {
                accepts_outstanding += 1;
                max_parked = max_parked.max(accepts_outstanding);
            }
            Ev::AcceptOk { a, local, peer, origin } => {
                debug_assert_eq!(*a, acc.len());
                accepts_outstanding -= 1;
                acc.push(AInfo { seq: r.seq, t3: r.t3, local: *local, peer: *peer, origin: *origin, nonce: None, nonce_timed_out: false, dropped: false, pair: None });
            }
            Ev::Nonce { a, got, timed_out } => {
                acc[*a].nonce = Some(*got);
                acc[*a].nonce_timed_out = *timed_out;
            }
            Ev::AccDrop { a } => acc[*a].dropped = true,
            _ => {}
        }
    }
    // the listener program only binds when it holds no listener: a failing bind is a violation
    if let Some(step) = bind_failed_after_drop {
        return (Some(Violation::new("BindFailed", format!("TcpListener::bind on the listener port failed at step {step} although the program holds no listener on that port (after a drop the port must be bindable again)"))), false);
    }

    // ---- arrivals ----
    for x in 0..n {
        let c = &sc.conns[x];
        if !ci[x].started || c.target == Target::Unowned {
            continue;
        }
        let s0 = ci[x].start_t3 / 3;
        if c.host == 0 {
            // loopback / own address: handed over by a task that sleeps one tick
            ci[x].arr = Some((3 * (s0 + 1) - 1, 3 * (s0 + 1)));
            continue;
        }
        if dir_state(recs, c.host, ci[x].start_t3) == DirState::Partitioned {
            continue; // dropped at the call
        }
        let src = match &ci[x].res {
            Res::Ok { local, .. } => Some(*local),
            _ => o.syn_src[x],
        };
        // (with a small ephemeral range a source address is used again by a later connector: an event on the
        // link belongs to the latest connector with that address that had started by then)
        let later_same_src: Vec<u64> = (0..n)
            .filter(|&y| y != x && ci[y].started && ci[y].start_t3 > ci[x].start_t3)
            .filter(|&y| {
                let sy = match &ci[y].res {
                    Res::Ok { local, .. } => Some(*local),
                    _ => o.syn_src[y],
                };
                sy.is_some() && sy == src
            })
            .map(|y| ci[y].start_t3)
            .collect();
        match src {
            Some(src) => {
                for r in recs {
                    if r.t3 < ci[x].start_t3 || later_same_src.iter().any(|t| *t <= r.t3) {
                        continue;
                    }
                    match &r.ev {
                        Ev::Arrive { src: s } if *s == src && ci[x].arr.is_none() && ci[x].lost_t3.is_none() => ci[x].arr = Some((r.t3, r.t3)),
                        Ev::SynLost { src: s } if *s == src && ci[x].arr.is_none() && ci[x].lost_t3.is_none() => ci[x].lost_t3 = Some(r.t3),
                        _ => {}
                    }
                }
                if ci[x].arr.is_none() && ci[x].lost_t3.is_none() && !o.stuck_syn.contains(&src) && o.syn_src[x].is_none() {
                    // never seen on the link: delivered within the step of the call or at the start of the next
                    ci[x].arr = Some((3 * s0 - 1, 3 * s0 + 2));
                }
            }
            None => {
                if o.syn_amb[x] {
                    ci[x].arr_unknown = true;
                } else if dir_state(recs, c.host, ci[x].start_t3) == DirState::Healthy {
                    ci[x].arr = Some((3 * s0 - 1, 3 * s0 + 2));
                }
            }
        }
    }

    // ---- pairing: nonce first, addresses otherwise ----
    for a in 0..acc.len() {
        let ai = acc[a].clone();
        if ai.origin != ai.peer {
            return (Some(Violation::new("NotMirrored", format!("accept #{a} returned origin {} but the stream's peer_addr is {}", ai.origin, ai.peer))), false);
        }
        let mut p: Option<usize> = None;
        if let Some(Some(nv)) = ai.nonce {
            let x = (nv & 0xffff) as usize;
            if nv >> 16 != nonce_of(0) >> 16 || x >= n {
                return (Some(Violation::new("WrongStream", format!("accepted stream #{a} delivered {nv:#x}, which no connector wrote"))), false);
            }
            p = Some(x);
        } else {
            for x in 0..n {
                if let Res::Ok { local, peer } = &ci[x].res {
                    if *local == ai.peer && *peer == ai.local && ci[x].paired.is_none() && ci[x].res_seq > ai.seq {
                        p = Some(x);
                        break;
                    }
                }
            }
        }
        if let Some(x) = p {
            match &ci[x].res {
                Res::Ok { local, peer } => {
                    if *local != ai.peer || *peer != ai.local {
                        return (
                            Some(Violation::new("NotMirrored", format!("connector {x} has local={local} peer={peer}, the accepted stream #{a} that carries its nonce has local={} peer={}", ai.local, ai.peer))),
                            false,
                        );
                    }
                }
                other => {
                    return (Some(Violation::new("WrongStream", format!("accepted stream #{a} carries the nonce of connector {x} whose connect did not succeed ({other:?})"))), false);
                }
            }
            if let Some(prev) = ci[x].paired {
                return (Some(Violation::new("DuplicateAccept", format!("connector {x} was handed out by accept twice (#{prev} and #{a})"))), false);
            }
            ci[x].paired = Some(a);
            acc[a].pair = Some(x);
        }
    }
    for x in 0..n {
        if let Res::Ok { local, peer } = &ci[x].res {
            if ci[x].paired.is_none() {
                return (Some(Violation::new("UnpairedConnect", format!("connector {x} connected (local={local} peer={peer}) but no accepted stream mirrors it"))), false);
            }
            if sc.conns[x].target != Target::Listener {
                return (Some(Violation::new("ShouldRefuse", format!("connector {x} aimed at {:?} and connected", sc.conns[x].target))), false);
            }
        }
    }
    // accepted streams without a successful connector
    let mut orphan_acc: Vec<Option<u64>> = vec![None; n];
    for a in 0..acc.len() {
        if acc[a].pair.is_some() {
            continue;
        }
        let ai = &acc[a];
        let from_host = |x: usize| {
            let c = &sc.conns[x];
            c.target == Target::Listener && (if c.host == 0 { ai.peer.ip() == host_ip(0, sc.cfg.ipv6) || ai.peer.ip().is_loopback() } else { ai.peer.ip() == host_ip(c.host, sc.cfg.ipv6) }) && o.syn_src[x].map(|s| s == ai.peer).unwrap_or(true)
        };
        let later = (0..n).any(|x| from_host(x) && ci[x].res == Res::GaveUp && ci[x].res_seq > ai.seq);
        if later {
            probes.inc("accepted_then_cancelled");
            // its request was handed out by this accept (for the order check below); when several
            // cancelled connectors fit, every one of them gets the benefit of the doubt
            for x in 0..n {
                if from_host(x) && ci[x].res == Res::GaveUp && ci[x].res_seq > ai.seq {
                    orphan_acc[x] = Some(orphan_acc[x].map_or(ai.seq, |s: u64| s.min(ai.seq)));
                }
            }
            // the accepted stream has no peer any more: the abandoned connect must end it (reset / EOF);
            // its reader waited ceil(max_latency/tick)+6 ticks. Judged on links nobody touched.
            let local_or_untouched = ai.peer.ip().is_loopback() || ai.peer.ip() == host_ip(0, sc.cfg.ipv6) || sc.script.is_empty();
            if ai.nonce_timed_out && local_or_untouched {
                return (
                    Some(Violation::new(
                        "OrphanAcceptedNeverEnded",
                        format!("accept #{a} (step {}) returned a stream from {} whose connector then dropped its pending connect; nobody holds the other end, yet a read on the accepted stream was still pending {} ticks later (neither end-of-file nor a reset)", step_of(ai.t3), ai.peer, lat + 6),
                    )),
                    false,
                );
            }
            continue;
        }
        let earlier: Vec<usize> = (0..n).filter(|x| from_host(*x) && ci[*x].res == Res::GaveUp && ci[*x].res_seq < ai.seq).collect();
        if let Some(x) = earlier.first() {
            return (
                Some(Violation::new("GaveUpReturned", format!("accept #{a} (step {}) returned a stream from {} although connector {x} had given up at step {} (its connect future was dropped before the accept)", step_of(ai.t3), ai.peer, step_of(ci[*x].res_t3)))),
                false,
            );
        }
        return (Some(Violation::new("PhantomAccept", format!("accept #{a} returned a stream from {} that no connector owns", ai.peer))), false);
    }

    // ---- accept order == arrival order (ties and undecidable arrivals are not judged) ----
    let matching = |x: usize, st: LState| match st {
        LState::Unbound => false,
        LState::Bound { localhost } => !localhost || sc.conns[x].via == Via::Loopback,
    };
    for a in 0..acc.len() {
        let Some(p) = acc[a].pair else { continue };
        let ai = &acc[a];
        let Some((plo, phi)) = ci[p].arr else { continue };
        if let Some((dt, _)) = ldrops.iter().find(|(t, s)| *t > phi && *s < ai.seq) {
            return (
                Some(Violation::new("AcceptedAcrossDrop", format!("connector {p}'s request arrived at step {} and the listener was dropped at step {}, yet accept #{a} at step {} returned it", step_of(phi), step_of(*dt), step_of(ai.t3)))),
                false,
            );
        }
        for y in 0..n {
            if y == p || sc.conns[y].target != Target::Listener {
                continue;
            }
            let Some((ylo, yhi)) = ci[y].arr else { continue };
            if yhi >= plo {
                continue;
            }
            let Some(st) = lstate(&levs, ylo, yhi) else { continue };
            if !matching(y, st) {
                continue;
            }
            if ldrops.iter().any(|(t, s)| *t > yhi && *s < ai.seq) {
                continue; // queued at an earlier incarnation of the listener
            }
            let accepted_before = ci[y].paired.map(|b| acc[b].seq < ai.seq).unwrap_or(false) || orphan_acc[y].map(|s| s < ai.seq).unwrap_or(false);
            let resolved_before = !matches!(ci[y].res, Res::Pending | Res::Ok { .. }) && ci[y].res_seq < ai.seq;
            if accepted_before || resolved_before {
                if ci[y].res == Res::GaveUp && resolved_before {
                    probes.inc("accept_skipped_a_connector_that_gave_up");
                }
                continue;
            }
            probes.inc("order_pairs_judged");
            return (
                Some(Violation::new(
                    "AcceptOrder",
                    format!("accept #{a} (step {}) returned connector {p} whose request arrived at step {}, although connector {y}'s request had arrived earlier (step {}) at the same listener and was still waiting", step_of(ai.t3), step_of(plo), step_of(yhi)),
                )),
                false,
            );
        }
        probes.inc("accepts_order_checked");
    }

    // ---- refusal ----
    let end_step = o.end_step as u64;
    for x in 0..n {
        let c = &sc.conns[x];
        if !ci[x].started {
            continue;
        }
        let start_step = step_of(ci[x].start_t3);
        let res_step = step_of(ci[x].res_t3);
        if let Res::Err(k) = &ci[x].res {
            if *k != io::ErrorKind::ConnectionRefused {
                return (Some(Violation::new("WrongError", format!("connector {x} ({:?}): connect failed with {} instead of ConnectionRefused", c.target, kind_name(*k)))), false);
            }
        }
        // must this connect be refused, and by when?
        let mut reason: Option<(String, u64, &'static str)> = None;
        let mut ignore_hold = false;
        // first partition of the direction h -> h0 imposed after the call, while the connect was
        // still pending and before its request was (certainly) delivered
        let part_while_pending: Option<u64> = if c.host == 0 || c.target == Target::Unowned {
            None
        } else {
            recs.iter()
                .filter(|r| r.t3 > ci[x].start_t3)
                .filter(|r| match &r.ev {
                    Ev::Act(LinkAct::Partition(a, b)) => (*a == c.host && *b == 0) || (*a == 0 && *b == c.host),
                    Ev::Act(LinkAct::PartitionOneway(a, b)) => *a == c.host && *b == 0,
                    _ => false,
                })
                .map(|r| r.t3)
                .next()
                .filter(|tp| ci[x].res == Res::Pending || ci[x].res_t3 >= *tp)
                .filter(|_| !ci[x].arr_unknown)
                .filter(|tp| match ci[x].arr {
                    None => true,
                    Some((lo, _)) => lo > *tp,
                })
        };
        let was_held_at = |tp: u64| dir_state(recs, c.host, tp - 1) == DirState::Held;
        if c.target == Target::Unowned {
            reason = Some(("the address is owned by no host".into(), start_step + lat + 2, "refused_unowned_address"));
        } else if c.host != 0 && dir_state(recs, c.host, ci[x].start_t3) == DirState::Partitioned {
            reason = Some((format!("the direction h{} -> h0 was partitioned when connect was called", c.host), start_step + lat + 2, "refused_partitioned_at_call"));
        } else if let Some(tp) = part_while_pending {
            // whatever the link kept (in flight or held back) is lost when the direction is partitioned
            reason = Some((format!("the direction h{} -> h0 was partitioned before step {} while the connect was pending and its request had not been delivered", c.host, step_of(tp)), step_of(tp) + 2, if was_held_at(tp) { "refused_partition_of_held_request" } else { "refused_partition_while_pending" }));
            ignore_hold = true;
        } else if let Some(t) = ci[x].lost_t3 {
            reason = Some((format!("its SYN was dropped by a partition imposed before step {}", step_of(t)), step_of(t) + 2, "refused_syn_lost_in_flight"));
            ignore_hold = true;
        } else if let Some((lo, hi)) = ci[x].arr {
            if c.target == Target::UnboundPort {
                reason = Some((format!("nobody listens on port {DEAD_PORT}"), (start_step + lat + 2).max(step_of(hi) + 1), "refused_unbound_port"));
            } else {
                match lstate(&levs, lo, hi) {
                    Some(LState::Unbound) => reason = Some((format!("no listener was bound when the request arrived (step {})", step_of(hi)), (start_step + lat + 2).max(step_of(hi) + 1), "refused_no_listener_at_arrival")),
                    Some(st) if !matching(x, st) => reason = Some(("the listener is bound to localhost only".into(), (start_step + lat + 2).max(step_of(hi) + 1), "refused_localhost_only_listener")),
                    Some(_) => {
                        let acc_seq = ci[x].paired.map(|a| acc[a].seq);
                        if let Some((dt, ds)) = ldrops.iter().find(|(t, _)| *t > hi) {
                            let accepted_first = acc_seq.map(|s| s < *ds).unwrap_or(false);
                            let gave_up_first = ci[x].res == Res::GaveUp && ci[x].res_seq < *ds;
                            if !accepted_first && !gave_up_first {
                                reason = Some((format!("the listener was dropped at step {} with the request (arrived at step {}) still in its queue", step_of(*dt), step_of(hi)), step_of(*dt) + 2, "refused_listener_dropped_with_queue"));
                            }
                        }
                    }
                    None => {}
                }
            }
        }
        let held = !ignore_hold && c.host != 0 && held_within(recs, c.host, ci[x].start_t3, if ci[x].res == Res::Pending { u64::MAX } else { ci[x].res_t3 });
        if held {
            probes.inc("hold_around_handshake");
        }
        if let Some((why, deadline, probe)) = &reason {
            match &ci[x].res {
                Res::Ok { .. } => {
                    return (Some(Violation::new("ShouldRefuse", format!("connector {x} connected at step {res_step} although {why}"))), false);
                }
                Res::Err(_) => {
                    probes.inc(probe);
                    if !held && res_step > *deadline {
                        return (Some(Violation::new("RefusalLate", format!("connector {x}: {why}; ConnectionRefused was reported at step {res_step}, later than step {deadline} (call at step {start_step}, ceil(max_latency/tick)={lat})"))), false);
                    }
                }
                Res::GaveUp => {
                    if !held && res_step > *deadline {
                        return (Some(Violation::new("Hang", format!("connector {x}: {why}; the connect was still pending at step {res_step} when its own timeout cancelled it, it should have been refused by step {deadline}"))), false);
                    }
                    probes.inc("cancelled_before_refusal");
                }
                Res::Pending => {
                    let held_now = !ignore_hold && c.host != 0 && (dir_state(recs, c.host, u64::MAX) == DirState::Held || still_held(recs, c.host, ci[x].start_t3, u64::MAX));
                    if !held && !held_now && end_step > *deadline {
                        return (Some(Violation::new("Hang", format!("connector {x}: {why}; the connect is still pending at step {end_step} (end of the run, nothing moves), it should have been refused by step {deadline}"))), false);
                    }
                }
            }
        } else if ci[x].res == Res::Err(io::ErrorKind::ConnectionRefused) && c.target == Target::Listener {
            // refused although a matching listener was bound at arrival and stayed bound
            if let Some((lo, hi)) = ci[x].arr {
                if let Some(st) = lstate(&levs, lo, hi) {
                    let no_partition = !recs.iter().any(|r| matches!(&r.ev, Ev::Act(a) if a.is_partition()));
                    if matching(x, st) && no_partition && !ldrops.iter().any(|(t, _)| *t > hi && *t <= ci[x].res_t3 + 3) {
                        return (
                            Some(Violation::new("SpuriousRefusal", format!("connector {x}: ConnectionRefused at step {res_step} although its request arrived at step {} at a bound, matching listener that was not dropped, and no partition was imposed", step_of(hi)))),
                            false,
                        );
                    }
                }
            }
        }
        if ci[x].res == Res::GaveUp {
            if let Some((_, hi)) = ci[x].arr {
                if hi < ci[x].res_t3 {
                    probes.inc("gave_up_after_request_delivered");
                } else {
                    probes.inc("gave_up_before_request_delivered");
                }
            } else {
                probes.inc("gave_up_before_request_delivered");
            }
        }
    }

    // ---- a request kept back by a hold must travel on once the link is released ----
    let last_act_t3 = recs.iter().filter(|r| matches!(r.ev, Ev::Act(_))).map(|r| r.t3).max().unwrap_or(0);
    for x in 0..n {
        let c = &sc.conns[x];
        if ci[x].res != Res::Pending || !ci[x].started || c.host == 0 || c.target == Target::Unowned || ci[x].arr.is_some() || ci[x].arr_unknown || ci[x].lost_t3.is_some() {
            continue;
        }
        let held_at_call = dir_state(recs, c.host, ci[x].start_t3) == DirState::Held;
        // a release after the *last* hold of that link (a hold right after a release takes the released messages back,
        // and a repair alone never lets go of them)
        let on_link = |a: &usize, b: &usize| (*a == c.host && *b == 0) || (*a == 0 && *b == c.host);
        let last_hold = recs.iter().rposition(|r| matches!(&r.ev, Ev::Act(LinkAct::Hold(a, b)) if on_link(a, b)));
        let released_later = recs.iter().enumerate().any(|(i, r)| r.t3 > ci[x].start_t3 && last_hold.map(|h| i > h).unwrap_or(true) && matches!(&r.ev, Ev::Act(LinkAct::Release(a, b)) if on_link(a, b)));
        let partition_later = recs.iter().any(|r| r.t3 > ci[x].start_t3 && matches!(&r.ev, Ev::Act(a) if a.is_partition()));
        if held_at_call && released_later && !partition_later && dir_state(recs, c.host, u64::MAX) == DirState::Healthy && end_step > step_of(last_act_t3) + lat + 3 {
            probes.inc("held_request_released_judged");
            return (
                Some(Violation::new(
                    "Hang",
                    format!("connector {x}: its request was kept back by a hold (call at step {}), the link was released before step {}, yet the request never reached h0 and the connect is still pending at step {end_step}", step_of(ci[x].start_t3), step_of(last_act_t3)),
                )),
                false,
            );
        }
    }

    // ---- a request sent over a link that is healthy from then on must reach the listener's host ----
    for x in 0..n {
        let c = &sc.conns[x];
        if ci[x].res != Res::Pending || !ci[x].started || c.host == 0 || c.target == Target::Unowned || ci[x].arr.is_some() || ci[x].arr_unknown || ci[x].lost_t3.is_some() {
            continue;
        }
        let on_link = |a: &LinkAct| {
            let (p, q) = a.hosts();
            (p == c.host && q == 0) || (p == 0 && q == c.host)
        };
        let touched_later = recs.iter().any(|r| r.t3 >= ci[x].start_t3 && matches!(&r.ev, Ev::Act(a) if on_link(a)));
        if dir_state(recs, c.host, ci[x].start_t3) == DirState::Healthy && !touched_later && end_step > step_of(ci[x].start_t3) + lat + 3 {
            probes.inc("request_on_healthy_link_judged");
            return (
                Some(Violation::new(
                    "Hang",
                    format!("connector {x}: its request left h{} at step {} over a link that was healthy then (after every hold / partition had been repaired or released) and was not touched again, yet it never reached h0 and the connect is still pending at step {end_step}", c.host, step_of(ci[x].start_t3)),
                )),
                false,
            );
        }
    }

    // ---- a live request waits while the listener sits in accept ----
    if max_parked >= 2 {
        probes.inc("accepts_parked_concurrently");
    }
    if accepts_outstanding > 0 {
        for x in 0..n {
            if ci[x].res != Res::Pending || sc.conns[x].target != Target::Listener {
                continue;
            }
            let Some((lo, hi)) = ci[x].arr else { continue };
            let Some(st) = lstate(&levs, lo, hi) else { continue };
            if matching(x, st) && !ldrops.iter().any(|(t, _)| *t > hi) {
                return (
                    Some(Violation::new("AcceptStuck", format!("connector {x}'s request arrived at step {} at a bound listener that is waiting in accept, yet neither side makes progress (step {end_step})", step_of(hi)))),
                    false,
                );
            }
        }
    }

    // ---- >= 2 requests pending at the listener at some instant ----
    let mut nontrivial = false;
    let span = |x: usize| -> Option<(u64, u64)> {
        let (lo, hi) = ci[x].arr?;
        if sc.conns[x].target != Target::Listener || !lstate(&levs, lo, hi).map(|s| matching(x, s)).unwrap_or(false) {
            return None;
        }
        let end = match ci[x].paired {
            Some(a) => acc[a].t3,
            None => match ci[x].res {
                Res::Pending => u64::MAX,
                _ => ci[x].res_t3,
            },
        };
        (hi < end).then_some((hi, end))
    };
    for x in 0..n {
        for y in x + 1..n {
            if let (Some((a0, a1)), Some((b0, b1))) = (span(x), span(y)) {
                if a0 < b1 && b0 < a1 {
                    nontrivial = true;
                }
            }
        }
    }
    if nontrivial {
        probes.inc("two_requests_pending_at_once");
    }
    for x in 0..n {
        if sc.conns[x].host == 0 && matches!(ci[x].res, Res::Ok { .. }) {
            probes.inc(if sc.conns[x].via == Via::Loopback { "connected_via_loopback" } else { "connected_via_own_address" });
        }
        if matches!(ci[x].res, Res::Ok { .. }) {
            probes.inc("connects_paired");
        }
    }

    // ---- once every stream object is dropped on both ends nothing counts as established ----
    let all_dropped = (0..n).all(|x| match ci[x].res {
        Res::Ok { .. } => ci[x].dropped,
        Res::Pending => !ci[x].started,
        _ => true,
    }) && acc.iter().all(|a| a.dropped)
        && (0..n).all(|x| ci[x].started);
    if all_dropped && o.audited {
        probes.inc("teardown_audited");
        let mut api_own: Vec<Option<usize>> = vec![None; sc.hosts];
        let mut api_on: Option<Vec<usize>> = None;
        for r in recs {
            if let Ev::Audit { host, own, on } = &r.ev {
                api_own[*host] = Some(*own);
                if *host == 0 {
                    api_on = Some(on.clone());
                }
            }
        }
        for h in 0..sc.hosts {
            let hook = o.hook_streams[h];
            let failed = (0..n).filter(|x| sc.conns[*x].host == h && matches!(ci[*x].res, Res::Err(_) | Res::GaveUp)).count();
            let own = api_own[h];
            let on = api_on.as_ref().map(|v| v[h]);
            if let (Some(own), Some(on)) = (own, on) {
                if own != hook || on != hook {
                    return (Some(Violation::new("CountMismatch", format!("host h{h}: established_tcp_stream_count()={own}, established_tcp_stream_count_on()={on}, stream table size (hook)={hook}"))), nontrivial);
                }
            }
            if hook != 0 {
                return (
                    Some(Violation::new(
                        "StreamLeak",
                        format!("[h={h} leaked={hook} failed={failed}] every stream object of the run has been dropped on both ends, yet established_tcp_stream_count_on(h{h}) = {hook} ({failed} connects from h{h} were refused or cancelled)"),
                    )),
                    nontrivial,
                );
            }
        }
    }
    (None, nontrivial)
}

// ------------------------------------------------------------------------------------------------

fn parse_leak(msg: &str) -> Option<(usize, usize, usize)> {
    let s = msg.strip_prefix("[h=")?;
    let (h, rest) = s.split_once(" leaked=")?;
    let (l, rest) = rest.split_once(" failed=")?;
    let f = rest.split(']').next()?;
    Some((h.parse().ok()?, l.parse().ok()?, f.parse().ok()?))
}

impl Property for C12 {
    const ID: &'static str = "C12";
    const LEVEL: &'static str = "exploration";
    type Scenario = Scenario;

    fn rule() -> String {
        "seeded simulations of 1-3 hosts: a listener program on h0 (bind wildcard/localhost on a fixed port, accept, drop, re-bind, sleeps) and 1-4 connectors (h0 itself via its own address or 127.0.0.1/::1, other hosts by IP or by name; IPv4/IPv6) aimed at the listener, at a port nobody listens on, or at an address no host owns, optionally wrapped in tokio::time::timeout (cancelled before or after the request was delivered); every connector writes a nonce, every accepted stream reads it; tcp_capacity > number of connectors. Faults: latency ranges (requests of different hosts reorder), hold/release and partition/oneway partition/repair around the handshake, listener drop with queued requests. Oracle = history check: every successful connect is mirrored by exactly one accepted stream (nonce, local/peer addresses), accepted streams without a successful connector only for connectors cancelled afterwards, a connector that gave up before the accept is never returned, accept order = arrival order of the requests (arrival observed through Sim::links; ties and undecidable arrivals not judged), ConnectionRefused (and no other error, no success, no hang) within ceil(max_latency/tick)+2 steps for unowned address / partitioned direction / SYN dropped by a partition / no (matching) listener at arrival / listener dropped with the request queued (held links excepted), no spurious refusal, rebinding after a drop works, and after every stream object is dropped established_tcp_stream_count[_on] = 0 on every host and agrees with the stream-table hook. Non-trivial: >=2 requests pending at the listener at some instant; distinct = digest of the event-kind sequence. Added later: connectors cancelled by select! on an application event right after any accept; listener on the first ephemeral port; 127.0.0.1 connectors against [::] listeners in IPv6 simulations; partition_oneway followed by partition; hold-repair with and without a release; small ephemeral ranges; a request sent over a link that is healthy from then on must reach the listener's host.".into()
    }
    fn components_real() -> Vec<&'static str> {
        vec!["turmoil: net::TcpListener (bind/accept/drop), net::TcpStream::connect, host.rs accept queue and stream table, top.rs links (latency, hold, partition), established_tcp_stream_count[_on], Sim::links, hook Sim::verif_host_table_counts"]
    }
    fn components_stub() -> Vec<&'static str> {
        vec!["the listener program, connector programs (data) and the controller script"]
    }
    fn assumptions() -> Vec<String> {
        vec![
            "a one-way partition of the direction listener->connector is not generated (the handshake acknowledgement does not travel over the simulated network; the property text only speaks of 'a partitioned direction')".into(),
            "requests whose arrival step cannot be determined (sub-tick latency, same-host hand-over in a step where the listener binds or drops) are not judged for order or refusal timing".into(),
            "no generator guard: the former known finding O4 (a failed or cancelled connect leaves a stream-table entry) is fixed in /repo (8fcc78f); half of the listener programs are orderly (bind first, one accept per connector), connectors and fault scripts are unrestricted everywhere".into(),
            "an accepted stream whose connector gave up (or whose nonce never arrives) may end with ConnectionReset / EOF / nothing: the nonce read is recorded, not judged".into(),
        ]
    }
    fn budget(tier: Tier) -> u64 {
        match tier {
            Tier::Quick => 1_500_000,
            Tier::Thorough => 12_000_000,
        }
    }

    fn generate(rng: &mut Rng, _idx: u64, _tier: Tier) -> Scenario {
        gen_scenario(rng)
    }

    fn run(sc: &Scenario, keep: bool) -> Report {
        execute(sc, keep).0
    }

    fn shrink(sc: &Scenario) -> Vec<Scenario> {
        let mut out = Vec::new();
        if sc.conns.len() > 1 {
            for i in 0..sc.conns.len() {
                let mut c = sc.clone();
                c.conns.remove(i);
                out.push(c);
            }
        }
        for i in 0..sc.script.len() {
            let mut c = sc.clone();
            c.script.remove(i);
            out.push(c);
        }
        for i in 0..sc.lops.len() {
            let mut c = sc.clone();
            c.lops.remove(i);
            out.push(c);
        }
        // drop the highest host if unused
        if sc.hosts > 1 && sc.conns.iter().all(|c| c.host < sc.hosts - 1) && sc.script.iter().all(|(_, a)| a.hosts().0 < sc.hosts - 1 && a.hosts().1 < sc.hosts - 1) {
            out.push(Scenario { hosts: sc.hosts - 1, ..sc.clone() });
        }
        for i in 0..sc.conns.len() {
            let c0 = &sc.conns[i];
            if c0.timeout.is_some() {
                let mut c = sc.clone();
                c.conns[i].timeout = None;
                out.push(c);
            }
            if c0.abort_on_accept {
                let mut c = sc.clone();
                c.conns[i].abort_on_accept = false;
                out.push(c);
            }
            if c0.hold > 0 {
                let mut c = sc.clone();
                c.conns[i].hold = 0;
                out.push(c);
            }
            if c0.start > 1 {
                let mut c = sc.clone();
                c.conns[i].start = c0.start / 2;
                out.push(c);
            }
            if c0.via == Via::Name {
                let mut c = sc.clone();
                c.conns[i].via = Via::Ip;
                out.push(c);
            }
            if c0.target != Target::Listener {
                let mut c = sc.clone();
                c.conns[i].target = Target::Listener;
                out.push(c);
            }
        }
        for i in 0..sc.lops.len() {
            match &sc.lops[i] {
                LOp::Sleep { ticks } if *ticks > 1 => {
                    let mut c = sc.clone();
                    c.lops[i] = LOp::Sleep { ticks: ticks / 2 };
                    out.push(c);
                }
                LOp::Accept { keep } if *keep > 0 => {
                    let mut c = sc.clone();
                    c.lops[i] = LOp::Accept { keep: 0 };
                    out.push(c);
                }
                LOp::AcceptPar { n, keep } => {
                    let mut c = sc.clone();
                    c.lops[i] = LOp::Accept { keep: *keep };
                    out.push(c);
                    if *n > 2 {
                        let mut c = sc.clone();
                        c.lops[i] = LOp::AcceptPar { n: 2, keep: *keep };
                        out.push(c);
                    }
                }
                LOp::Bind { localhost: true } => {
                    let mut c = sc.clone();
                    c.lops[i] = LOp::Bind { localhost: false };
                    out.push(c);
                }
                _ => {}
            }
        }
        let mut cfgs = Vec::new();
        if sc.cfg.random_order {
            cfgs.push(SimCfg { random_order: false, ..sc.cfg.clone() });
        }
        if sc.cfg.ipv6 {
            cfgs.push(SimCfg { ipv6: false, ..sc.cfg.clone() });
        }
        if sc.cfg.latency_curve_milli.is_some() {
            cfgs.push(SimCfg { latency_curve_milli: None, ..sc.cfg.clone() });
        }
        if sc.cfg.min_latency_us != sc.cfg.max_latency_us {
            cfgs.push(SimCfg { max_latency_us: sc.cfg.min_latency_us, ..sc.cfg.clone() });
        }
        if sc.cfg.max_latency_us != sc.cfg.tick_us {
            cfgs.push(SimCfg { min_latency_us: sc.cfg.tick_us, max_latency_us: sc.cfg.tick_us, ..sc.cfg.clone() });
        }
        if sc.cfg.tick_us != 1000 {
            let f = |x: u64| x / sc.cfg.tick_us * 1000;
            cfgs.push(SimCfg { tick_us: 1000, min_latency_us: f(sc.cfg.min_latency_us), max_latency_us: f(sc.cfg.max_latency_us), ..sc.cfg.clone() });
        }
        if sc.cfg.tcp_capacity != 64 {
            cfgs.push(SimCfg { tcp_capacity: 64, ..sc.cfg.clone() });
        }
        for cfg in cfgs {
            out.push(Scenario { cfg, ..sc.clone() });
        }
        out
    }

    fn signature(sc: &Scenario) -> String {
        format!(
            "{}{} hosts={} lat={}..{}us tick={}us lops={:?} conns={:?} script={:?}",
            if o4_exposed(sc) { "O4-EXPOSED " } else { "" },
            if sc.guarded { "G" } else { "U" },
            sc.hosts,
            sc.cfg.min_latency_us,
            sc.cfg.max_latency_us,
            sc.cfg.tick_us,
            sc.lops,
            sc.conns.iter().map(|c| format!("h{}:{:?}:{:?}@{}{}", c.host, c.via, c.target, c.start, c.timeout.map(|t| format!(" to{t}")).unwrap_or_default())).collect::<Vec<_>>(),
            sc.script
        )
    }

    fn known_match(matcher: &str, sc: &Scenario, v: &Violation) -> bool {
        match matcher {
            // O4: TcpStream::connect registers the client half before the handshake and never removes
            // it when the connect is refused, fails to send or is cancelled: one entry per failed connect
            KF_O4 => v.class == "StreamLeak" && o4_exposed(sc) && parse_leak(&v.message).map(|(_, leaked, failed)| failed > 0 && leaked <= failed).unwrap_or(false),
            _ => false,
        }
    }
}

#[cfg(test)]
mod tests {
    use super::*;

    fn base(lops: Vec<LOp>, conns: Vec<Connector>) -> Scenario {
        let cfg = SimCfg { min_latency_us: 1000, max_latency_us: 1000, ..SimCfg::default() };
        Scenario { cfg, guarded: false, hosts: 2, lops, conns, script: vec![] }
    }
    fn conn(host: usize, start: u16) -> Connector {
        Connector { host, via: Via::Ip, target: Target::Listener, start, timeout: None, hold: 1, abort_on_accept: false }
    }

    /// accept_front_of_line-style script from /repo's own suite: the oracle is quiet
    #[test]
    fn plain_accepts_are_quiet() {
        crate::core::install_panic_hook();
        let sc = base(vec![LOp::Bind { localhost: false }, LOp::Sleep { ticks: 8 }, LOp::Accept { keep: 1 }, LOp::Accept { keep: 0 }], vec![conn(1, 1), conn(1, 4), conn(0, 2)]);
        assert!(!o4_exposed(&Scenario { lops: vec![LOp::Bind { localhost: false }, LOp::Accept { keep: 0 }, LOp::Accept { keep: 0 }, LOp::Accept { keep: 0 }], ..sc.clone() }));
        let r = C12::run(&sc, true);
        assert!(r.harness_error.is_none());
        // the third connector is still queued when the listener is dropped at the end of its program
        assert!(r.violation.as_ref().map(|v| v.class == "StreamLeak").unwrap_or(true), "{:?}\n{}", r.violation, r.log.join("\n"));
        assert!(r.probes.get("connects_paired") == 2, "{:?}\n{}", r.probes, r.log.join("\n"));
    }

    #[test]
    fn helpers() {
        assert_eq!(parse_leak("[h=1 leaked=2 failed=3] x"), Some((1, 2, 3)));
        assert_eq!(step_of(3), 1);
        assert_eq!(step_of(5), 2);
        assert_eq!(step_of(4), 2);
        let levs = vec![(3, LState::Bound { localhost: false }), (30, LState::Unbound)];
        assert_eq!(lstate(&levs, 5, 5), Some(LState::Bound { localhost: false }));
        assert_eq!(lstate(&levs, 2, 3), None);
        assert_eq!(lstate(&levs, 31, 31), Some(LState::Unbound));
    }
}
