//! C05 — virtual clocks advance exactly one tick per step and agree with each other.

use crate::core::prng::Rng;
use crate::core::{catch, Property, Report, Tier, Violation};
use crate::simkit::{us, CfgProfile, SharedLog, SimCfg};
use serde::{Deserialize, Serialize};
use std::cell::{Cell, RefCell};
use std::rc::Rc;
use std::time::Duration;

#[derive(Clone, Debug, Serialize, Deserialize)]
pub enum TimerOp {
    Sleep { ms: u64 },
    /// tokio::time::timeout(limit, sleep(inner))
    Timeout { inner_ms: u64, limit_ms: u64 },
    /// tokio::time::interval(period): n ticks (the first fires immediately)
    Interval { period_ms: u64, n: u32 },
    Yield,
}

#[derive(Clone, Debug, Serialize, Deserialize)]
pub struct HostSpec {
    pub client: bool,
    /// registered right before this step (1 = before the first step)
    pub register_before_step: u32,
    /// task 0 is the main future, the others are spawned with tokio::spawn
    pub tasks: Vec<Vec<TimerOp>>,
    /// host software returns Ok(()) after its ops instead of running forever (clients always finish)
    #[serde(default)]
    pub finishes: bool,
    /// ... and returns Err instead of Ok: `step` reports the error, the controller keeps stepping
    #[serde(default)]
    pub ends_err: bool,
}

#[derive(Clone, Debug, Serialize, Deserialize)]
pub enum Action {
    Crash(usize),
    Bounce(usize),
}

#[derive(Clone, Debug, Serialize, Deserialize)]
pub struct Scenario {
    pub cfg: SimCfg,
    pub hosts: Vec<HostSpec>,
    /// (before step s, action)
    pub script: Vec<(u32, Action)>,
    pub steps: u32,
}

pub struct C05;

const ERR_MARK: &str = "c05: software ends with an error";

#[derive(Clone, Debug)]
struct ObsRec {
    host: usize,
    inc: u32,
    task: usize,
    op: usize,
    /// 0 = before the op, 1 = after, 2.. = interval tick k-2
    phase: u32,
    step: u32,
    elapsed: u64,
    sim_elapsed: u64,
    since_epoch: u64,
    /// tokio Instant delta since the task started
    inst: u64,
    note: &'static str,
}

#[derive(Clone)]
struct Shared {
    obs: Rc<RefCell<Vec<ObsRec>>>,
    step: Rc<Cell<u32>>,
    log: SharedLog,
}

fn observe(sh: &Shared, host: usize, inc: u32, task: usize, op: usize, phase: u32, t0: tokio::time::Instant, note: &'static str) {
    let e = us(turmoil::elapsed());
    let se = turmoil::sim_elapsed().map(us).unwrap_or(u64::MAX);
    let ep = turmoil::since_epoch().map(us).unwrap_or(u64::MAX);
    let inst = us(t0.elapsed());
    let step = sh.step.get();
    sh.log.ev(format!("h{host}.{inc} t{task} op{op} ph{phase} step={step} elapsed={e} sim={se} epoch={ep} inst={inst} {note}"));
    sh.obs.borrow_mut().push(ObsRec { host, inc, task, op, phase, step, elapsed: e, sim_elapsed: se, since_epoch: ep, inst, note });
}

async fn run_task(sh: Shared, host: usize, inc: u32, task: usize, ops: Vec<TimerOp>) {
    let t0 = tokio::time::Instant::now();
    for (i, op) in ops.iter().enumerate() {
        observe(&sh, host, inc, task, i, 0, t0, "");
        match op {
            TimerOp::Sleep { ms } => {
                tokio::time::sleep(Duration::from_millis(*ms)).await;
                observe(&sh, host, inc, task, i, 1, t0, "");
            }
            TimerOp::Timeout { inner_ms, limit_ms } => {
                let r = tokio::time::timeout(Duration::from_millis(*limit_ms), tokio::time::sleep(Duration::from_millis(*inner_ms))).await;
                observe(&sh, host, inc, task, i, 1, t0, if r.is_ok() { "ok" } else { "elapsed" });
            }
            TimerOp::Interval { period_ms, n } => {
                let mut iv = tokio::time::interval(Duration::from_millis(*period_ms));
                for k in 0..*n {
                    iv.tick().await;
                    observe(&sh, host, inc, task, i, 2 + k, t0, "");
                }
            }
            TimerOp::Yield => {
                tokio::task::yield_now().await;
                observe(&sh, host, inc, task, i, 1, t0, "");
            }
        }
    }
}

async fn host_main(sh: Shared, host: usize, inc: u32, spec: HostSpec) -> turmoil::Result {
    let mut handles = Vec::new();
    for (t, ops) in spec.tasks.iter().enumerate().skip(1) {
        handles.push(tokio::task::spawn_local(run_task(sh.clone(), host, inc, t, ops.clone())));
    }
    run_task(sh.clone(), host, inc, 0, spec.tasks[0].clone()).await;
    for h in handles {
        let _ = h.await;
    }
    if !spec.client && !spec.finishes {
        // host software that never finishes
        std::future::pending::<()>().await;
    }
    if spec.ends_err {
        return Err(ERR_MARK.into());
    }
    Ok(())
}

fn gen_ops(rng: &mut Rng, tick_ms: u64) -> Vec<TimerOp> {
    let n = rng.usize(1, 5);
    (0..n)
        .map(|_| {
            let d = |rng: &mut Rng| match rng.below(4) {
                0 => rng.range(1, tick_ms.max(2) - 1).max(1),
                1 => tick_ms.max(1),
                2 => tick_ms.max(1) * rng.range(1, 4),
                _ => rng.range(1, 4 * tick_ms.max(1) + 3),
            };
            match rng.below(8) {
                0..=3 => TimerOp::Sleep { ms: d(rng) },
                4 | 5 => TimerOp::Timeout { inner_ms: d(rng), limit_ms: d(rng) },
                6 => TimerOp::Interval { period_ms: d(rng), n: rng.range(2, 4) as u32 },
                _ => TimerOp::Yield,
            }
        })
        .collect()
}

impl Property for C05 {
    const ID: &'static str = "C05";
    const LEVEL: &'static str = "exploration";
    type Scenario = Scenario;

    fn rule() -> String {
        "seeded simulations of 1-4 hosts/clients (registered before the first step or between steps), 1-3 tasks each running sleep/timeout/interval/yield patterns with whole-millisecond durations below, equal to, above and not divisible by the tick; controller injects crash/bounce (incl. bounce without crash, repeated cycles, downtime 0-20 steps) at seeded steps and samples Sim::elapsed/since_epoch after every step; oracle = reference clock (n steps => n*tick; every host observation during step n has sim_elapsed in [(n-1)tick, n*tick], elapsed = sim_elapsed - registration instant, since_epoch = epoch + sim_elapsed, monotone per host across incarnations, sleep/timeout/interval fire at exactly start+d by elapsed() and by tokio Instant). Non-trivial: some timer duration is not a multiple of the tick, or a crash with downtime >= 1 step, or a late registration; distinct = digest of (host, op kind, step offsets)".into()
    }
    fn components_real() -> Vec<&'static str> {
        vec!["turmoil: Sim::step/host/client/crash/bounce/elapsed/since_epoch, Rt (per-host paused tokio runtime), HostTimer, elapsed()/sim_elapsed()/since_epoch()", "tokio time driver (paused clock) as turmoil configures it"]
    }
    fn components_stub() -> Vec<&'static str> {
        vec!["host/client programs (timer patterns) and the controller script"]
    }
    fn assumptions() -> Vec<String> {
        vec![
            "timer durations are whole milliseconds (the property's clause); ticks are whole milliseconds in 95% of the scenarios, fractional-millisecond ticks only in the slice that exercises known finding C05-K1".into(),
            "a timeout whose limit equals the inner sleep may resolve either way".into(),
        ]
    }
    fn budget(tier: Tier) -> u64 {
        match tier {
            Tier::Quick => 500_000,
            Tier::Thorough => 4_000_000,
        }
    }

    fn generate(rng: &mut Rng, _idx: u64, _tier: Tier) -> Scenario {
        let mut cfg = SimCfg::gen(rng, &CfgProfile::default());
        cfg.fail_rate_pm = 0;
        // 5%: ticks that are not whole milliseconds (known finding C05-K1)
        if rng.chance(1, 20) {
            cfg.tick_us = *rng.pick(&[300u64, 1500, 2500, 700, 10_250]);
        }
        let tick_ms = (cfg.tick_us / 1000).max(1);
        let steps = rng.range(5, 60) as u32;
        // an epoch that is not a whole number of milliseconds (whole microseconds: the log is in us)
        if rng.chance(1, 2) {
            cfg.epoch_sub_us = rng.range(1, 999_999) as u32;
        } else if rng.chance(1, 6) {
            // the UNIX epoch itself (and one nanosecond's worth of neighbours is not expressible here: 1 us after it)
            cfg.epoch_s = 0;
            cfg.epoch_sub_us = if rng.bool() { 0 } else { 1 };
        }
        // one scenario in six: the simulation duration is exceeded during the run (step then reports
        // an error while a client is unfinished) and the controller keeps calling step
        if rng.chance(1, 6) {
            cfg.duration_ms = rng.range(1, (steps as u64 * cfg.tick_us / 1000).max(2));
        }
        let erring = rng.chance(1, 6);
        let nh = rng.usize(1, 4);
        let mut hosts = Vec::new();
        for _ in 0..nh {
            let nt = rng.usize(1, 3);
            hosts.push(HostSpec {
                client: rng.chance(1, 3),
                register_before_step: if rng.chance(2, 3) { 1 } else { rng.range(2, steps as u64 / 2 + 2) as u32 },
                tasks: (0..nt).map(|_| gen_ops(rng, tick_ms)).collect(),
                finishes: rng.chance(1, 3),
                ends_err: false,
            });
            if erring && rng.chance(1, 2) {
                let h = hosts.last_mut().unwrap();
                h.ends_err = true;
                h.finishes = true;
            }
        }
        let mut script = Vec::new();
        let host_idx: Vec<usize> = hosts.iter().enumerate().filter(|(_, h)| !h.client).map(|(i, _)| i).collect();
        if !host_idx.is_empty() {
            let cycles = rng.below(4);
            for _ in 0..cycles {
                let h = *rng.pick(&host_idx);
                let reg = hosts[h].register_before_step;
                let at = rng.range(reg as u64 + 1, steps as u64 + 1) as u32;
                if rng.chance(1, 4) {
                    script.push((at, Action::Bounce(h)));
                } else {
                    script.push((at, Action::Crash(h)));
                    let down = *rng.pick(&[0u32, 1, 2, 7, 20]);
                    script.push((at + down, Action::Bounce(h)));
                }
            }
        }
        script.sort_by_key(|(s, a)| (*s, matches!(a, Action::Bounce(_))));
        Scenario { cfg, hosts, script, steps }
    }

    fn run(sc: &Scenario, keep: bool) -> Report {
        let sh = Shared { obs: Rc::new(RefCell::new(Vec::new())), step: Rc::new(Cell::new(0)), log: SharedLog::new(keep) };
        let tick = sc.cfg.tick_us;
        let epoch = sc.cfg.epoch_s * 1_000_000 + sc.cfg.epoch_sub_us as u64;
        let mut step_errors = [0u64; 2];
        let mut violation: Option<Violation>;
        let mut reg_at: Vec<Option<u64>> = vec![None; sc.hosts.len()];
        let mut crashes = 0u64;
        let mut bounces = 0u64;
        let mut downtime = false;
        let incs: Vec<Rc<Cell<u32>>> = sc.hosts.iter().map(|_| Rc::new(Cell::new(0))).collect();

        let res = catch(|| {
            let mut sim = sc.cfg.build();
            let mut down_since: Vec<Option<u32>> = vec![None; sc.hosts.len()];
            for s in 1..=sc.steps {
                // registrations
                for (i, h) in sc.hosts.iter().enumerate() {
                    if h.register_before_step == s {
                        reg_at[i] = Some(us(sim.elapsed()));
                        let name = format!("n{i}");
                        let spec = h.clone();
                        let shc = sh.clone();
                        let inc = incs[i].clone();
                        if h.client {
                            inc.set(1);
                            sim.client(name, host_main(shc, i, 1, spec));
                        } else {
                            sim.host(name, move || {
                                inc.set(inc.get() + 1);
                                host_main(shc.clone(), i, inc.get(), spec.clone())
                            });
                        }
                        sh.log.ev(format!("ctl register n{i} before step {s} at sim={}", us(sim.elapsed())));
                    }
                }
                for (at, a) in &sc.script {
                    if *at == s {
                        match a {
                            Action::Crash(h) if reg_at[*h].is_some() => {
                                sim.crash(format!("n{h}"));
                                crashes += 1;
                                if down_since[*h].is_none() {
                                    down_since[*h] = Some(s);
                                }
                                sh.log.ev(format!("ctl crash n{h} before step {s}"));
                            }
                            Action::Bounce(h) if reg_at[*h].is_some() => {
                                sim.bounce(format!("n{h}"));
                                bounces += 1;
                                if let Some(d) = down_since[*h].take() {
                                    if s > d {
                                        downtime = true;
                                    }
                                }
                                sh.log.ev(format!("ctl bounce n{h} before step {s}"));
                            }
                            _ => {}
                        }
                    }
                }
                sh.step.set(s);
                let r = sim.step();
                sh.step.set(0);
                if let Err(e) = r {
                    // errors the scenario asked for; every call to step still advances all the clocks
                    let msg = e.to_string();
                    if msg.starts_with("Ran for duration") && s as u64 * tick > sc.cfg.duration_ms * 1000 {
                        step_errors[0] += 1;
                    } else if msg.contains(ERR_MARK) && sc.hosts.iter().any(|h| h.ends_err) {
                        step_errors[1] += 1;
                    } else {
                        return Some(Violation::new("StepError", format!("step {s} returned an error: {e}")));
                    }
                    sh.log.ev(format!("ctl step {s} returned Err({msg})"));
                }
                let el = us(sim.elapsed());
                let ep = us(sim.since_epoch());
                sh.log.ev(format!("ctl after step {s}: Sim::elapsed={el} since_epoch={ep}"));
                if el != s as u64 * tick {
                    return Some(Violation::new("SimElapsed", format!("after {s} steps Sim::elapsed is {el}us, expected {}us", s as u64 * tick)));
                }
                if ep != epoch + el {
                    return Some(Violation::new("SimEpoch", format!("after {s} steps Sim::since_epoch is {ep}us, expected {}us", epoch + el)));
                }
            }
            drop(sim);
            None
        });
        match res {
            Ok(v) => violation = v,
            Err(p) => violation = Some(Violation::new("Panic", format!("panic while running the simulation: {p}"))),
        }

        // ---- history checks over the host observations ----
        let obs = sh.obs.borrow().clone();
        let mut off_tick = false;
        if violation.is_none() {
            let mut last_sim: Vec<u64> = vec![0; sc.hosts.len()];
            'chk: for o in &obs {
                let n = o.step as u64;
                if o.step == 0 {
                    violation = Some(Violation::new("RanOutsideStep", format!("host n{} ran code outside any step (op {} of task {})", o.host, o.op, o.task)));
                    break;
                }
                let (lo, hi) = ((n - 1) * tick, n * tick);
                if o.sim_elapsed < lo || o.sim_elapsed > hi {
                    violation = Some(Violation::new(
                        "OutsideStepWindow",
                        format!("host n{}.{} task {} op {} observed sim_elapsed={}us during step {} whose window is [{},{}]us", o.host, o.inc, o.task, o.op, o.sim_elapsed, n, lo, hi),
                    ));
                    break;
                }
                let r = reg_at[o.host].unwrap_or(0);
                if o.elapsed + r != o.sim_elapsed {
                    violation = Some(Violation::new(
                        "ElapsedVsSim",
                        format!("host n{} registered at {}us: elapsed={}us but sim_elapsed={}us", o.host, r, o.elapsed, o.sim_elapsed),
                    ));
                    break;
                }
                if o.since_epoch != epoch + o.sim_elapsed {
                    violation = Some(Violation::new(
                        "EpochVsSim",
                        format!("host n{}: since_epoch={}us, expected epoch+sim_elapsed={}us", o.host, o.since_epoch, epoch + o.sim_elapsed),
                    ));
                    break;
                }
                if o.sim_elapsed < last_sim[o.host] {
                    violation = Some(Violation::new(
                        "NotMonotone",
                        format!("host n{}: sim_elapsed went back from {}us to {}us", o.host, last_sim[o.host], o.sim_elapsed),
                    ));
                    break;
                }
                last_sim[o.host] = o.sim_elapsed;
                if o.sim_elapsed % tick != 0 {
                    off_tick = true;
                }
                // timers: compare with the matching "before" observation of the same op
                if o.phase >= 1 {
                    let before = obs.iter().find(|b| b.host == o.host && b.inc == o.inc && b.task == o.task && b.op == o.op && b.phase == 0);
                    let Some(b) = before else { continue };
                    let spec = &sc.hosts[o.host].tasks[o.task][o.op];
                    let expect: Option<u64> = match spec {
                        TimerOp::Sleep { ms } => Some(ms * 1000),
                        TimerOp::Timeout { inner_ms, limit_ms } => {
                            if inner_ms == limit_ms {
                                Some(inner_ms * 1000)
                            } else if inner_ms < limit_ms {
                                if o.note != "ok" {
                                    violation = Some(Violation::new("TimeoutOutcome", format!("host n{} timeout(limit {}ms, sleep {}ms) reported {}", o.host, limit_ms, inner_ms, o.note)));
                                    break 'chk;
                                }
                                Some(inner_ms * 1000)
                            } else {
                                if o.note != "elapsed" {
                                    violation = Some(Violation::new("TimeoutOutcome", format!("host n{} timeout(limit {}ms, sleep {}ms) reported {}", o.host, limit_ms, inner_ms, o.note)));
                                    break 'chk;
                                }
                                Some(limit_ms * 1000)
                            }
                        }
                        TimerOp::Interval { period_ms, .. } => Some((o.phase as u64 - 2) * period_ms * 1000),
                        TimerOp::Yield => None,
                    };
                    if let Some(d) = expect {
                        let got = o.elapsed - b.elapsed;
                        let got_inst = o.inst - b.inst;
                        if got != d || got_inst != d {
                            violation = Some(Violation::new(
                                "TimerInstant",
                                format!(
                                    "host n{}.{} task {} op {} {:?}: started at elapsed={}us, expected to fire at +{}us, fired at +{}us by elapsed() and +{}us by tokio Instant (tick {}us)",
                                    o.host, o.inc, o.task, o.op, spec, b.elapsed, d, got, got_inst, tick
                                ),
                            ));
                            break;
                        }
                    }
                }
            }
        }
        for o in &obs {
            sh.log.tag(match o.phase {
                0 => "b",
                1 => "a",
                _ => "i",
            });
            sh.log.0.borrow_mut().tag_u64(o.host as u64 * 1000 + (o.sim_elapsed / tick.max(1)) % 1000);
        }
        let late = sc.hosts.iter().any(|h| h.register_before_step > 1);
        let mut rep = Report::from_log(sh.log.take());
        rep.violation = violation;
        rep.nontrivial = !obs.is_empty() && (off_tick || downtime || late);
        rep.steps = sc.steps as u64;
        rep.sim_ms = sc.steps as u64 * tick / 1000;
        rep.faults.add("crash", crashes);
        rep.faults.add("bounce", bounces);
        if downtime {
            rep.probes.inc("crash_with_downtime");
        }
        if late {
            rep.probes.inc("late_registration");
        }
        if off_tick {
            rep.probes.inc("observation_inside_a_step");
        }
        if sc.cfg.tick_us % 1000 != 0 {
            rep.probes.inc("fractional_ms_tick");
        }
        if sc.cfg.epoch_sub_us % 1000 != 0 {
            rep.probes.inc("epoch_not_whole_ms");
        }
        rep.probes.add("step_reported_duration_exceeded_and_run_went_on", step_errors[0]);
        rep.probes.add("step_reported_software_error_and_run_went_on", step_errors[1]);
        if sc.hosts.iter().enumerate().any(|(i, h)| h.finishes && !h.client && obs.iter().any(|o| o.host == i && o.inc > 1)) {
            rep.probes.inc("finished_host_bounced_and_observed");
        }
        rep
    }

    fn shrink(sc: &Scenario) -> Vec<Scenario> {
        let mut out = Vec::new();
        // drop script actions
        for i in 0..sc.script.len() {
            let mut c = sc.clone();
            c.script.remove(i);
            out.push(c);
        }
        // drop hosts (re-index script)
        if sc.hosts.len() > 1 {
            for i in 0..sc.hosts.len() {
                let mut c = sc.clone();
                c.hosts.remove(i);
                c.script = c
                    .script
                    .into_iter()
                    .filter_map(|(s, a)| match a {
                        Action::Crash(h) if h == i => None,
                        Action::Bounce(h) if h == i => None,
                        Action::Crash(h) => Some((s, Action::Crash(if h > i { h - 1 } else { h }))),
                        Action::Bounce(h) => Some((s, Action::Bounce(if h > i { h - 1 } else { h }))),
                    })
                    .collect();
                out.push(c);
            }
        }
        // drop tasks / ops
        for h in 0..sc.hosts.len() {
            for t in 0..sc.hosts[h].tasks.len() {
                if sc.hosts[h].tasks.len() > 1 {
                    let mut c = sc.clone();
                    c.hosts[h].tasks.remove(t);
                    out.push(c);
                }
                for o in 0..sc.hosts[h].tasks[t].len() {
                    if sc.hosts[h].tasks[t].len() > 1 {
                        let mut c = sc.clone();
                        c.hosts[h].tasks[t].remove(o);
                        out.push(c);
                    }
                }
            }
            if sc.hosts[h].register_before_step > 1 {
                let mut c = sc.clone();
                c.hosts[h].register_before_step = 1;
                out.push(c);
            }
        }
        if sc.steps > 3 {
            let mut c = sc.clone();
            c.steps = sc.steps / 2;
            out.push(c);
            let mut c = sc.clone();
            c.steps = sc.steps - 1;
            out.push(c);
        }
        if sc.cfg.random_order {
            let mut c = sc.clone();
            c.cfg.random_order = false;
            out.push(c);
        }
        out
    }

    fn signature(sc: &Scenario) -> String {
        format!("tick={}us hosts={} script={:?}", sc.cfg.tick_us, sc.hosts.len(), sc.script)
    }

    fn known_match(matcher: &str, sc: &Scenario, v: &Violation) -> bool {
        match matcher {
            // tokio's paused clock advances in 1 ms quanta; a tick that is not a whole number of
            // milliseconds cannot be tracked exactly by the per-host runtime
            "fractional-ms-tick" => sc.cfg.tick_us % 1000 != 0 && matches!(v.class.as_str(), "OutsideStepWindow" | "TimerInstant" | "ElapsedVsSim" | "NotMonotone" | "EpochVsSim"),
            _ => false,
        }
    }
}
