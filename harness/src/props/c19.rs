//! C19 — rule chains decide each packet by first match; the built-in fixtures honour delays in order.
//!
//! Two scenario families:
//! * `Wire`: the harness is the wire. Seeded sequences of rule installs/removals (`Net::rule`
//!   before enter, `EnterGuard::rule`, free `rule()` from a polled task, guards dropped at seeded
//!   instants incl. between two packets of one egress batch, `RuleGuard::forget`,
//!   `std::mem::forget`) interleaved with tagged UDP and TCP traffic between several hosts incl.
//!   loopback and own-address traffic. Every rule logs its invocations; every `evaluate` call is
//!   compared with the reference chain of `wirekit2::rules`.
//! * `Fixture`: `fixture::ClientServer` / `fixture::lo` on their own paused tokio runtime; an
//!   observer rule stamps the egress instant of every packet, receivers stamp receipt.

use crate::core::prng::Rng;
use crate::core::{self, Log, Property, Report, Tier, Violation};
use crate::wirekit2::fixrun::{run_fixture, FixRule, FixSc, FixSend};
use crate::wirekit2::rules::{expected_chain, key_of, rules_disagree, RuleSpec, V};
use crate::wirekit2::{desc, parse_ip, tag_bytes, tag_of, Driver, NetCfg, WakeFlag};
use serde::{Deserialize, Serialize};
use std::cell::RefCell;
use std::collections::{BTreeMap, BTreeSet};
use std::future::Future;
use std::net::{IpAddr, SocketAddr};
use std::pin::Pin;
use std::rc::Rc;
use std::task::Poll;
use turmoil_net::shim::tokio::net::{TcpListener, TcpStream, UdpSocket};
use turmoil_net::{Packet, RuleGuard, Verdict};

pub const UDP_PORT: u16 = 7000;
pub const TCP_PORT: u16 = 8000;
/// `to` of a datagram / connect that goes to an address no host owns
pub const UNOWNED: usize = 255;

// ------------------------------------------------------------------------------------------------
// scenario

#[derive(Clone, Debug, Serialize, Deserialize, PartialEq)]
pub enum Via {
    /// `EnterGuard::rule`
    Guard,
    /// free `turmoil_net::rule()` called from inside a polled task of this host
    Task(usize),
}

#[derive(Clone, Debug, Serialize, Deserialize, PartialEq)]
pub enum Keep {
    /// keep the guard; a later `Uninstall` drops it
    Guard,
    /// `RuleGuard::forget`
    Forget,
    /// `std::mem::forget(guard)`
    MemForget,
}

#[derive(Clone, Debug, Serialize, Deserialize, PartialEq)]
pub enum Ev {
    Install { via: Via, rule: RuleSpec, keep: Keep },
    Uninstall { id: u32 },
    /// one tagged datagram from host `from` to address #`sel` of host `to` (sel beyond the address
    /// list = loopback, only meaningful when from == to)
    Udp { from: usize, to: usize, sel: u8 },
    TcpConnect { conn: u32, from: usize, to: usize, sel: u8 },
    /// 8 tagged bytes from the client (true) or server (false) end
    TcpWrite { conn: u32, client: bool },
    TcpClose { conn: u32, client: bool },
    /// one wire round; `mid`: a rule operation performed just before the packet at this position
    /// of the egress batch is evaluated
    Round { mid: Option<(u8, Box<Ev>)> },
}

#[derive(Clone, Debug, Serialize, Deserialize)]
pub struct WireSc {
    pub hosts: Vec<Vec<String>>,
    pub cfg: NetCfg,
    /// how long one wire round is, for turning Deliver(d) into rounds
    pub tick_us: u32,
    /// `Net::rule` before `enter`
    pub pre: Vec<RuleSpec>,
    pub evs: Vec<Ev>,
}

#[derive(Clone, Debug, Serialize, Deserialize)]
pub enum Scenario {
    Wire(WireSc),
    Fixture(FixSc),
}

pub struct C19;


// ------------------------------------------------------------------------------------------------
// own wire

type RuleLog = Rc<RefCell<Vec<(u32, u64)>>>;

fn make_rule(spec: &RuleSpec, log: &RuleLog) -> impl FnMut(&Packet) -> Verdict + 'static {
    let spec = spec.clone();
    let log = log.clone();
    move |p: &Packet| {
        let k = key_of(p);
        log.borrow_mut().push((spec.id, k));
        spec.decide(k).verdict()
    }
}

struct Conn {
    from: usize,
    fut: Option<Pin<Box<dyn Future<Output = std::io::Result<TcpStream>>>>>,
    flag: WakeFlag,
    client: Option<TcpStream>,
    client_local: Option<SocketAddr>,
    server: Option<(usize, TcpStream)>,
}

struct Wire<'a> {
    sc: &'a WireSc,
    d: Driver,
    log: Log,
    rep: Report,
    v: Option<Violation>,
    rulelog: RuleLog,
    alive: Vec<RuleSpec>,
    dead: BTreeSet<u32>,
    guards: BTreeMap<u32, RuleGuard>,
    udp: Vec<[Option<UdpSocket>; 2]>,
    /// per host: a socket bound to 127.0.0.1
    udp_lo: Vec<Option<UdpSocket>>,
    lst: Vec<[Option<TcpListener>; 2]>,
    conns: BTreeMap<u32, Conn>,
    orphans: Vec<(usize, TcpStream)>,
    inflight: Vec<(u64, u64, Packet)>,
    round: u64,
    pkt_seq: u64,
    tag: u64,
    /// tag -> (receiving host, expected to arrive)
    sent: BTreeMap<u64, (usize, bool)>,
    got: BTreeMap<u64, Vec<usize>>,
    accept_flag: WakeFlag,
    nontrivial: bool,
    /// tags of datagrams accepted for another host or an unowned address and not yet seen leaving their host
    expect_wire: BTreeSet<u64>,
}

impl<'a> Wire<'a> {
    fn fail(&mut self, class: &str, msg: String) {
        if self.v.is_none() {
            self.log.ev(format!("VIOLATION {class}: {msg}"));
            self.v = Some(Violation::new(class, msg));
        }
    }

    fn dst_ip(&self, from: usize, to: usize, sel: u8) -> Option<IpAddr> {
        if to == UNOWNED {
            // an address no host owns: the packet leaves its host (and must be shown to the rules)
            return Some(if sel % 2 == 0 { "10.250.0.9".parse().unwrap() } else { "fd00:dead::9".parse().unwrap() });
        }
        let a = &self.d.addrs[to];
        if (sel as usize) < a.len() {
            Some(a[sel as usize])
        } else if from == to {
            Some(match sel as usize - a.len() {
                0 | 1 => {
                    if sel % 2 == 0 {
                        "127.0.0.1".parse().unwrap()
                    } else {
                        "::1".parse().unwrap()
                    }
                }
                // any other address of 127.0.0.0/8 is the host itself just as well
                2 => "127.0.0.2".parse().unwrap(),
                _ => "127.9.8.7".parse().unwrap(),
            })
        } else {
            None
        }
    }

    fn can_send(&self, from: usize, ip: IpAddr) -> bool {
        ip.is_loopback() || self.d.addrs[from].iter().any(|a| a.is_ipv4() == ip.is_ipv4())
    }

    fn install(&mut self, via: &Via, rule: &RuleSpec, keep: &Keep) {
        if self.alive.iter().any(|r| r.id == rule.id) || self.dead.contains(&rule.id) {
            return;
        }
        let f = make_rule(rule, &self.rulelog);
        let g = match via {
            Via::Guard => self.d.guard().rule(f),
            Via::Task(h) => {
                let h = (*h).min(self.d.hosts.len() - 1);
                self.d.once(h, async move { turmoil_net::rule(f) }).expect("ready")
            }
        };
        match keep {
            Keep::Guard => {
                self.guards.insert(rule.id, g);
            }
            Keep::Forget => {
                g.forget();
                self.rep.probes.inc("guard_forgotten");
            }
            Keep::MemForget => {
                std::mem::forget(g);
                self.rep.probes.inc("guard_forgotten");
            }
        }
        self.alive.push(rule.clone());
        self.log.ev(format!("install rule{} via {:?} keep {:?} table {:?}", rule.id, via, keep, rule.table.iter().map(|v| v.name()).collect::<Vec<_>>()));
        self.log.tag("install");
        self.rep.probes.inc("rule_installed");
    }

    fn uninstall(&mut self, id: u32) {
        if let Some(g) = self.guards.remove(&id) {
            if id % 3 == 0 {
                // the guard goes away while a panic unwinds (its owner panicked and the panic is contained, as
                // tokio does for a task): the rule must stop applying all the same
                let _ = crate::core::catch(move || {
                    let _owned = g;
                    panic!("the owner of the rule guard panics");
                });
                self.rep.faults.inc("guard_dropped_by_an_unwinding_panic");
            } else if id % 4 == 1 {
                // a second guard for the same rule (guard plus a clean-up list): the rule goes with the first drop,
                // the second one is a no-op that touches no other rule
                let again = RuleGuard::new(g.id());
                drop(g);
                drop(again);
                self.rep.probes.inc("rule_released_twice");
            } else {
                drop(g);
            }
            let pos = self.alive.iter().position(|r| r.id == id).unwrap();
            if pos + 1 < self.alive.len() {
                self.rep.probes.inc("guard_dropped_not_last");
            }
            self.alive.remove(pos);
            self.dead.insert(id);
            self.log.ev(format!("drop guard of rule{id}"));
            self.log.tag("uninstall");
            self.rep.faults.inc("guard_dropped");
        }
    }

    fn rule_op(&mut self, e: &Ev) {
        match e {
            Ev::Install { via, rule, keep } => self.install(via, rule, keep),
            Ev::Uninstall { id } => self.uninstall(*id),
            _ => {}
        }
    }

    /// `evaluate` + comparison with the reference chain.
    fn evaluate(&mut self, p: &Packet) -> Verdict {
        let key = key_of(p);
        let start = self.rulelog.borrow().len();
        let got = self.d.evaluate(p);
        let calls: Vec<(u32, u64)> = self.rulelog.borrow()[start..].to_vec();
        let (ids, v) = expected_chain(&self.alive, key);
        let got_ids: Vec<u32> = calls.iter().map(|c| c.0).collect();
        self.rep.probes.inc("packets_evaluated");
        if rules_disagree(&self.alive, key) {
            self.nontrivial = true;
            self.rep.probes.inc("evaluated_with_disagreeing_rules");
        }
        self.log.ev(format!("  eval key {key}: rules {got_ids:?} -> {got:?}"));
        if self.log.keep && self.log.lines.len() < 4000 {
            self.log.lines.push(format!("          ({})", desc(p)));
        }
        self.log.tag(&v.name());
        self.log.tag_u64(ids.len() as u64);
        if let Some(d) = got_ids.iter().find(|i| self.dead.contains(i)) {
            self.fail("DeadRuleInvoked", format!("rule{d} was consulted for {} after its guard had been dropped (consulted {got_ids:?}, alive in install order {:?})", desc(p), self.alive.iter().map(|r| r.id).collect::<Vec<_>>()));
        } else if got_ids != ids {
            self.fail("RuleChain", format!("for {} (tag {key}) the rules consulted were {got_ids:?}; alive rules in installation order up to the first non-Pass are {ids:?}", desc(p)));
        } else if calls.iter().any(|c| c.1 != key) {
            self.fail("RuleChain", format!("a rule was shown a different packet than {}", desc(p)));
        } else if got != v.verdict() {
            self.fail("RuleVerdict", format!("evaluate returned {got:?} for {} (tag {key}); the first non-Pass rule of {ids:?} says {}", desc(p), v.name()));
        }
        got
    }

    fn poll_tasks(&mut self) {
        // pending connects
        let ids: Vec<u32> = self.conns.keys().copied().collect();
        for id in ids {
            let c = self.conns.get_mut(&id).unwrap();
            if c.fut.is_some() && c.flag.take() {
                let r = self.d.poll_fut(c.from, &c.flag.waker, c.fut.as_mut().unwrap().as_mut());
                if let Poll::Ready(r) = r {
                    let f = c.fut.take();
                    self.d.on(c.from, || drop(f));
                    if let Ok(s) = r {
                        c.client_local = self.d.on(c.from, || s.local_addr()).ok();
                        c.client = Some(s);
                        self.rep.probes.inc("tcp_connected");
                    }
                }
            }
        }
        // accepts
        for h in 0..self.lst.len() {
            for f in 0..2 {
                loop {
                    let Some(l) = &self.lst[h][f] else { break };
                    match self.d.with_cx(h, &self.accept_flag.waker, |cx| l.poll_accept(cx)) {
                        Poll::Ready(Ok((s, peer))) => {
                            let owner = self.conns.values_mut().find(|c| c.client_local == Some(peer) && c.server.is_none());
                            match owner {
                                Some(c) => c.server = Some((h, s)),
                                None => self.orphans.push((h, s)),
                            }
                        }
                        _ => break,
                    }
                }
            }
        }
    }

    fn wire_round(&mut self, mid: Option<(u8, &Ev)>) -> usize {
        self.poll_tasks();
        self.round += 1;
        // deliver what is due, in (due, emission) order
        let mut due: Vec<(u64, u64, Packet)> = Vec::new();
        let mut rest = Vec::new();
        for e in self.inflight.drain(..) {
            if e.0 <= self.round {
                due.push(e);
            } else {
                rest.push(e);
            }
        }
        self.inflight = rest;
        due.sort_by_key(|e| (e.0, e.1));
        for (_, _, p) in due {
            self.d.deliver(p);
        }
        let mut out = Vec::new();
        self.d.egress(&mut out);
        let n = out.len();
        let mut mid_done = mid.is_none();
        // every datagram accepted for another host (or for nobody's address) is in this batch: it is shown
        // to the rules even if it will be delivered nowhere
        for p in &out {
            if let Some(t) = tag_of_pkt(p) {
                self.expect_wire.remove(&t);
            }
        }
        if let Some(t) = self.expect_wire.iter().next().copied() {
            self.fail("NotShownToRules", format!("datagram tag {t} was accepted by send_to for an address off its host, but it is not among the {} packets that left the hosts in the next round (it can never be shown to the rule chain)", out.len()));
            return n;
        }
        for (i, p) in out.into_iter().enumerate() {
            if let Some((pos, e)) = mid {
                if !mid_done && i >= pos as usize {
                    self.rule_op(e);
                    mid_done = true;
                    self.rep.probes.inc("rule_op_between_packets_of_one_batch");
                }
            }
            // loopback and own-address packets must never reach the wire
            if p.dst.is_loopback() || (self.d.owner(p.src).is_some() && self.d.owner(p.src) == self.d.owner(p.dst)) {
                self.fail("LoopbackOnWire", format!("{} left its host although it is addressed to the host itself", desc(&p)));
                return n;
            }
            let v = self.evaluate(&p);
            if self.v.is_some() {
                return n;
            }
            self.pkt_seq += 1;
            match v {
                Verdict::Drop => {
                    self.rep.faults.inc("verdict_drop");
                    if let Some((_, exp)) = tag_of_pkt(&p).and_then(|t| self.sent.get_mut(&t)) {
                        *exp = false;
                    }
                }
                Verdict::Pass => self.d.deliver(p),
                Verdict::Deliver(d) if d.is_zero() => self.d.deliver(p),
                Verdict::Deliver(d) => {
                    let rounds = (d.as_micros() as u64).div_ceil(self.sc.tick_us.max(1) as u64);
                    self.rep.faults.inc("verdict_delay");
                    self.inflight.push((self.round + rounds, self.pkt_seq, p));
                }
            }
        }
        if !mid_done {
            if let Some((_, e)) = mid {
                self.rule_op(e);
            }
        }
        self.rep.steps += 1;
        self.log.tag_u64(n as u64);
        n
    }

    fn drain_udp(&mut self) {
        for h in 0..self.udp.len() {
            for f in 0..2 {
                let Some(u) = &self.udp[h][f] else { continue };
                let mut b = [0u8; 64];
                while let Ok((n, _)) = self.d.on(h, || u.try_recv_from(&mut b)) {
                    if let Some(t) = tag_of(&b[..n]) {
                        self.got.entry(t).or_default().push(h);
                    }
                }
            }
        }
    }

    fn event(&mut self, e: &Ev) {
        match e {
            Ev::Install { .. } | Ev::Uninstall { .. } => self.rule_op(e),
            Ev::Udp { from, to, sel } if *to != UNOWNED && *to != *from && *sel == 200 => {
                // from the socket bound to 127.0.0.1 to another host: whatever becomes of the datagram afterwards, it
                // leaves its host and must be decided by the rules like any other packet
                let Some(ip) = self.d.addrs[*to].iter().copied().find(|a| a.is_ipv4()) else { return };
                if !self.d.addrs[*from].iter().any(|a| a.is_ipv4()) {
                    return;
                }
                let Some(u) = &self.udp_lo[*from] else { return };
                self.tag += 1;
                let t = self.tag;
                let r = self.d.on(*from, || u.try_send_to(&tag_bytes(t), SocketAddr::new(ip, UDP_PORT)));
                if matches!(r, Ok(8)) {
                    self.expect_wire.insert(t);
                    self.log.ev(format!("udp tag {t} h{from} (bound to 127.0.0.1) -> {ip}"));
                    self.log.tag("udp-from-lo");
                    self.rep.probes.inc("datagrams_from_a_loopback_bound_socket_to_another_host");
                }
            }
            Ev::Udp { from, to, sel } => {
                let Some(ip) = self.dst_ip(*from, *to, *sel) else { return };
                if !self.can_send(*from, ip) {
                    return;
                }
                let f = if ip.is_ipv4() { 0 } else { 1 };
                let Some(u) = &self.udp[*from][f] else { return };
                self.tag += 1;
                let t = self.tag;
                let r = self.d.on(*from, || u.try_send_to(&tag_bytes(t), SocketAddr::new(ip, UDP_PORT)));
                if matches!(r, Ok(8)) {
                    let local = from == to;
                    if *to == UNOWNED {
                        self.sent.insert(t, (*to, false));
                        self.expect_wire.insert(t);
                        self.log.ev(format!("udp tag {t} h{from} -> {ip} (nobody's address)"));
                        self.log.tag("udp-unowned");
                        self.rep.probes.inc("datagrams_to_unowned_address");
                        return;
                    }
                    if !local {
                        self.expect_wire.insert(t);
                    }
                    self.sent.insert(t, (*to, true));
                    self.log.ev(format!("udp tag {t} h{from} -> {ip} ({})", if local { "own host" } else { "remote" }));
                    self.log.tag(if local { "udp-local" } else { "udp" });
                    if local {
                        self.rep.probes.inc(if ip.is_loopback() { "loopback_datagrams" } else { "own_address_datagrams" });
                        if ip.is_loopback() && ip != "127.0.0.1".parse::<IpAddr>().unwrap() && ip.is_ipv4() {
                            self.rep.probes.inc("loopback_datagrams_to_other_127_addresses");
                        }
                    }
                }
            }
            Ev::TcpConnect { conn, from, to, sel } => {
                if self.conns.contains_key(conn) {
                    return;
                }
                let Some(ip) = self.dst_ip(*from, *to, *sel) else { return };
                if !self.can_send(*from, ip) {
                    return;
                }
                let dst = SocketAddr::new(ip, TCP_PORT);
                self.conns.insert(*conn, Conn { from: *from, fut: Some(Box::pin(TcpStream::connect(dst))), flag: WakeFlag::new(), client: None, client_local: None, server: None });
                self.log.ev(format!("tcp conn{conn} h{from} -> {dst}"));
                self.log.tag("tconn");
            }
            Ev::TcpWrite { conn, client } => {
                let Some(c) = self.conns.get(conn) else { return };
                self.tag += 1;
                let t = self.tag;
                let r = if *client { c.client.as_ref().map(|s| self.d.on(c.from, || s.try_write(&tag_bytes(t)))) } else { c.server.as_ref().map(|(h, s)| self.d.on(*h, || s.try_write(&tag_bytes(t)))) };
                self.log.ev(format!("tcp conn{conn} write tag {t} -> {:?}", r.map(|r| r.map_err(|e| e.kind()))));
            }
            Ev::TcpClose { conn, client } => {
                let Some(c) = self.conns.get_mut(conn) else { return };
                if *client {
                    let f = c.fut.take();
                    let s = c.client.take();
                    let h = c.from;
                    self.d.on(h, || {
                        drop(f);
                        drop(s)
                    });
                } else if let Some((h, s)) = c.server.take() {
                    self.d.on(h, || drop(s));
                }
                self.log.ev(format!("tcp conn{conn} close {}", if *client { "client" } else { "server" }));
            }
            Ev::Round { mid } => {
                let m = mid.as_ref().map(|(p, e)| (*p, e.as_ref()));
                self.wire_round(m);
                self.drain_udp();
            }
        }
    }
}

fn tag_of_pkt(p: &Packet) -> Option<u64> {
    match &p.payload {
        turmoil_net::Transport::Udp(d) => tag_of(&d.payload),
        _ => None,
    }
}

fn exec_wire(w: &mut Wire<'_>) {
    let nh = w.d.hosts.len();
    for h in 0..nh {
        let u4 = w.d.once(h, UdpSocket::bind(("0.0.0.0".parse::<IpAddr>().unwrap(), UDP_PORT))).and_then(|r| r.ok());
        let u6 = w.d.once(h, UdpSocket::bind(("::".parse::<IpAddr>().unwrap(), UDP_PORT))).and_then(|r| r.ok());
        let l4 = w.d.once(h, TcpListener::bind(("0.0.0.0".parse::<IpAddr>().unwrap(), TCP_PORT))).and_then(|r| r.ok());
        let l6 = w.d.once(h, TcpListener::bind(("::".parse::<IpAddr>().unwrap(), TCP_PORT))).and_then(|r| r.ok());
        w.udp.push([u4, u6]);
        let ulo = w.d.once(h, UdpSocket::bind(("127.0.0.1".parse::<IpAddr>().unwrap(), UDP_PORT + 1))).and_then(|r| r.ok());
        w.udp_lo.push(ulo);
        w.lst.push([l4, l6]);
    }
    let sc = w.sc;
    for e in &sc.evs {
        w.event(e);
        if w.v.is_some() {
            return;
        }
    }
    // flush: everything still held is delivered, TCP keeps being evaluated
    let mut quiet = 0;
    for _ in 0..200 {
        let n = w.wire_round(None);
        if w.v.is_some() {
            return;
        }
        if n == 0 && w.inflight.is_empty() {
            quiet += 1;
            if quiet >= 2 {
                break;
            }
        } else {
            quiet = 0;
        }
    }
    w.drain_udp();
    let sent = w.sent.clone();
    for (t, (to, exp)) in sent {
        let got = w.got.get(&t).cloned().unwrap_or_default();
        let ok = if exp { got == vec![to] } else { got.is_empty() };
        if !ok {
            let class = if w.d.addrs.len() > to && exp && got.is_empty() { "UdpNotDelivered" } else { "UdpDelivery" };
            w.fail(class, format!("datagram tag {t} for h{to}: expected {} but it was received by hosts {got:?}", if exp { "exactly one receipt" } else { "no receipt (a rule dropped it)" }));
            return;
        }
    }
    w.rep.probes.add("udp_datagrams_checked", w.sent.len() as u64);
}

fn run_wire(sc: &WireSc, keep: bool) -> Report {
    let addrs: Vec<Vec<IpAddr>> = sc.hosts.iter().map(|h| h.iter().map(|a| parse_ip(a)).collect()).collect();
    let rulelog: RuleLog = Rc::new(RefCell::new(Vec::new()));
    let rl = rulelog.clone();
    let pre = sc.pre.clone();
    let d = Driver::new(&addrs, &sc.cfg, move |net| {
        for r in &pre {
            net.rule(make_rule(r, &rl));
        }
    });
    let mut w = Wire {
        sc,
        d,
        log: Log::new(keep),
        rep: Report::default(),
        v: None,
        rulelog,
        alive: sc.pre.clone(),
        dead: BTreeSet::new(),
        guards: BTreeMap::new(),
        udp: Vec::new(),
        udp_lo: Vec::new(),
        lst: Vec::new(),
        conns: BTreeMap::new(),
        orphans: Vec::new(),
        inflight: Vec::new(),
        round: 0,
        pkt_seq: 0,
        tag: 0,
        sent: BTreeMap::new(),
        got: BTreeMap::new(),
        accept_flag: WakeFlag::new(),
        nontrivial: false,
        expect_wire: BTreeSet::new(),
    };
    for r in &sc.pre {
        w.log.ev(format!("Net::rule rule{} table {:?}", r.id, r.table.iter().map(|v| v.name()).collect::<Vec<_>>()));
        w.rep.probes.inc("rule_installed_before_enter");
    }
    let r = core::catch(|| exec_wire(&mut w));
    let Wire { d, log, mut rep, mut v, guards, udp, udp_lo, lst, conns, orphans, nontrivial, .. } = w;
    match r {
        Ok(()) => {
            for (_, c) in conns {
                let Conn { from, fut, client, server, .. } = c;
                d.on(from, || {
                    drop(fut);
                    drop(client)
                });
                if let Some((h, s)) = server {
                    d.on(h, || drop(s));
                }
            }
            for (h, s) in orphans {
                d.on(h, || drop(s));
            }
            for (h, s) in udp.into_iter().enumerate() {
                d.on(h, || drop(s));
            }
            for (h, s) in udp_lo.into_iter().enumerate() {
                d.on(h, || drop(s));
            }
            for (h, s) in lst.into_iter().enumerate() {
                d.on(h, || drop(s));
            }
            drop(guards);
        }
        Err(msg) => {
            std::mem::forget((conns, orphans, udp, udp_lo, lst, guards));
            if v.is_none() {
                v = Some(Violation::new("Panic", format!("turmoil-net panicked: {msg}")));
            }
        }
    }
    drop(d);
    rep.abstract_digest = log.abs_digest();
    rep.full_digest = log.full_digest();
    rep.log = log.lines;
    rep.violation = v;
    rep.nontrivial = nontrivial;
    rep.sim_ms = rep.steps * sc.tick_us as u64 / 1000;
    rep
}


// ------------------------------------------------------------------------------------------------
// generator, Property

const DELAYS: [u32; 7] = [0, 300, 1000, 1000, 2000, 2500, 3000];

fn gen_table(rng: &mut Rng) -> Vec<V> {
    let n = rng.usize(1, 4);
    (0..n)
        .map(|_| match rng.weighted(&[45, 15, 40]) {
            0 => V::Pass,
            1 => V::Drop,
            _ => V::Deliver(*rng.pick(&DELAYS)),
        })
        .collect()
}

fn gen_hosts(rng: &mut Rng, n: usize) -> Vec<Vec<String>> {
    (0..n)
        .map(|h| {
            let k = rng.usize(1, 2);
            (0..k).map(|a| if rng.chance(4, 5) { format!("10.0.{h}.{}", a + 1) } else { format!("fd00::{h}:{}", a + 1) }).collect()
        })
        .collect()
}

fn gen_wire(rng: &mut Rng) -> WireSc {
    let nh = rng.usize(2, 3);
    let hosts = gen_hosts(rng, nh);
    let cfg = NetCfg { retx_threshold: rng.range(2, 3) as u32, retx_max: rng.range(3, 5) as u32, backlog: 16, recv_cap: 0 };
    let mut next_id = 1u32;
    let mut pre = Vec::new();
    for _ in 0..rng.below(3) {
        pre.push(RuleSpec { id: next_id, table: gen_table(rng) });
        next_id += 1;
    }
    let mut held: Vec<u32> = Vec::new();
    let mut evs = Vec::new();
    let mut conns = 0u32;
    let n = rng.usize(10, 40);
    let rule_op = |rng: &mut Rng, next_id: &mut u32, held: &mut Vec<u32>| -> Ev {
        if !held.is_empty() && rng.chance(2, 5) {
            let i = rng.below(held.len() as u64) as usize;
            Ev::Uninstall { id: held.remove(i) }
        } else {
            let id = *next_id;
            *next_id += 1;
            let keep = match rng.weighted(&[70, 15, 15]) {
                0 => Keep::Guard,
                1 => Keep::Forget,
                _ => Keep::MemForget,
            };
            if keep == Keep::Guard {
                held.push(id);
            }
            let via = if rng.bool() { Via::Guard } else { Via::Task(rng.below(nh as u64) as usize) };
            Ev::Install { via, rule: RuleSpec { id, table: gen_table(rng) }, keep }
        }
    };
    for _ in 0..n {
        match rng.weighted(&[20, 30, 5, 6, 3, 36]) {
            0 => evs.push(rule_op(rng, &mut next_id, &mut held)),
            1 => {
                let from = rng.below(nh as u64) as usize;
                let to = if rng.chance(1, 4) { from } else if rng.chance(1, 10) { UNOWNED } else { rng.below(nh as u64) as usize };
                let sel = if to == UNOWNED { rng.below(2) as u8 } else if to != from && rng.chance(1, 10) { 200 } else { rng.below(hosts[to].len() as u64 + if to == from { 4 } else { 0 }) as u8 };
                for _ in 0..rng.range(1, 3) {
                    evs.push(Ev::Udp { from, to, sel });
                }
            }
            2 => {
                let from = rng.below(nh as u64) as usize;
                let to = rng.below(nh as u64) as usize;
                let sel = rng.below(hosts[to].len() as u64 + if to == from { 3 } else { 0 }) as u8;
                conns += 1;
                evs.push(Ev::TcpConnect { conn: conns, from, to, sel });
            }
            3 if conns > 0 => evs.push(Ev::TcpWrite { conn: rng.range(1, conns as u64) as u32, client: rng.bool() }),
            4 if conns > 0 => evs.push(Ev::TcpClose { conn: rng.range(1, conns as u64) as u32, client: rng.bool() }),
            _ => {
                let mid = if rng.chance(1, 4) { Some((rng.below(4) as u8, Box::new(rule_op(rng, &mut next_id, &mut held)))) } else { None };
                evs.push(Ev::Round { mid });
            }
        }
    }
    WireSc { hosts, cfg, tick_us: 1000, pre, evs }
}

fn gen_fixture(rng: &mut Rng) -> FixSc {
    let lo = rng.chance(1, 8);
    let n = if lo { 1 } else { rng.usize(2, 3) };
    let nodes = if lo { vec![vec![]] } else { gen_hosts(rng, n) };
    let mut rules = Vec::new();
    for i in 0..rng.usize(1, 4) {
        let at_ms = rng.range(1, 6) as u32;
        let until_ms = if rng.chance(1, 3) { None } else { Some(at_ms + rng.range(1, 8) as u32) };
        rules.push(FixRule { spec: RuleSpec { id: i as u32 + 1, table: gen_table(rng) }, node: rng.below(n as u64) as usize, at_ms, until_ms });
    }
    let mut sends = Vec::new();
    for _ in 0..rng.usize(3, 10) {
        let from = rng.below(n as u64) as usize;
        let to = if lo || rng.chance(1, 5) { from } else { rng.below(n as u64) as usize };
        let sel = rng.below(nodes[to].len() as u64 + if to == from { 2 } else { 0 }) as u8;
        sends.push(FixSend { at_ms: rng.range(0, 10) as u32, from, to, sel, burst: rng.range(1, 4) as u8, tcp: rng.chance(1, 6) });
    }
    if !lo && rng.chance(1, 8) {
        // many delayed packets in flight at once: a large burst whose packets alternate between two delays
        // (two deadlines, each shared by half of the burst, emitted interleaved), followed one tick later by
        // a second burst whose deadlines cross those of the first
        let (d1, d2) = (*rng.pick(&DELAYS), *rng.pick(&DELAYS));
        rules.insert(0, FixRule { spec: RuleSpec { id: 90, table: vec![V::Deliver(d1), V::Deliver(d2)] }, node: rng.below(n as u64) as usize, at_ms: 0, until_ms: None });
        let from = rng.below(n as u64) as usize;
        let to = (from + 1) % n;
        let t = rng.range(1, 5) as u32;
        sends.push(FixSend { at_ms: t, from, to, sel: 0, burst: rng.range(22, 40) as u8, tcp: false });
        sends.push(FixSend { at_ms: t + 1, from, to, sel: 0, burst: rng.range(4, 24) as u8, tcp: false });
    }
    FixSc { lo, nodes, rules, sends, run_ms: 22 }
}

impl Property for C19 {
    const ID: &'static str = "C19";
    const LEVEL: &'static str = "exploration";
    type Scenario = Scenario;

    fn rule() -> String {
        "two seeded families. (wire, 60%) 2-3 hosts with 1-2 addresses, 0-2 rules installed with Net::rule before enter, then 10-40 events: rule install through EnterGuard::rule or the free rule() called from a polled task, guard kept / RuleGuard::forget / std::mem::forget, guard drop (also between two packets of one egress batch), tagged UDP datagrams between all hosts incl. loopback and own-address destinations, TCP connect/write/close, wire rounds; every rule is a table tag -> Pass|Drop|Deliver(0|0.3|1|2|2.5|3 ms) that logs each invocation; at every EnterGuard::evaluate the logged invocations and the returned verdict are compared with the reference chain (alive rules in installation order up to and including the first non-Pass; none/all Pass => Pass; a dropped guard's rule never again), the wire then honours the verdict and at the end each datagram must have been received exactly by its destination iff it was not dropped; own-host packets must never appear on the wire. (fixture, 40%) fixture::ClientServer with 1-2 servers (1/8: fixture::lo): an observer rule stamps each packet's egress instant on the paused tokio clock, 1-4 further table rules are installed from tasks at 1-6 ms and dropped at a later instant or forgotten, nodes send bursts of tagged datagrams and single tagged TCP messages at 0-10 ms; receivers stamp receipt; judged: first-match chain per evaluation, Deliver(d) => receipt - egress in [d, d+1ms], Pass => [0, 1ms], Drop => never received, equal deadlines at one socket => emission order, own-host traffic delivered and never shown to rules. Non-trivial: some packet was evaluated while >=2 alive rules gave different verdicts for it; distinct = digest of event kinds, verdict kinds, chain lengths. Added later: destinations 127.0.0.2 / 127.9.8.7 (never on the wire); datagrams to an address no host owns (must be in the next egress batch, i.e. shown to the rules); rule guards dropped while a contained panic unwinds; fixture: bursts of 22-40 datagrams alternating between two delays plus a crossing second burst.".into()
    }
    fn components_real() -> Vec<&'static str> {
        vec!["turmoil-net: Net::rule / EnterGuard::rule / rule() / RuleGuard (drop, forget) / Net::evaluate, Kernel::egress loopback fold-back, fixture::ClientServer, fixture::lo, fixture::Scheduler (pending queue, tick), shim sockets; tokio paused current-thread runtime inside the fixtures"]
    }
    fn components_stub() -> Vec<&'static str> {
        vec!["wire family: the wire and the task polling are the harness's (it calls evaluate itself, as the crate intends); fixture family: only the workload futures and the rule closures are ours"]
    }
    fn assumptions() -> Vec<String> {
        vec![
            "the fixtures' tick is the crate-private constant fixture::TICK = 1 ms; 'within one tick after the deadline' is read as the closed interval [d, d + 1 ms] on the virtual clock".into(),
            "packets with different deadlines that fall due in the same tick are not required to arrive in any order".into(),
            "TCP messages under rules: the read instant must lie in the window of at least one non-dropped emission of the segment (retransmissions are further emissions); non-delivery of TCP data is not judged".into(),
            "rule operations from inside a rule's own on_packet (re-entrancy) are not generated".into(),
        ]
    }
    fn budget(tier: Tier) -> u64 {
        match tier {
            Tier::Quick => 2_000_000,
            Tier::Thorough => 24_000_000,
        }
    }

    fn generate(rng: &mut Rng, _idx: u64, _tier: Tier) -> Scenario {
        if rng.chance(3, 5) {
            Scenario::Wire(gen_wire(rng))
        } else {
            Scenario::Fixture(gen_fixture(rng))
        }
    }

    fn run(sc: &Scenario, keep: bool) -> Report {
        match sc {
            Scenario::Wire(w) => run_wire(w, keep),
            Scenario::Fixture(f) => run_fixture(f, keep),
        }
    }

    fn shrink(sc: &Scenario) -> Vec<Scenario> {
        let mut out = Vec::new();
        match sc {
            Scenario::Wire(w) => {
                for cut in [w.evs.len() / 2, w.evs.len().saturating_sub(1)] {
                    if cut > 0 && cut < w.evs.len() {
                        let mut c = w.clone();
                        c.evs.truncate(cut);
                        out.push(Scenario::Wire(c));
                    }
                }
                for i in 0..w.evs.len() {
                    let mut c = w.clone();
                    c.evs.remove(i);
                    out.push(Scenario::Wire(c));
                }
                for i in 0..w.pre.len() {
                    let mut c = w.clone();
                    c.pre.remove(i);
                    out.push(Scenario::Wire(c));
                }
                for (i, e) in w.evs.iter().enumerate() {
                    match e {
                        Ev::Round { mid: Some((_, op)) } => {
                            let mut c = w.clone();
                            c.evs[i] = Ev::Round { mid: None };
                            out.push(Scenario::Wire(c));
                            let mut c = w.clone();
                            c.evs[i] = (**op).clone();
                            c.evs.insert(i + 1, Ev::Round { mid: None });
                            out.push(Scenario::Wire(c));
                        }
                        Ev::Install { via, rule, keep } => {
                            if rule.table.len() > 1 {
                                for k in 0..rule.table.len() {
                                    let mut c = w.clone();
                                    let mut r = rule.clone();
                                    r.table = vec![rule.table[k]];
                                    c.evs[i] = Ev::Install { via: via.clone(), rule: r, keep: keep.clone() };
                                    out.push(Scenario::Wire(c));
                                }
                            }
                            if *via != Via::Guard {
                                let mut c = w.clone();
                                c.evs[i] = Ev::Install { via: Via::Guard, rule: rule.clone(), keep: keep.clone() };
                                out.push(Scenario::Wire(c));
                            }
                        }
                        _ => {}
                    }
                }
                if w.hosts.len() > 2 {
                    let last = w.hosts.len() - 1;
                    let used = w.evs.iter().any(|e| match e {
                        Ev::Udp { from, to, .. } | Ev::TcpConnect { from, to, .. } => *from == last || *to == last,
                        Ev::Install { via: Via::Task(h), .. } => *h == last,
                        _ => false,
                    });
                    if !used {
                        let mut c = w.clone();
                        c.hosts.pop();
                        out.push(Scenario::Wire(c));
                    }
                }
            }
            Scenario::Fixture(f) => {
                for i in 0..f.sends.len() {
                    let mut c = f.clone();
                    c.sends.remove(i);
                    out.push(Scenario::Fixture(c));
                }
                for i in 0..f.rules.len() {
                    let mut c = f.clone();
                    c.rules.remove(i);
                    out.push(Scenario::Fixture(c));
                }
                for i in 0..f.sends.len() {
                    if f.sends[i].burst > 1 {
                        let mut c = f.clone();
                        c.sends[i].burst -= 1;
                        out.push(Scenario::Fixture(c));
                    }
                    if f.sends[i].at_ms > 0 {
                        let mut c = f.clone();
                        c.sends[i].at_ms = 0;
                        out.push(Scenario::Fixture(c));
                    }
                }
                for i in 0..f.rules.len() {
                    if f.rules[i].spec.table.len() > 1 {
                        for k in 0..f.rules[i].spec.table.len() {
                            let mut c = f.clone();
                            c.rules[i].spec.table = vec![f.rules[i].spec.table[k]];
                            out.push(Scenario::Fixture(c));
                        }
                    }
                    if f.rules[i].until_ms.is_some() {
                        let mut c = f.clone();
                        c.rules[i].until_ms = None;
                        out.push(Scenario::Fixture(c));
                    }
                    if f.rules[i].at_ms > 1 {
                        let mut c = f.clone();
                        c.rules[i].at_ms = 1;
                        out.push(Scenario::Fixture(c));
                    }
                }
            }
        }
        out
    }

    fn signature(sc: &Scenario) -> String {
        match sc {
            Scenario::Wire(w) => format!(
                "wire pre{} {}",
                w.pre.len(),
                w.evs
                    .iter()
                    .map(|e| match e {
                        Ev::Install { .. } => "I",
                        Ev::Uninstall { .. } => "U",
                        Ev::Udp { .. } => "u",
                        Ev::TcpConnect { .. } => "c",
                        Ev::TcpWrite { .. } => "w",
                        Ev::TcpClose { .. } => "x",
                        Ev::Round { mid: None } => "R",
                        Ev::Round { .. } => "M",
                    })
                    .collect::<String>()
            ),
            Scenario::Fixture(f) => format!("fixture{} rules{} sends{}", if f.lo { "-lo" } else { "" }, f.rules.len(), f.sends.len()),
        }
    }
}
