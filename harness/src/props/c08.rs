//! C08 — held links deliver nothing until released, then everything exactly once, in order.

use crate::core::prng::Rng;
use crate::core::{Property, Report, Tier, Violation};
use crate::props::c14::{fit_capacities, gen_sel, gen_set, gen_traffic};
use crate::simkit::links::{self, Act, Conn, Ev, EvKind, HostAct, ListedKind, Msg, Net, Sel, UdpBurst, TCP_PORT, UDP_PORT};
use crate::simkit::SimCfg;
use serde::{Deserialize, Serialize};
use std::collections::{BTreeMap, BTreeSet};

#[derive(Clone, Debug, Serialize, Deserialize)]
pub struct Manual {
    pub pair: (usize, usize),
    /// the controller marks the link's in-flight messages before this step; deliveries start here
    pub mark_step: u32,
}

#[derive(Clone, Debug, Serialize, Deserialize)]
pub struct Scenario {
    pub net: Net,
    /// Some: `variants` enumerates manual deliveries (subsets and orders) of the marked messages
    pub manual: Option<Manual>,
    /// seed for the sampled delivery plans when more than 4 messages are held
    pub vseed: u64,
}

pub struct C08;

#[derive(Clone, Copy, Debug, PartialEq)]
enum St {
    /// on an unheld link: keeps the latency window
    Timed,
    /// certainly held: must not be received
    Held,
    /// the readings of the text disagree about whether it is held: anything goes until released
    Maybe,
    /// released / manually delivered at event `group` with the link clock `clock`
    Released { group: u64, certain: bool, clock: u64, ev: usize },
}

struct MState {
    st: St,
    send: usize,
    from: usize,
    to: usize,
    recv: Option<usize>,
    /// was certainly held at some point
    was_held: bool,
}

fn fail(v: &mut Option<Violation>, class: &str, msg: String) {
    if v.is_none() {
        *v = Some(Violation::new(class, msg));
    }
}

fn pair_of(a: usize, b: usize) -> (usize, usize) {
    (a.min(b), a.max(b))
}

fn link_clock(e: &Ev, tick: u64) -> u64 {
    match e.host {
        None => e.t,
        Some(_) => e.step as u64 * tick,
    }
}

fn socket_key(m: &Msg) -> (u8, u32, u32) {
    match m {
        Msg::Udp { from, to, .. } => (0, *from as u32, *to as u32),
        Msg::Syn { .. } => (1, 0, 0),
        Msg::Data { conn, dir, .. } | Msg::Fin { conn, dir } => (2, *conn as u32, *dir as u32),
    }
}

/// The reference model: every link is a multiset of in-flight messages plus a held flag.
struct Model<'a> {
    net: &'a Net,
    evs: &'a [Ev],
    tick: u64,
    lmin: u64,
    lmax: u64,
    msgs: BTreeMap<Msg, MState>,
    /// messages in send order
    order: Vec<Msg>,
    held: BTreeSet<(usize, usize)>,
    /// hold / release calls: (event index, unordered pairs)
    calls: Vec<(usize, Vec<(usize, usize)>)>,
    /// released messages that a directly following hold caught again before they left the link
    reheld: u64,
}

impl<'a> Model<'a> {
    fn unordered_pairs(&self, a: &Act) -> Vec<(usize, usize)> {
        let mut v: Vec<(usize, usize)> = a.pairs(self.net.hosts).into_iter().map(|(x, y)| pair_of(x, y)).collect();
        v.sort();
        v.dedup();
        v
    }

    fn on_send(&mut self, i: usize, m: Msg) {
        let e = &self.evs[i];
        let (from, to) = links::direction(self.net, &m);
        let p = pair_of(from, to);
        let ambiguous = self.calls.iter().any(|(c, pairs)| pairs.contains(&p) && links::order_ambiguous(&self.evs[*c], e));
        let st = if ambiguous {
            St::Maybe
        } else if self.held.contains(&p) {
            St::Held
        } else {
            St::Timed
        };
        self.order.push(m);
        self.msgs.insert(m, MState { st, send: i, from, to, recv: None, was_held: st == St::Held });
    }

    /// returns how many messages that were in flight became held
    fn on_hold(&mut self, i: usize, pairs: &[(usize, usize)]) -> usize {
        let mut caught = 0;
        let e = &self.evs[i];
        let m = links::moment(e, self.tick);
        let clock = link_clock(e, self.tick);
        // sends per link (event sequence numbers): a send on a link between a release and this hold may
        // already have pushed the released messages out
        let sends: Vec<(u64, (usize, usize))> = self.msgs.values().map(|x| (self.evs[x.send].seq, pair_of(x.from, x.to))).collect();
        for ms in self.msgs.values_mut() {
            if ms.recv.is_some() || !pairs.contains(&pair_of(ms.from, ms.to)) {
                continue;
            }
            let send = &self.evs[ms.send];
            ms.st = match ms.st {
                St::Timed => {
                    if links::certainly_arrived(send, self.lmax, self.tick, m) {
                        St::Timed
                    } else if links::certainly_in_flight(send, self.lmin, self.tick, m) {
                        ms.was_held = true;
                        caught += 1;
                        St::Held
                    } else {
                        St::Maybe
                    }
                }
                // a released message leaves the link at the next tick of the link clock; one whose hold
                // status was uncertain may also still be travelling with its original latency
                St::Released { clock: r, certain, group, ev } => {
                    let rel = &self.evs[ev];
                    let p = pair_of(ms.from, ms.to);
                    if clock > r {
                        if certain || links::certainly_arrived(send, self.lmax, self.tick, m) {
                            ms.st
                        } else {
                            St::Maybe
                        }
                    } else if certain
                        // the link clock has not moved and nothing was sent on the link since the release:
                        // the released message has not left yet, it is in flight when this hold is called
                        && !sends.iter().any(|(q, sp)| *sp == p && *q > group && *q < e.seq)
                        // both readings agree that the release came first (same caller, or not later in virtual time)
                        && (rel.host == e.host || rel.t <= e.t)
                    {
                        ms.was_held = true;
                        caught += 1;
                        self.reheld += 1;
                        St::Held
                    } else {
                        St::Maybe
                    }
                }
                other => other,
            };
        }
        for p in pairs {
            self.held.insert(*p);
        }
        caught
    }

    fn on_release(&mut self, i: usize, pairs: &[(usize, usize)]) {
        let e = &self.evs[i];
        let clock = link_clock(e, self.tick);
        for ms in self.msgs.values_mut() {
            if ms.recv.is_some() || !pairs.contains(&pair_of(ms.from, ms.to)) {
                continue;
            }
            ms.st = match ms.st {
                St::Held => St::Released { group: e.seq, certain: true, clock, ev: i },
                St::Maybe => St::Released { group: e.seq, certain: false, clock, ev: i },
                other => other,
            };
        }
        for p in pairs {
            self.held.remove(p);
        }
    }

    /// LinkIter::deliver_all: every listed message of the link is scheduled for the next step.
    fn on_deliver_all(&mut self, i: usize, p: (usize, usize)) {
        let e = &self.evs[i];
        let m = links::moment(e, self.tick);
        let clock = link_clock(e, self.tick);
        for ms in self.msgs.values_mut() {
            if ms.recv.is_some() || pair_of(ms.from, ms.to) != p {
                continue;
            }
            let send = &self.evs[ms.send];
            ms.st = match ms.st {
                St::Held => St::Released { group: e.seq, certain: true, clock, ev: i },
                St::Timed if links::certainly_arrived(send, self.lmax, self.tick, m) => St::Timed,
                St::Released { .. } => ms.st,
                // rescheduled ahead of its latency, or uncertain: no window applies any more
                _ => St::Released { group: e.seq, certain: false, clock, ev: i },
            };
        }
    }

    fn on_deliver(&mut self, i: usize, m: Msg) {
        let e = &self.evs[i];
        let clock = link_clock(e, self.tick);
        if let Some(ms) = self.msgs.get_mut(&m) {
            if ms.recv.is_none() {
                ms.st = match ms.st {
                    St::Held => St::Released { group: e.seq, certain: true, clock, ev: i },
                    // delivering something that is not (certainly) held reschedules it: no window applies any more
                    _ => St::Released { group: e.seq, certain: false, clock, ev: i },
                };
            }
        }
    }
}

fn manual_base(rng: &mut Rng, cfg: &mut SimCfg, n: usize, tick_ms: u64) -> (Net, Manual) {
    let a = rng.usize(0, n - 1);
    let mut b = rng.usize(0, n - 2);
    if b >= a {
        b += 1;
    }
    let hold_step = if rng.bool() { 1 } else { rng.range(3, 7) as u32 };
    let mark_step = hold_step.max(2) + rng.range(2, 6) as u32;
    // background traffic on every link, then the messages that will be held
    let horizon = (mark_step as u64 + 8) * tick_ms;
    let nb = rng.usize(0, 6);
    let nc = if rng.chance(1, 3) { 1 } else { 0 };
    let (mut udp, mut conns) = gen_traffic(rng, n, tick_ms, horizon, nb, nc);
    let k = *rng.pick(&[1usize, 2, 2, 3, 3, 4, 4, 4, 5, 6]);
    let lo = (hold_step.max(2) as u64 - 1) * tick_ms;
    let hi = (mark_step as u64 - 1) * tick_ms - 1;
    let mut left = k;
    while left > 0 {
        let (x, y) = if rng.chance(2, 3) { (a, b) } else { (b, a) };
        let tcp = rng.chance(1, 5);
        if tcp {
            // a connect during the hold: its SYN is held
            conns.push(Conn { from: x, to: y, at_ms: rng.range(lo, hi.max(lo)), c2s: vec![(rng.range(lo, horizon), 1)], s2c: if rng.bool() { vec![(rng.range(lo, horizon), 1)] } else { vec![] }, fin_c: if rng.bool() { Some(horizon) } else { None }, fin_s: None, by_ip: rng.bool(), drop_c: None });
            left -= 1;
        } else {
            let c = rng.usize(1, left.min(3));
            udp.push(UdpBurst { from: x, to: y, at_ms: rng.range(lo, hi.max(lo)), count: c as u32, by_ip: rng.chance(1, 3) });
            left -= c;
        }
    }
    let mut script = vec![(hold_step, if rng.bool() { Act::Hold(gen_sel(rng, a), gen_sel(rng, b)) } else { Act::Hold(gen_sel(rng, b), gen_sel(rng, a)) })];
    script.push((mark_step, Act::Mark(a, b)));
    let after = mark_step + 8;
    if rng.bool() {
        script.push((after, Act::Release(gen_sel(rng, a), gen_sel(rng, b))));
    }
    let fin = after + 2;
    // half of the workloads never release the link: what was delivered by hand must arrive all the
    // same, what was not stays held to the end
    if rng.bool() {
        script.push((fin, Act::Release(Sel::All, Sel::All)));
    }
    let tick = cfg.tick_us;
    let net = Net { cfg: cfg.clone(), hosts: n, udp, conns, hacts: vec![], script, steps: fin + (3 * (cfg.max_latency_us.div_ceil(tick) + 2) + 4) as u32, sample_links: true, probes: vec![], literal_order: vec![] };
    (net, Manual { pair: (a, b), mark_step })
}

/// "Up to the socket capacities": a small tcp_capacity that the held messages fill exactly — either
/// `cap` connection requests for one listener, or `cap` data segments of one stream followed by its FIN —
/// released together in one step.
fn capacity_base(rng: &mut Rng, cfg: &mut SimCfg, n: usize, tick_ms: u64) -> Net {
    let a = rng.usize(0, n - 1);
    let mut b = rng.usize(0, n - 2);
    if b >= a {
        b += 1;
    }
    let cap = *rng.pick(&[1usize, 2, 2, 3, 4]);
    cfg.tcp_capacity = cap;
    cfg.udp_capacity = 64;
    let lat = cfg.max_latency_us.div_ceil(cfg.tick_us) as u32;
    let hold_step = 7 + 2 * lat;
    let rel_step = hold_step + rng.range(3, 6) as u32;
    let lo = (hold_step as u64 - 1) * tick_ms;
    let hi = (rel_step as u64 - 1) * tick_ms - 1;
    let mut conns = Vec::new();
    let mut udp = Vec::new();
    if rng.bool() {
        // `cap` connects while the link is held: their SYNs reach the listener in one step
        for _ in 0..cap {
            let at = rng.range(lo, hi);
            // (only the hello frame: a second frame would have to wait for a credit when the capacity is 1)
            conns.push(Conn { from: a, to: b, at_ms: at, c2s: vec![], s2c: vec![], fin_c: if rng.bool() { Some(hi + 20 * tick_ms) } else { None }, fin_s: None, by_ip: rng.bool(), drop_c: None });
        }
    } else {
        // one stream set up before the hold; while the link is held it writes `cap` frames and shuts down
        let at = rng.range(lo, hi);
        conns.push(Conn { from: a, to: b, at_ms: tick_ms, c2s: vec![(at, cap as u32)], s2c: vec![], fin_c: Some(rng.range(at, hi)), fin_s: None, by_ip: rng.bool(), drop_c: None });
    }
    // some datagrams in both directions on the held link and elsewhere
    for _ in 0..rng.usize(0, 3) {
        let (x, y) = if rng.bool() { (a, b) } else { (b, a) };
        udp.push(UdpBurst { from: x, to: y, at_ms: rng.range(tick_ms, hi), count: rng.range(1, 3) as u32, by_ip: rng.chance(1, 3) });
    }
    let script = vec![(hold_step, Act::Hold(gen_sel(rng, a), gen_sel(rng, b))), (rel_step, Act::Release(gen_sel(rng, a), gen_sel(rng, b)))];
    Net { cfg: cfg.clone(), hosts: n, udp, conns, hacts: vec![], script, steps: rel_step + 3 * (lat + 2) + 24, sample_links: true, probes: vec![], literal_order: vec![] }
}

fn cycles_base(rng: &mut Rng, cfg: &mut SimCfg, n: usize, tick_ms: u64) -> Net {
    let run_ticks = rng.range(8, 22);
    let horizon = run_ticks * tick_ms;
    let nb = rng.usize(3, 16);
    let nc = *rng.pick(&[0usize, 0, 1, 2, 3]);
    let (mut udp, mut conns) = gen_traffic(rng, n, tick_ms, horizon, nb, nc);
    let mut script: Vec<(u32, Act)> = Vec::new();
    let mut hacts: Vec<HostAct> = Vec::new();
    let cycles = rng.usize(1, 3);
    for _ in 0..cycles {
        let a = rng.usize(0, n - 1);
        let mut b = rng.usize(0, n - 2);
        if b >= a {
            b += 1;
        }
        let sels = |rng: &mut Rng| -> (Sel, Sel) {
            match rng.below(8) {
                0 => (gen_set(rng, n), gen_sel(rng, b)),
                1 => (gen_sel(rng, a), gen_set(rng, n)),
                2 => (gen_set(rng, n), gen_set(rng, n)),
                _ => {
                    if rng.bool() {
                        (gen_sel(rng, a), gen_sel(rng, b))
                    } else {
                        (gen_sel(rng, b), gen_sel(rng, a))
                    }
                }
            }
        };
        let s_h = rng.range(1, run_ticks) as u32;
        let s_r = s_h + rng.range(1, 7) as u32;
        let mut put_at = |rng: &mut Rng, step: u32, act: Act, ctl_only: bool| {
            if !ctl_only && rng.chance(2, 5) && step >= 2 {
                hacts.push(HostAct { host: rng.usize(0, n - 1), at_ms: (step as u64 - 1) * tick_ms + rng.below(tick_ms), act });
            } else {
                script.push((step, act));
            }
        };
        let (ha, hb) = sels(rng);
        put_at(rng, s_h, Act::Hold(ha, hb), false);
        if rng.chance(2, 5) {
            // release directly followed by a new hold of the same link, 1-3 times, with no step (Sim handle)
            // and no await or send (host code) in between: the released messages are still in flight
            // when the next hold is called. Make sure something is held on the link by then.
            let lo = (s_h.max(2) as u64 - 1) * tick_ms;
            let hi = ((s_r as u64 - 1) * tick_ms).max(lo + 1) - 1;
            for (x, y) in [(a, b), (b, a)] {
                if x == a || rng.bool() {
                    udp.push(UdpBurst { from: x, to: y, at_ms: rng.range(lo, hi), count: rng.range(1, 3) as u32, by_ip: rng.chance(1, 3) });
                }
            }
            if rng.chance(1, 4) {
                let at = rng.range(lo, hi);
                conns.push(Conn { from: a, to: b, at_ms: at, c2s: vec![(at, 1)], s2c: vec![], fin_c: None, fin_s: None, by_ip: false, drop_c: None });
            }
            let mut seq = Vec::new();
            for _ in 0..rng.usize(1, 3) {
                let (ra, rb) = if rng.bool() { (Sel::Name(a), Sel::Name(b)) } else { sels(rng) };
                seq.push(Act::Release(ra, rb));
                let (ha, hb) = if rng.chance(2, 3) { (gen_sel(rng, b), gen_sel(rng, a)) } else { sels(rng) };
                seq.push(Act::Hold(ha, hb));
            }
            if rng.chance(1, 3) {
                // as separate controller actions of one slot (Sim::links is sampled between them)
                for act in seq {
                    put_at(rng, s_r, act, true);
                }
            } else {
                put_at(rng, s_r, Act::Seq(seq), false);
            }
            if rng.chance(5, 6) {
                let (ra, rb) = if rng.bool() { (Sel::Name(a), Sel::Name(b)) } else { sels(rng) };
                let s_r2 = s_r + rng.range(1, 5) as u32;
                put_at(rng, s_r2, Act::Release(ra, rb), false);
            }
        } else if rng.chance(5, 6) {
            let (ra, rb) = if rng.bool() { (Sel::Name(a), Sel::Name(b)) } else { sels(rng) };
            put_at(rng, s_r, Act::Release(ra, rb), false);
        }
        if rng.chance(1, 6) {
            // repeated hold on an already held link
            let (ha, hb) = sels(rng);
            put_at(rng, s_h + 1, Act::Hold(ha, hb), false);
        }
    }
    let fin = (run_ticks + 14) as u32;
    script.push((fin, Act::Release(Sel::All, Sel::All)));
    script.sort_by_key(|(s, _)| *s);
    let tick = cfg.tick_us;
    Net { cfg: cfg.clone(), hosts: n, udp, conns, hacts, script, steps: fin + (3 * (cfg.max_latency_us.div_ceil(tick) + 2) + 4) as u32, sample_links: rng.chance(4, 5), probes: vec![], literal_order: vec![] }
}

/// Ordered subsets of 0..k (all of them).
fn ordered_subsets(k: usize) -> Vec<Vec<usize>> {
    fn rec(k: usize, cur: &mut Vec<usize>, out: &mut Vec<Vec<usize>>) {
        out.push(cur.clone());
        for i in 0..k {
            if !cur.contains(&i) {
                cur.push(i);
                rec(k, cur, out);
                cur.pop();
            }
        }
    }
    let mut out = Vec::new();
    rec(k, &mut Vec::new(), &mut out);
    out
}

impl Property for C08 {
    const ID: &'static str = "C08";
    const LEVEL: &'static str = "fault_enumeration";
    type Scenario = Scenario;

    fn rule() -> String {
        "seeded simulations of 2-4 hosts, fail_rate 0, no partitions: numbered UDP datagrams and framed TCP traffic (connects, data in both directions, FINs) on random ordered pairs, counts within the configured socket capacities (capacities fitted exactly in a third of the runs). Faults: (a) 1-3 hold/release cycles on pairs or host sets (name, IP, regex, `.*`) placed at arbitrary steps, issued from the Sim handle or from host code at virtual instants, repeated holds, holds never released before the final release-all; (b) manual delivery: one link held, 1-6 messages (datagrams, SYNs, segments) held on it, the controller marks what Sim::links lists and then delivers - via variants - EVERY subset in EVERY order (one SentRef::deliver per step gap: 65 plans for 4 messages) plus every subset within one gap in reverse call order; more than 4 held messages: 24 seeded plans. Sim::links is sampled before and after every controller action and at the end. Oracle: reference model of each link (held flag + in-flight multiset, event order; a hold call makes every message whose latency has not elapsed under both clock readings held, messages in the one-tick ambiguity zone may go either way): a held message is never received while the hold lasts; after release/deliver every message is received exactly once (no loss by the end of the run, no duplicate); messages released by one call are received in send order per receiving socket; messages on unheld links keep the C14 window [min - tick, max + tick]; Sim::links lists exactly the model's in-flight messages (every pair once, right link, src/dst hosts and ports, protocol, identity decoded from the payload; SYNs by count). Non-trivial: >=2 messages held simultaneously on one link; distinct = digest of (call kinds and issuers, per message: kind, final state, held or not). Added later: half of the manual plans never release; holds and releases in the very gap of manual deliveries; receive paths recv_from / readable+recv_from / readable+try_recv_from; a capacity flavour in which tcp_capacity (1-4) is filled exactly by held SYNs, or by held data segments followed by the FIN, and released in one step; in-flight certainty judged per clock (host instants, link clock).".into()
    }
    fn components_real() -> Vec<&'static str> {
        vec!["turmoil: Sim::hold/release and the free functions, Sim::links / LinksIter / LinkIter / SentRef::{pair, protocol, deliver} / deliver_all, Topology/Link (Hold status, release, maturing), net::UdpSocket, net::TcpListener/TcpStream (SYN queue, reorder buffer)"]
    }
    fn components_stub() -> Vec<&'static str> {
        vec!["host programs (datagram bursts, framed TCP connections, fault calls at virtual instants, logging receivers) and the controller script (hold/release, marking and manual delivery through Sim::links)"]
    }
    fn assumptions() -> Vec<String> {
        vec![
            "partitions and random link failures are not mixed with holds (fail_rate = 0; mixing hold with one-way partitions is documented as unsupported)".into(),
            "no time bound is stated for the receipt after a release: a released message counts as lost only if it is still missing max_latency + 4 ticks after the release when the run ends, and until it is received it may or may not still be listed by Sim::links".into(),
            "a TCP data frame / FIN counts as receivable only when every earlier segment of its stream direction (and the SYN) has been released too".into(),
            "a message that a release made deliverable and that is hit by a new hold before the link clock moved may be held again or not".into(),
            "order is judged per receiving socket".into(),
        ]
    }
    fn budget(tier: Tier) -> u64 {
        match tier {
            Tier::Quick => 24_000,
            Tier::Thorough => 450_000,
        }
    }

    fn generate(rng: &mut Rng, idx: u64, _tier: Tier) -> Scenario {
        let n = rng.usize(2, 4);
        let tick_ms = *rng.pick(&[1u64, 1, 2, 5, 7, 10, 20]);
        let tick = tick_ms * 1000;
        let min_latency_us = match rng.below(4) {
            0 => 0,
            1 => rng.range(0, 6) * tick,
            _ => rng.range(0, 5) * tick + rng.below(tick),
        };
        let max_latency_us = if rng.bool() { min_latency_us } else { min_latency_us + rng.range(1, 5) * tick + rng.below(tick) };
        let mut cfg = SimCfg {
            rng_seed: rng.next_u64(),
            epoch_s: 1_000_000_000 + rng.below(1_000_000_000),
            epoch_sub_us: 0,
            tick_us: tick,
            duration_ms: 3_600_000,
            min_latency_us,
            max_latency_us,
            latency_curve_milli: if rng.chance(1, 4) { Some(*rng.pick(&[500u64, 1000, 5000, 20000])) } else { None },
            fail_rate_pm: 0,
            repair_rate_pm: 1000,
            random_order: rng.chance(1, 3),
            tcp_capacity: 64,
            udp_capacity: 64,
            ephemeral: None,
            ipv6: rng.chance(1, 4),
        };
        let vseed = rng.next_u64();
        let (mut net, manual) = if idx % 5 == 0 {
            let (net, m) = manual_base(rng, &mut cfg, n, tick_ms);
            (net, Some(m))
        } else if idx % 8 == 3 {
            (capacity_base(rng, &mut cfg, n, tick_ms), None)
        } else {
            (cycles_base(rng, &mut cfg, n, tick_ms), None)
        };
        let mut crng = rng.fork();
        if idx % 5 == 0 || idx % 8 != 3 {
            fit_capacities(&mut crng, &mut net);
        }
        Scenario { net, manual, vseed }
    }

    /// Fault enumeration: every subset and order of manual deliveries of the marked messages.
    fn variants(base: &Scenario, _tier: Tier) -> Vec<Scenario> {
        let Some(man) = &base.manual else { return vec![base.clone()] };
        // learn how many messages the link lists at the mark (pure function of the scenario)
        let mut probe = base.net.clone();
        probe.steps = man.mark_step;
        probe.sample_links = false;
        let (tr, _) = links::execute(&probe, false);
        let mut k = 0usize;
        let mut seen_mark = false;
        for e in &tr.evs {
            match &e.kind {
                EvKind::Act(Act::Mark(..)) => seen_mark = true,
                EvKind::Links(l) if seen_mark => {
                    k = l.first().map(|x| x.msgs.len()).unwrap_or(0);
                    break;
                }
                _ => {}
            }
        }
        let (a, b) = man.pair;
        let mut plans: Vec<(Vec<usize>, bool)> = Vec::new();
        if k <= 4 {
            for p in ordered_subsets(k) {
                plans.push((p, false));
            }
            // every subset within one gap, calls in reverse order: must still arrive in send order
            for mask in 1u32..(1 << k) {
                let p: Vec<usize> = (0..k).rev().filter(|i| mask & (1 << i) != 0).collect();
                if p.len() >= 2 {
                    plans.push((p, true));
                }
            }
        } else {
            let mut r = Rng::new(base.vseed);
            plans.push((vec![], false));
            for j in 0..24 {
                let mut p: Vec<usize> = (0..k).collect();
                r.shuffle(&mut p);
                p.truncate(r.usize(1, k));
                plans.push((p, j % 4 == 3));
            }
        }
        let mut out: Vec<Scenario> = Vec::new();
        {
            // LinkIter::deliver_all instead of single deliveries
            let mut sc = base.clone();
            sc.manual = None;
            sc.net.script.push((man.mark_step, Act::DeliverAll(a, b)));
            sc.net.script.sort_by_key(|(s, _)| *s);
            out.push(sc);
        }
        // a hold / a release issued in the very gap in which messages were scheduled by hand (before the
        // simulation steps): the hand-scheduled messages are still on the link
        let mut r2 = Rng::new(base.vseed ^ 0x5eed);
        let mut extra: Vec<Scenario> = Vec::new();
        for (p, same_gap) in &plans {
            if p.is_empty() || !(*same_gap || p.len() == 1) || !r2.chance(1, 2) {
                continue;
            }
            for again in [Act::Hold(Sel::Name(a), Sel::Name(b)), Act::Release(Sel::Name(a), Sel::Name(b))] {
                let mut sc = base.clone();
                sc.manual = None;
                for rank in p.iter() {
                    sc.net.script.push((man.mark_step, Act::Deliver { a, b, rank: *rank }));
                }
                sc.net.script.push((man.mark_step, again));
                sc.net.script.sort_by_key(|(s, _)| *s);
                extra.push(sc);
            }
        }
        out.extend(plans
            .into_iter()
            .map(|(p, same_gap)| {
                let mut sc = base.clone();
                sc.manual = None;
                for (i, rank) in p.iter().enumerate() {
                    let step = if same_gap { man.mark_step } else { man.mark_step + i as u32 };
                    sc.net.script.push((step, Act::Deliver { a, b, rank: *rank }));
                }
                // the controller executes a step's actions in list order: keep Mark before the deliveries
                sc.net.script.sort_by_key(|(s, _)| *s);
                sc
            }));
        out.extend(extra);
        out
    }

    fn run(sc: &Scenario, keep: bool) -> Report {
        let net = &sc.net;
        let (tr, mut log) = links::execute(net, keep);
        let tick = net.cfg.tick_us;
        let n = net.hosts;
        let mut rep = Report::default();
        let mut violation: Option<Violation> = None;
        if let Some(p) = &tr.panic {
            violation = Some(Violation::new("Panic", format!("panic while running the simulation: {p}")));
        } else if let Some(e) = &tr.step_err {
            violation = Some(Violation::new("StepError", e.clone()));
        }
        let ix = links::index(net, &tr);
        let mut model = Model { net, evs: &tr.evs, tick, lmin: net.cfg.min_latency_us, lmax: net.cfg.max_latency_us, msgs: BTreeMap::new(), order: Vec::new(), held: BTreeSet::new(), calls: Vec::new(), reheld: 0 };
        for (i, e) in tr.evs.iter().enumerate() {
            if let EvKind::Act(a @ (Act::Hold(..) | Act::Release(..))) = &e.kind {
                let pairs = model.unordered_pairs(a);
                model.calls.push((i, pairs));
            }
        }
        let accept_to_syn: BTreeMap<usize, Msg> = ix.msgs.iter().filter(|m| matches!(m.msg, Msg::Syn { .. })).flat_map(|m| m.recvs.iter().map(move |r| (*r, m.msg))).collect();
        let total_pairs = n * (n - 1) / 2;
        let mut max_held_on_a_link = 0usize;
        let mut hol: BTreeMap<(u16, u8), (u64, bool)> = BTreeMap::new();

        for (i, e) in tr.evs.iter().enumerate() {
            match &e.kind {
                EvKind::Send(m) => {
                    model.on_send(i, *m);
                    if let Msg::Data { conn, dir, .. } | Msg::Fin { conn, dir } = m {
                        let timed = model.msgs[m].st == St::Timed;
                        let h = hol.entry((*conn, *dir)).or_insert((0, true));
                        h.0 = h.0.max(e.t + model.lmax);
                        h.1 = h.1 && timed;
                    }
                }
                EvKind::Act(a @ Act::Hold(..)) => {
                    let pairs = model.unordered_pairs(a);
                    let caught = model.on_hold(i, &pairs);
                    rep.faults.add("message_in_flight_caught_by_hold", caught as u64);
                    rep.faults.inc("hold");
                    log.tag(if e.host.is_some() { "hold:host" } else { "hold:ctl" });
                    if e.host.is_some() {
                        rep.probes.inc("call_from_host_code");
                    }
                    if a.uses_sets() {
                        rep.probes.inc("call_with_regex");
                    }
                    // a hold call changes what every stream direction on these links may expect
                    for ((conn, dir), h) in hol.iter_mut() {
                        let (f, t) = links::direction(net, &Msg::Fin { conn: *conn, dir: *dir });
                        if pairs.contains(&pair_of(f, t)) {
                            h.1 = false;
                        }
                    }
                    for p in &pairs {
                        let c = model.msgs.values().filter(|m| m.recv.is_none() && m.st == St::Held && pair_of(m.from, m.to) == *p).count();
                        max_held_on_a_link = max_held_on_a_link.max(c);
                    }
                }
                EvKind::Act(a @ Act::Release(..)) => {
                    let pairs = model.unordered_pairs(a);
                    for p in &pairs {
                        let c = model.msgs.values().filter(|m| m.recv.is_none() && m.st == St::Held && pair_of(m.from, m.to) == *p).count();
                        max_held_on_a_link = max_held_on_a_link.max(c);
                        rep.faults.add("message_released", c as u64);
                    }
                    model.on_release(i, &pairs);
                    rep.faults.inc("release");
                    log.tag(if e.host.is_some() { "release:host" } else { "release:ctl" });
                }
                EvKind::Act(Act::DeliverAll(a, b)) => {
                    let p = pair_of(*a, *b);
                    let c = model.msgs.values().filter(|m| m.recv.is_none() && m.st == St::Held && pair_of(m.from, m.to) == p).count();
                    max_held_on_a_link = max_held_on_a_link.max(c);
                    rep.faults.add("manual_deliver_all", c as u64);
                    log.tag("deliver_all");
                    model.on_deliver_all(i, p);
                    for ((conn, dir), h) in hol.iter_mut() {
                        let (f, t) = links::direction(net, &Msg::Fin { conn: *conn, dir: *dir });
                        if pair_of(f, t) == p {
                            h.1 = false;
                        }
                    }
                }
                EvKind::Deliver { what, .. } => {
                    log.tag("deliver");
                    if let Some(l) = what {
                        match links::listed_to_msg(net, &tr, &ix, l) {
                            Some(m) => {
                                rep.faults.inc("manual_deliver");
                                model.on_deliver(i, m);
                            }
                            None => {
                                // an anonymous SYN (its connect completes later): find it through the connector's port
                                rep.probes.inc("delivered_unidentified_entry");
                            }
                        }
                    } else {
                        rep.probes.inc("deliver_target_gone");
                    }
                }
                EvKind::Recv(_) | EvKind::Accept { .. } => {
                    let m = match &e.kind {
                        EvKind::Recv(m) => Some(*m),
                        _ => accept_to_syn.get(&i).copied(),
                    };
                    let Some(m) = m else { continue };
                    let lmin = model.lmin;
                    let Some(ms) = model.msgs.get_mut(&m) else {
                        fail(&mut violation, "Unexpected", format!("receipt of {m:?} at event {} which was never sent", e.seq));
                        continue;
                    };
                    let send = &tr.evs[ms.send];
                    if ms.recv.is_some() {
                        fail(&mut violation, "Duplicate", format!("{m:?} h{}->h{} (sent at event {}) was received twice: events {} and {}", ms.from, ms.to, send.seq, tr.evs[ms.recv.unwrap()].seq, e.seq));
                        continue;
                    }
                    match ms.st {
                        St::Held => {
                            fail(
                                &mut violation,
                                "ReceivedWhileHeld",
                                format!("{m:?} h{}->h{} sent at event {} (t={}us, step {}) was received at event {} (t={}us, step {}) while the link h{}-h{} was held and the message had been neither released nor delivered", ms.from, ms.to, send.seq, send.t, send.step, e.seq, e.t, e.step, ms.from.min(ms.to), ms.from.max(ms.to)),
                            );
                        }
                        St::Timed => {
                            // unheld links keep the latency window
                            let (bound, judge_hi) = match m {
                                Msg::Data { conn, dir, .. } | Msg::Fin { conn, dir } => hol.get(&(conn, dir)).copied().unwrap_or((send.t + model.lmax, true)),
                                _ => (send.t + model.lmax, true),
                            };
                            if (e.t as i64) < send.t as i64 + lmin as i64 - tick as i64 {
                                fail(&mut violation, "UnheldTooEarly", format!("{m:?} h{}->h{} on an unheld link sent at t={}us received at t={}us: earlier than min latency {}us - tick", ms.from, ms.to, send.t, e.t, lmin));
                            } else if judge_hi && e.t > bound + tick {
                                fail(&mut violation, "UnheldTooLate", format!("{m:?} h{}->h{} on an unheld link sent at t={}us (event {}) received at t={}us (event {}): later than {}us + tick {}us", ms.from, ms.to, send.t, send.seq, e.t, e.seq, bound, tick));
                            }
                        }
                        _ => {}
                    }
                    ms.recv = Some(i);
                }
                EvKind::Links(snap) => {
                    rep.probes.inc("links_sampled");
                    let mut released_still_listed = 0u64;
                    let c = e.t;
                    let partial = snap.len() == 1 && total_pairs > 1;
                    let mut seen_pairs = BTreeSet::new();
                    for l in snap {
                        if l.a >= l.b || l.b >= n || !seen_pairs.insert((l.a, l.b)) {
                            fail(&mut violation, "LinksPairs", format!("Sim::links at event {} lists link (h{}, h{}) which is not a distinct ordered host pair", e.seq, l.a, l.b));
                        }
                    }
                    if !partial && seen_pairs.len() != total_pairs {
                        fail(&mut violation, "LinksPairs", format!("Sim::links at event {} lists {} links, the topology has {}", e.seq, seen_pairs.len(), total_pairs));
                    }
                    for l in snap {
                        let p = (l.a, l.b);
                        // the model's view of this link
                        let mut certain: BTreeSet<Msg> = BTreeSet::new();
                        let mut maybe: BTreeSet<Msg> = BTreeSet::new();
                        for (m, ms) in model.msgs.iter() {
                            if ms.recv.is_some() || pair_of(ms.from, ms.to) != p {
                                continue;
                            }
                            let send = &tr.evs[ms.send];
                            match ms.st {
                                St::Held => {
                                    certain.insert(*m);
                                }
                                St::Maybe => {
                                    maybe.insert(*m);
                                }
                                St::Timed => {
                                    if send.t + model.lmin > c {
                                        certain.insert(*m);
                                    } else if send.step as u64 * tick + model.lmax > c {
                                        maybe.insert(*m);
                                    }
                                }
                                // released or delivered by hand from the Sim handle in this very gap between two
                                // steps: no host has run since, the message cannot have left the link
                                St::Released { ev, certain: true, .. } if tr.evs[ev].host.is_none() && tr.evs[ev].step == e.step => {
                                    released_still_listed += 1;
                                    certain.insert(*m);
                                }
                                // the text sets no time bound between a release and the receipt: until it is
                                // received a released message may or may not still be listed
                                St::Released { .. } => {
                                    maybe.insert(*m);
                                }
                            }
                        }
                        max_held_on_a_link = max_held_on_a_link.max(certain.iter().filter(|m| model.msgs[*m].st == St::Held).count());
                        let mut listed: BTreeSet<Msg> = BTreeSet::new();
                        let mut anon_syn: BTreeMap<(usize, usize), usize> = BTreeMap::new();
                        for x in &l.msgs {
                            if pair_of(x.src_host, x.dst_host) != p {
                                fail(&mut violation, "LinksMeta", format!("Sim::links at event {}: link (h{}, h{}) lists a message h{}->h{}", e.seq, l.a, l.b, x.src_host, x.dst_host));
                                continue;
                            }
                            match links::listed_to_msg(net, &tr, &ix, x) {
                                Some(m) => {
                                    let (f, t) = links::direction(net, &m);
                                    let ports_ok = match m {
                                        Msg::Udp { .. } => x.kind == ListedKind::Udp && x.src_port == UDP_PORT && x.dst_port == UDP_PORT,
                                        Msg::Syn { .. } => x.kind == ListedKind::Syn && x.dst_port == TCP_PORT,
                                        Msg::Data { dir, .. } => matches!(x.kind, ListedKind::Data(_)) && if dir == 0 { x.dst_port == TCP_PORT } else { x.src_port == TCP_PORT },
                                        Msg::Fin { dir, .. } => matches!(x.kind, ListedKind::Fin(_)) && if dir == 0 { x.dst_port == TCP_PORT } else { x.src_port == TCP_PORT },
                                    };
                                    if f != x.src_host || t != x.dst_host || !ports_ok {
                                        fail(&mut violation, "LinksMeta", format!("Sim::links at event {}: entry {x:?} does not describe {m:?} (h{f}->h{t})", e.seq));
                                    }
                                    if !listed.insert(m) {
                                        fail(&mut violation, "LinksExtra", format!("Sim::links at event {}: {m:?} is listed twice on link (h{}, h{})", e.seq, l.a, l.b));
                                    }
                                    if !certain.contains(&m) && !maybe.contains(&m) {
                                        let why = match model.msgs.get(&m) {
                                            Some(ms) if ms.recv.is_some() => "it has already been received".to_string(),
                                            Some(ms) => format!("its state is {:?}", ms.st),
                                            None => "it was never sent".to_string(),
                                        };
                                        fail(&mut violation, "LinksExtra", format!("Sim::links at event {} (t={}us) lists {m:?} on link (h{}, h{}) but the message is not in flight: {why}", e.seq, c, l.a, l.b));
                                    }
                                }
                                None => match x.kind {
                                    ListedKind::Syn => *anon_syn.entry((x.src_host, x.dst_host)).or_insert(0) += 1,
                                    ListedKind::Rst => rep.probes.inc("rst_listed"),
                                    _ => fail(&mut violation, "LinksExtra", format!("Sim::links at event {}: unidentifiable entry {x:?}", e.seq)),
                                },
                            }
                        }
                        // SYNs whose connect never completes within the run carry no identity: matched by count
                        for dir in [(p.0, p.1), (p.1, p.0)] {
                            let anon = anon_syn.get(&dir).copied().unwrap_or(0);
                            let unresolved = |set: &BTreeSet<Msg>| set.iter().filter(|m| matches!(m, Msg::Syn { conn } if !ix.conn_ok.contains_key(conn)) && links::direction(net, m) == dir).count();
                            let (uc, um) = (unresolved(&certain), unresolved(&maybe));
                            if anon < uc {
                                fail(&mut violation, "LinksMissing", format!("Sim::links at event {} lists {anon} SYNs h{}->h{}, the model has {uc} held ones", e.seq, dir.0, dir.1));
                            }
                            if anon > uc + um {
                                fail(&mut violation, "LinksExtra", format!("Sim::links at event {} lists {anon} unidentified SYNs h{}->h{}, the model has at most {} in flight", e.seq, dir.0, dir.1, uc + um));
                            }
                        }
                        for m in &certain {
                            if listed.contains(m) {
                                continue;
                            }
                            if let Msg::Syn { conn } = m {
                                if !ix.conn_ok.contains_key(conn) {
                                    continue; // counted above
                                }
                            }
                            let ms = &model.msgs[m];
                            fail(&mut violation, "LinksMissing", format!("Sim::links at event {} (t={}us) does not list {m:?} on link (h{}, h{}) although it is in flight (state {:?}, sent at t={}us, event {})", e.seq, c, l.a, l.b, ms.st, tr.evs[ms.send].t, tr.evs[ms.send].seq));
                        }
                    }
                    rep.probes.add("released_message_required_in_links_before_next_step", released_still_listed);
                }
                EvKind::ConnErr { conn, kind } => {
                    fail(&mut violation, "Lost", format!("connect of connection {conn} failed with {kind} although no link was partitioned (event {})", e.seq));
                }
                _ => {}
            }
        }

        // ---- end of run: exactly once, nothing lost, release order
        let end_clock = tr.steps_done as u64 * tick;
        let mut chain: BTreeMap<(u16, u8), bool> = BTreeMap::new();
        let mut syn_ok: BTreeMap<u16, bool> = BTreeMap::new();
        let mut groups: BTreeMap<(u64, (u8, u32, u32), usize, usize), u64> = BTreeMap::new();
        let mut nontrivial_msgs = 0u64;
        for m in &model.order {
            let ms = &model.msgs[m];
            let send = &tr.evs[ms.send];
            let due = match ms.st {
                St::Timed => end_clock >= send.t + model.lmax + 4 * tick,
                // no time bound is stated for the receipt after a release: a full further latency window is granted
                St::Released { clock, .. } => end_clock >= clock + model.lmax + 4 * tick && end_clock >= send.t + model.lmax + 4 * tick,
                St::Held | St::Maybe => false,
            };
            let flows = !matches!(ms.st, St::Held | St::Maybe);
            let expected = match m {
                Msg::Syn { conn } => {
                    syn_ok.insert(*conn, flows);
                    due
                }
                Msg::Data { conn, dir, .. } | Msg::Fin { conn, dir } => {
                    let ok = chain.entry((*conn, *dir)).or_insert(true);
                    let was = *ok && syn_ok.get(conn).copied().unwrap_or(false);
                    if !flows {
                        *ok = false;
                    }
                    due && was
                }
                Msg::Udp { .. } => due,
            };
            log.tag(match m {
                Msg::Udp { .. } => "u",
                Msg::Syn { .. } => "s",
                Msg::Data { .. } => "d",
                Msg::Fin { .. } => "f",
            });
            log.tag(match ms.st {
                St::Timed => "T",
                St::Held => "H",
                St::Maybe => "M",
                St::Released { certain: true, .. } => "R",
                St::Released { .. } => "r",
            });
            log.tag(if ms.recv.is_some() { "+" } else { "-" });
            if ms.was_held {
                nontrivial_msgs += 1;
            }
            if ms.recv.is_none() && expected {
                fail(
                    &mut violation,
                    "Lost",
                    format!("{m:?} h{}->h{} sent at event {} (t={}us, step {}), final state {:?}, was never received by the end of the run ({} steps, t={}us)", ms.from, ms.to, send.seq, send.t, send.step, ms.st, tr.steps_done, end_clock),
                );
            }
            if let (St::Released { group, certain: true, .. }, Some(r)) = (ms.st, ms.recv) {
                let key = (group, socket_key(m), ms.from, ms.to);
                let rseq = tr.evs[r].seq;
                if let Some(prev) = groups.get(&key) {
                    if *prev > rseq {
                        fail(&mut violation, "ReleasedOutOfOrder", format!("{m:?} h{}->h{} (sent at event {}) was released together with an earlier message of the same direction (release event {group}) but received before it (receipt event {rseq} < {prev})", ms.from, ms.to, send.seq));
                    }
                }
                let e = groups.entry(key).or_insert(0);
                *e = (*e).max(rseq);
                rep.probes.inc("released_message_received");
            }
        }
        if violation.is_none() {
            if let Some(o) = ix.oddities.iter().map(|o| &tr.evs[*o]).find(|e| !matches!(e.kind, EvKind::Accept { .. })) {
                // duplicates show up here as receipts the index could not attach; everything else is unexpected on healthy links
                if !matches!(o.kind, EvKind::Recv(_)) {
                    violation = Some(Violation::new("Unexpected", format!("unexpected observation at event {} (step {}): {:?}", o.seq, o.step, o.kind)));
                }
            }
        }
        rep.faults.add("released_message_caught_by_immediate_rehold", model.reheld);
        if model.reheld > 0 {
            rep.probes.inc("hold_directly_after_release_with_messages_in_flight");
        }
        if max_held_on_a_link >= 2 {
            rep.probes.inc("two_or_more_held_on_one_link");
        }
        if net.script.iter().any(|(_, a)| matches!(a, Act::Deliver { .. } | Act::DeliverAll(..))) && !net.script.iter().any(|(_, a)| matches!(a, Act::Release(..))) {
            rep.probes.inc("manual_delivery_on_a_link_never_released");
        }
        if sc.net.script.iter().any(|(_, a)| matches!(a, Act::Deliver { .. })) {
            rep.probes.inc("manual_delivery_plan");
        }
        if !net.conns.is_empty() {
            rep.probes.inc("tcp_traffic");
        }
        rep.abstract_digest = log.abs_digest();
        rep.full_digest = log.full_digest();
        rep.log = std::mem::take(&mut log.lines);
        rep.violation = violation;
        rep.harness_error = tr.harness_error.clone();
        rep.nontrivial = max_held_on_a_link >= 2 && nontrivial_msgs >= 2;
        rep.steps = tr.steps_done as u64;
        rep.sim_ms = tr.steps_done as u64 * tick / 1000;
        rep
    }

    fn shrink(sc: &Scenario) -> Vec<Scenario> {
        links::shrink_net(&sc.net).into_iter().map(|net| Scenario { net, manual: None, vseed: sc.vseed }).collect()
    }

    fn signature(sc: &Scenario) -> String {
        let n = &sc.net;
        let mut acts: Vec<String> = n.script.iter().map(|(s, a)| format!("{s}:{}", a.kind())).collect();
        acts.extend(n.hacts.iter().map(|h| format!("h{}@{}:{}", h.host, h.at_ms, h.act.kind())));
        format!("lat={} tcp={} udp={} acts={:?}", if n.cfg.min_latency_us == n.cfg.max_latency_us { "fixed" } else { "range" }, n.conns.len(), n.udp.len(), acts)
    }
}

#[cfg(test)]
mod tests {
    use super::*;

    #[test]
    fn ordered_subsets_count() {
        assert_eq!(ordered_subsets(0).len(), 1);
        assert_eq!(ordered_subsets(3).len(), 16);
        assert_eq!(ordered_subsets(4).len(), 65);
    }

    #[test]
    fn model_hold_release_on_a_hand_written_history() {
        let net = Net { cfg: SimCfg { min_latency_us: 3000, max_latency_us: 3000, tick_us: 1000, ..SimCfg::default() }, hosts: 2, udp: vec![], conns: vec![], hacts: vec![], script: vec![], steps: 1, sample_links: false, probes: vec![], literal_order: vec![] };
        let ev = |seq, step, t, host, kind| Ev { seq, step, t, host, kind };
        let m = |s| Msg::Udp { from: 0, to: 1, seq: s };
        let evs = vec![
            ev(1, 2, 1000, Some(0), EvKind::Send(m(0))), // arrived by 5000 under both readings
            ev(2, 4, 3000, Some(0), EvKind::Send(m(1))), // in flight at 5000 under both readings
            ev(3, 5, 5000, None, EvKind::Act(Act::Hold(Sel::Name(0), Sel::Name(1)))),
            ev(4, 6, 5000, Some(0), EvKind::Send(m(2))), // sent during the hold
            ev(5, 8, 8000, None, EvKind::Act(Act::Release(Sel::Name(1), Sel::Name(0)))),
            ev(6, 9, 8000, Some(0), EvKind::Send(m(3))), // after the release
        ];
        let mut model = Model { net: &net, evs: &evs, tick: 1000, lmin: 3000, lmax: 3000, msgs: BTreeMap::new(), order: vec![], held: BTreeSet::new(), calls: vec![], reheld: 0 };
        model.on_send(0, m(0));
        model.on_send(1, m(1));
        assert_eq!(model.on_hold(2, &[(0, 1)]), 1);
        assert_eq!(model.msgs[&m(0)].st, St::Timed);
        assert_eq!(model.msgs[&m(1)].st, St::Held);
        model.on_send(3, m(2));
        assert_eq!(model.msgs[&m(2)].st, St::Held);
        model.on_release(4, &[(0, 1)]);
        assert!(matches!(model.msgs[&m(1)].st, St::Released { certain: true, .. }));
        assert!(matches!(model.msgs[&m(2)].st, St::Released { certain: true, .. }));
        model.on_send(5, m(3));
        assert_eq!(model.msgs[&m(3)].st, St::Timed);
    }

    /// Sanity gate (DESIGN 9.5): the scenario of turmoil's own `manual_message_delivery` /
    /// `hold_release_peers` tests, expressed in the DSL, must pass the oracle.
    #[test]
    fn repo_scenarios_pass_the_oracle() {
        let cfg = SimCfg { min_latency_us: 2000, max_latency_us: 2000, tick_us: 1000, ..SimCfg::default() };
        let conn = Conn { from: 1, to: 0, at_ms: 1, c2s: vec![(2, 1)], s2c: vec![(2, 1)], fin_c: None, fin_s: None, by_ip: false, drop_c: None };
        // hold, connect, deliver everything by hand, later release
        let net = Net { cfg: cfg.clone(), hosts: 2, udp: vec![UdpBurst { from: 0, to: 1, at_ms: 2, count: 2, by_ip: false }], conns: vec![conn.clone()], hacts: vec![], script: vec![(1, Act::Hold(Sel::Name(0), Sel::Name(1))), (5, Act::DeliverAll(0, 1)), (9, Act::Release(Sel::Name(0), Sel::Name(1)))], steps: 30, sample_links: true, probes: vec![], literal_order: vec![] };
        let rep = C08::run(&Scenario { net, manual: None, vseed: 0 }, true);
        assert!(rep.violation.is_none(), "{:?}\n{}", rep.violation, rep.log.join("\n"));
        assert!(rep.log.iter().any(|l| l.contains("ConnOk")));
        // hold issued from host code, release from the Sim handle
        let net = Net { cfg, hosts: 2, udp: vec![], conns: vec![conn], hacts: vec![HostAct { host: 1, at_ms: 1, act: Act::Hold(Sel::Name(0), Sel::Name(1)) }], script: vec![(6, Act::Release(Sel::Name(1), Sel::Name(0)))], steps: 30, sample_links: true, probes: vec![], literal_order: vec![] };
        let rep = C08::run(&Scenario { net, manual: None, vseed: 0 }, true);
        assert!(rep.violation.is_none(), "{:?}\n{}", rep.violation, rep.log.join("\n"));
        assert!(rep.log.iter().any(|l| l.contains("ConnOk")));
    }

    /// The hold / release / hold cycle with no step in between (seeded mutant C08-m3's demo): on the real
    /// tree the two datagrams stay in flight through the second hold and arrive after the last release.
    #[test]
    fn release_directly_followed_by_hold_keeps_messages_held() {
        let cfg = SimCfg { min_latency_us: 0, max_latency_us: 0, tick_us: 1000, ..SimCfg::default() };
        let net = Net {
            cfg,
            hosts: 2,
            udp: vec![UdpBurst { from: 1, to: 0, at_ms: 2, count: 2, by_ip: false }],
            conns: vec![],
            hacts: vec![],
            script: vec![(1, Act::Hold(Sel::Name(1), Sel::Name(0))), (8, Act::Seq(vec![Act::Release(Sel::Name(1), Sel::Name(0)), Act::Hold(Sel::Name(1), Sel::Name(0))])), (15, Act::Release(Sel::Name(0), Sel::Name(1)))],
            steps: 25,
            sample_links: true,
            probes: vec![],
        };
        let rep = C08::run(&Scenario { net, manual: None, vseed: 0 }, true);
        assert!(rep.violation.is_none(), "{:?}\n{}", rep.violation, rep.log.join("\n"));
        let last_release = rep.log.iter().rposition(|l| l.contains("Act(Release")).unwrap();
        let first_recv = rep.log.iter().position(|l| l.contains("Recv(Udp")).unwrap();
        assert!(first_recv > last_release, "{}", rep.log.join("\n"));
        assert_eq!(rep.log.iter().filter(|l| l.contains("Recv(Udp")).count(), 2);
    }
}
