//! C03 — nothing sent across an explicitly partitioned direction is ever delivered.

use crate::core::prng::Rng;
use crate::core::{Property, Report, Tier, Violation};
use crate::props::c14::fit_capacities;
use crate::simkit::links::{self, Act, Conn, Ev, EvKind, HostAct, Msg, Net, Sel, UdpBurst};
use crate::simkit::SimCfg;
use serde::{Deserialize, Serialize};
use std::collections::BTreeMap;

pub const KF_ONEWAY_RANDOM: &str = "oneway-partition-overridden-by-random-failures";

/// How a host is named in an enumerated action.
#[derive(Clone, Debug, Serialize, Deserialize, PartialEq)]
pub enum Style {
    Name,
    IpStr,
    Ip,
    /// regex matching exactly this host
    Regex,
    /// regex matching this host and a third one
    RegexPlus(usize),
}

#[derive(Clone, Debug, Serialize, Deserialize, PartialEq)]
pub struct Slot {
    /// Some(host, at_ms): issued from inside that host's program; None: from the Sim handle before `step`
    pub host: Option<(usize, u64)>,
    pub step: u32,
    pub style_a: Style,
    pub style_b: Style,
    /// give the pair as (B, A) to the symmetric calls
    pub flip: bool,
}

#[derive(Clone, Debug, Serialize, Deserialize)]
pub struct Scenario {
    pub net: Net,
    /// legacy field of older replay files: scenarios used to be generated with one-way calls kept away from
    /// fail_rate > 0 while defect C03-F1 was open; since its fix (e69d67e) nothing is guarded any more
    #[serde(default)]
    pub guarded: bool,
    /// the pair (A, B) whose two directions the enumerated actions work on
    pub pair: (usize, usize),
    /// non-empty: `variants` places every action sequence up to length 3 into these slots
    pub slots: Vec<Slot>,
}

pub struct C03;

fn sel_of(style: &Style, h: usize) -> Sel {
    match style {
        Style::Name => Sel::Name(h),
        Style::IpStr => Sel::IpStr(h),
        Style::Ip => Sel::Ip(h),
        Style::Regex => Sel::Set(vec![h]),
        Style::RegexPlus(c) => Sel::Set(vec![h, *c]),
    }
}

/// The alphabet over the two directions of (A, B).
fn letter(k: usize, slot: &Slot, a: usize, b: usize) -> Act {
    let sa = sel_of(&slot.style_a, a);
    let sb = sel_of(&slot.style_b, b);
    match k {
        0 => {
            if slot.flip {
                Act::Partition(sb, sa)
            } else {
                Act::Partition(sa, sb)
            }
        }
        1 => Act::PartitionOneway(sa, sb),
        2 => Act::PartitionOneway(sb, sa),
        3 => {
            if slot.flip {
                Act::Repair(sb, sa)
            } else {
                Act::Repair(sa, sb)
            }
        }
        4 => Act::RepairOneway(sa, sb),
        _ => Act::RepairOneway(sb, sa),
    }
}

fn place(net: &mut Net, slot: &Slot, act: Act) {
    match slot.host {
        Some((h, at_ms)) => net.hacts.push(HostAct { host: h, at_ms, act }),
        None => net.script.push((slot.step, act)),
    }
}

fn is_oneway(a: &Act) -> bool {
    matches!(a, Act::PartitionOneway(..) | Act::RepairOneway(..))
}

fn has_oneway(net: &Net) -> bool {
    net.script.iter().any(|(_, a)| is_oneway(a)) || net.hacts.iter().any(|h| is_oneway(&h.act))
}

fn gen_style(rng: &mut Rng, n: usize, a: usize, b: usize, literal: bool) -> Style {
    let st = gen_style_named(rng, n, a, b);
    if !literal {
        return st;
    }
    // hosts registered by IP literal have no DNS name: no name, no regex
    match st {
        Style::Name => Style::IpStr,
        Style::Regex | Style::RegexPlus(_) => Style::Ip,
        other => other,
    }
}

fn gen_style_named(rng: &mut Rng, n: usize, a: usize, b: usize) -> Style {
    match rng.below(8) {
        0..=2 => Style::Name,
        3 => Style::IpStr,
        4 => Style::Ip,
        5 => Style::Regex,
        _ => {
            let third: Vec<usize> = (0..n).filter(|h| *h != a && *h != b).collect();
            if third.is_empty() {
                Style::Regex
            } else {
                Style::RegexPlus(*rng.pick(&third))
            }
        }
    }
}

/// One explicit call: the directions it covers and what it does to them.
struct Call {
    ev: usize,
    dirs: Vec<(usize, usize)>,
    partition: bool,
}

fn calls_of(net: &Net, evs: &[Ev]) -> Vec<Call> {
    let n = net.hosts;
    let mut out = Vec::new();
    for (i, e) in evs.iter().enumerate() {
        if let EvKind::Act(a) = &e.kind {
            let pairs = a.pairs(n);
            let both = |p: &[(usize, usize)]| -> Vec<(usize, usize)> {
                let mut v = Vec::new();
                for (x, y) in p {
                    v.push((*x, *y));
                    v.push((*y, *x));
                }
                v
            };
            match a {
                Act::Partition(..) => out.push(Call { ev: i, dirs: both(&pairs), partition: true }),
                Act::PartitionOneway(..) => out.push(Call { ev: i, dirs: pairs, partition: true }),
                Act::Repair(..) => out.push(Call { ev: i, dirs: both(&pairs), partition: false }),
                Act::RepairOneway(..) => out.push(Call { ev: i, dirs: pairs, partition: false }),
                _ => {}
            }
        }
    }
    out
}

#[derive(Clone, Copy, Debug, PartialEq)]
enum Fate {
    /// sent while the direction was explicitly partitioned: never received
    NeverSentDuring(usize),
    /// certainly in flight when a partition covering the direction was imposed: dropped
    NeverInFlight(usize),
    /// explicitly healthy at the send and certainly arrived before any later partition call: flows
    Must,
    /// the readings of the text disagree, or latency is not fixed: not judged
    Free,
}

/// Classify a message from the reference timeline of explicit calls (event order), granting both
/// readings of every ambiguous instant. Returns the fate and whether a repair preceded the send.
fn fate_of(evs: &[Ev], calls: &[Call], send_ix: usize, dir: (usize, usize), lmin: u64, lmax: u64, tick: u64) -> (Fate, bool, bool) {
    let send = &evs[send_ix];
    let mut partitioned: Option<usize> = None;
    let mut repaired_before = false;
    let mut ambiguous = false;
    for c in calls.iter().filter(|c| c.dirs.contains(&dir)) {
        let ce = &evs[c.ev];
        if links::order_ambiguous(ce, send) {
            ambiguous = true;
        }
        if ce.seq < send.seq {
            if c.partition {
                partitioned = Some(c.ev);
            } else {
                if partitioned.is_some() {
                    repaired_before = true;
                }
                partitioned = None;
            }
        }
    }
    if ambiguous {
        return (Fate::Free, repaired_before, false);
    }
    if let Some(c) = partitioned {
        return (Fate::NeverSentDuring(c), repaired_before, false);
    }
    for c in calls.iter().filter(|c| c.partition && c.dirs.contains(&dir) && evs[c.ev].seq > send.seq) {
        let m = links::moment(&evs[c.ev], tick);
        if links::certainly_arrived(send, lmax, tick, m) {
            continue;
        }
        if lmin == lmax && links::certainly_in_flight(send, lmin, tick, m) {
            return (Fate::NeverInFlight(c.ev), repaired_before, true);
        }
        return (Fate::Free, repaired_before, true);
    }
    (Fate::Must, repaired_before, false)
}

impl Property for C03 {
    const ID: &'static str = "C03";
    const LEVEL: &'static str = "fault_enumeration";
    type Scenario = Scenario;

    fn rule() -> String {
        "seeded traffic patterns on 2-4 hosts: every ordered pair exchanges numbered UDP datagrams every 1-5 ticks for the whole run (payload = sender, seq, sender's sim_elapsed), in half the runs also long-lived framed TCP streams in both directions plus periodic connects; tick 1-20 ms, fixed latency (60%) or ranges, fail_rate/repair_rate in {0} u (0,1], random host order, IPv4/IPv6. Faults: partition / partition_oneway / repair / repair_oneway; per seeded traffic pattern ALL 258 action sequences of length 1..3 over both directions of one pair (A,B) are placed (via variants) into three seeded slots - each slot either a Sim-handle call between two steps or a call from inside a host program (A, B or a third host) at a virtual instant, hosts named by string, IP string, IpAddr or regex (also regexes matching a further host), either address order of A and B; longer sequences (4-8 actions over arbitrary pairs and host sets) seeded. Oracle: reference timeline of the explicit state of every direction keyed by global event order; (1) a message sent while its direction is explicitly partitioned is never received (every fail/repair rate; TCP: SYN never accepted / connect never succeeds, data frames never read); (2) fixed latency: a message certainly in flight when a covering partition is imposed (latency not elapsed under both the sender-clock and the link-clock reading) is never received, in the one-tick zone where the readings differ either outcome is accepted; (3) fail_rate 0: a message sent on an explicitly healthy direction and certainly arrived before any later covering partition is received within max_latency + 2 ticks (other links, reverse direction of a one-way partition, TCP streams whose earlier segments all flowed); (4) same after an explicit repair. A call from another host in the same step whose virtual instant and event order disagree with the send makes that message unjudged. Non-trivial: >=1 message sent into an explicit partition and >=1 partition imposed with a message in flight; distinct = digest of (action kinds, issuer kinds, per-message fate and outcome) Round 11: every fifth traffic pattern registers its hosts by IP literal in descending or shuffled order (selectors by IP only there).".into()
    }
    fn components_real() -> Vec<&'static str> {
        vec!["turmoil: Sim::partition/partition_oneway/repair/repair_oneway and the free functions of the same names, ToIpAddrs resolution (name, IP, regex), Topology/Link state machine incl. the random partition/repair process, net::UdpSocket, net::TcpListener/TcpStream"]
    }
    fn components_stub() -> Vec<&'static str> {
        vec!["host programs (periodic datagrams, framed TCP streams, connects, fault calls at virtual instants, logging receivers) and the controller script"]
    }
    fn assumptions() -> Vec<String> {
        vec![
            "hold/release is outside the alphabet (documented unsupported mix)".into(),
            "the keeps-flowing clauses are judged with fail_rate = 0 only; with fail_rate > 0 only the never-delivered clauses are judged".into(),
            "the in-flight clause is judged in fixed-latency configurations only (the sampled latency of a message is not observable otherwise)".into(),
            "a TCP connect whose SYN travels a healthy direction while only the reverse direction is partitioned is not judged (turmoil has no SYN-ACK message; the text speaks of messages)".into(),
            "a TCP data frame is expected to be read only if the SYN and every earlier segment of the same stream direction were expected too".into(),
        ]
    }
    fn budget(tier: Tier) -> u64 {
        match tier {
            Tier::Quick => 5_000,
            Tier::Thorough => 150_000,
        }
    }

    fn generate(rng: &mut Rng, idx: u64, _tier: Tier) -> Scenario {
        let enumerate = idx % 4 == 0;
        // every fifth traffic pattern: hosts registered by IP literal in a seeded order, so that "either address
        // order of A and B" also meets links whose earlier-registered end has the larger address
        let literal = idx % 5 == 2;
        let n = rng.usize(2, 4);
        let tick_ms = *rng.pick(&[1u64, 1, 2, 5, 7, 10, 20]);
        let tick = tick_ms * 1000;
        let fixed = rng.chance(3, 5);
        let min_latency_us = match rng.below(4) {
            0 => 0,
            1 => rng.range(0, 6) * tick,
            _ => rng.range(0, 5) * tick + rng.below(tick),
        };
        let max_latency_us = if fixed { min_latency_us } else { min_latency_us + rng.range(1, 5) * tick + rng.below(tick) };
        let (fail, repair) = if rng.bool() { (*rng.pick(&[10u32, 50, 200, 500, 1000]), *rng.pick(&[100u32, 300, 700, 1000])) } else { (0, 1000) };
        let run_ticks = rng.range(10, 26);
        let a = rng.usize(0, n - 1);
        let mut b = rng.usize(0, n - 2);
        if b >= a {
            b += 1;
        }
        // ---- traffic: every ordered pair, every 1-5 ticks, for the whole run
        let mut udp = Vec::new();
        for x in 0..n {
            for y in 0..n {
                if x == y {
                    continue;
                }
                let period = rng.range(1, 5);
                let mut t = 1 + rng.below(period);
                let off = rng.below(tick_ms);
                let by_ip = rng.chance(1, 3);
                while t <= run_ticks {
                    udp.push(UdpBurst { from: x, to: y, at_ms: t * tick_ms + off, count: if rng.chance(1, 6) { 2 } else { 1 }, by_ip });
                    t += period;
                }
            }
        }
        let mut conns = Vec::new();
        if rng.bool() {
            let mut dirs = vec![(a, b), (b, a)];
            if n > 2 && rng.bool() {
                let c = (0..n).find(|h| *h != a && *h != b).unwrap();
                dirs.push(if rng.bool() { (a, c) } else { (c, b) });
            }
            for (x, y) in dirs {
                // long-lived stream with frames in both directions
                let period = rng.range(2, 5);
                let mut c2s = Vec::new();
                let mut s2c = Vec::new();
                let mut t = 2 + rng.below(period);
                while t <= run_ticks && c2s.len() < 10 {
                    c2s.push((t * tick_ms + rng.below(tick_ms), 1));
                    if rng.bool() {
                        s2c.push((t * tick_ms + rng.below(tick_ms), 1));
                    }
                    t += period;
                }
                let drop_c = if rng.chance(1, 3) { Some(rng.range(3, run_ticks) * tick_ms + rng.below(tick_ms)) } else { None };
                if let Some(dt) = drop_c {
                    c2s.retain(|(at, _)| *at < dt);
                    // the acceptor keeps writing after the drop
                    let mut t = dt / tick_ms + 1;
                    while t <= run_ticks + 2 && s2c.len() < 16 {
                        s2c.push((t * tick_ms + rng.below(tick_ms), 1));
                        t += rng.range(1, 3);
                    }
                    s2c.sort();
                }
                conns.push(Conn { from: x, to: y, at_ms: tick_ms + rng.below(tick_ms), c2s, s2c, fin_c: None, fin_s: None, by_ip: rng.chance(1, 3), drop_c });
                // periodic connects
                let k = rng.range(2, 5);
                for j in 0..k {
                    let at = (2 + (run_ticks - 2) * j / k) * tick_ms + rng.below(tick_ms);
                    conns.push(Conn { from: x, to: y, at_ms: at, c2s: vec![], s2c: vec![], fin_c: if rng.bool() { Some(at) } else { None }, fin_s: None, by_ip: false, drop_c: None });
                }
            }
        }
        let cfg = SimCfg {
            rng_seed: rng.next_u64(),
            epoch_s: 1_000_000_000 + rng.below(1_000_000_000),
            epoch_sub_us: 0,
            tick_us: tick,
            duration_ms: 3_600_000,
            min_latency_us,
            max_latency_us,
            latency_curve_milli: if rng.chance(1, 4) { Some(*rng.pick(&[500u64, 1000, 5000, 20000])) } else { None },
            fail_rate_pm: 0,
            repair_rate_pm: repair,
            random_order: rng.chance(1, 3),
            tcp_capacity: 64,
            udp_capacity: 64,
            ephemeral: None,
            ipv6: rng.chance(1, 4),
        };
        let mut net = Net { cfg, hosts: n, udp, conns, hacts: Vec::new(), script: Vec::new(), steps: 0, sample_links: false, probes: vec![], literal_order: vec![] };
        // ---- where the actions go
        let gen_slot = |rng: &mut Rng, step: u32| -> Slot {
            let host = if rng.chance(2, 5) {
                let h = match rng.below(3) {
                    0 => a,
                    1 => b,
                    _ => rng.usize(0, n - 1),
                };
                Some((h, (step as u64 - 1) * tick_ms + rng.below(tick_ms)))
            } else {
                None
            };
            Slot { host, step, style_a: gen_style(rng, n, a, b, literal), style_b: gen_style(rng, n, b, a, literal), flip: rng.bool() }
        };
        let mut slots = Vec::new();
        if enumerate {
            let s1 = rng.range(3, 2 + run_ticks / 3) as u32;
            let s2 = s1 + rng.range(1, run_ticks / 3) as u32;
            let s3 = s2 + rng.range(1, run_ticks / 3) as u32;
            for s in [s1, s2, s3] {
                slots.push(gen_slot(rng, s));
            }
        } else {
            let len = rng.usize(4, 8);
            let mut steps_at: Vec<u32> = (0..len).map(|_| rng.range(2, run_ticks + 1) as u32).collect();
            steps_at.sort();
            for s in steps_at {
                // arbitrary pair and host sets
                let (x, y) = if rng.chance(2, 3) {
                    (a, b)
                } else {
                    let x = rng.usize(0, n - 1);
                    let mut y = rng.usize(0, n - 2);
                    if y >= x {
                        y += 1;
                    }
                    (x, y)
                };
                let slot = gen_slot(rng, s);
                let k = rng.usize(0, 5);
                let act = letter(k, &slot, x, y);
                place(&mut net, &slot, act);
            }
        }
        net.cfg.fail_rate_pm = fail;
        let mut crng = rng.fork();
        fit_capacities(&mut crng, &mut net);
        net.steps = (run_ticks + 1 + max_latency_us.div_ceil(tick) + 4) as u32;
        // calls that are no part of the alphabet and must not touch an explicit partition: the random failure
        // process is switched off (again) in the middle of the run, globally or for one link
        let mut frng = rng.fork();
        if frng.chance(1, 3) {
            for _ in 0..frng.usize(1, 2) {
                let act = if frng.bool() { Act::SetFailRateZero } else { Act::SetLinkFailRateZero(Sel::Name(a), Sel::Name(b)) };
                net.script.push((frng.range(2, net.steps as u64) as u32, act));
            }
        }
        if literal {
            let mut order: Vec<usize> = (0..n).collect();
            let mut orng = rng.fork();
            match orng.below(3) {
                0 => order.reverse(),
                _ => {
                    for i in (1..n).rev() {
                        order.swap(i, orng.usize(0, i));
                    }
                    if order.windows(2).all(|w| w[0] < w[1]) {
                        order.reverse();
                    }
                }
            }
            net.literal_order = order;
        }
        Scenario { net, guarded: false, pair: (a, b), slots }
    }

    /// Fault enumeration: every action sequence of length 1..3 over both directions of (A, B).
    fn variants(base: &Scenario, _tier: Tier) -> Vec<Scenario> {
        if base.slots.len() < 3 {
            return vec![base.clone()];
        }
        // the full alphabet under every fail/repair rate (the guard that kept one-way calls away from
        // random link failures went with the fix of C03-F1)
        let alphabet: Vec<usize> = (0..6).collect();
        let (a, b) = base.pair;
        let mut out = Vec::new();
        let mut seqs: Vec<Vec<usize>> = vec![vec![]];
        for _len in 1..=3 {
            let mut next = Vec::new();
            for s in &seqs {
                for k in &alphabet {
                    let mut t = s.clone();
                    t.push(*k);
                    next.push(t);
                }
            }
            for s in &next {
                let mut sc = base.clone();
                sc.slots.clear();
                for (i, k) in s.iter().enumerate() {
                    let act = letter(*k, &base.slots[i], a, b);
                    place(&mut sc.net, &base.slots[i], act);
                }
                out.push(sc);
            }
            seqs = next;
        }
        out
    }

    fn run(sc: &Scenario, keep: bool) -> Report {
        let net = &sc.net;
        let (tr, mut log) = links::execute(net, keep);
        let tick = net.cfg.tick_us;
        let (lmin, lmax) = (net.cfg.min_latency_us, net.cfg.max_latency_us);
        let fail0 = net.cfg.fail_rate_pm == 0;
        let mut rep = Report::default();
        let mut violation: Option<Violation> = None;
        if let Some(p) = &tr.panic {
            violation = Some(Violation::new("Panic", format!("panic while running the simulation: {p}")));
        } else if let Some(e) = &tr.step_err {
            violation = Some(Violation::new("StepError", e.clone()));
        }
        let ix = links::index(net, &tr);
        let calls = calls_of(net, &tr.evs);
        for c in &calls {
            if let EvKind::Act(a) = &tr.evs[c.ev].kind {
                rep.faults.inc(a.kind());
                log.tag(a.kind());
                log.tag(if tr.evs[c.ev].host.is_some() { "host" } else { "ctl" });
                if tr.evs[c.ev].host.is_some() {
                    rep.probes.inc("call_from_host_code");
                }
                if a.uses_sets() {
                    rep.probes.inc("call_with_regex");
                }
            }
        }
        // stream directions: does everything sent so far flow? (chain rule) and head-of-line bound
        let mut chain_ok: BTreeMap<(u16, u8), bool> = BTreeMap::new();
        let mut hol: BTreeMap<(u16, u8), u64> = BTreeMap::new();
        let mut syn_must: BTreeMap<u16, bool> = BTreeMap::new();
        let mut sent_during = 0u64;
        let mut in_flight = 0u64;
        let describe_call = |ci: usize| -> String {
            let e = &tr.evs[ci];
            format!("{:?} (event {}, {} at t={}us, step {})", e.kind, e.seq, e.host.map(|h| format!("host h{h}")).unwrap_or("Sim handle".into()), e.t, e.step)
        };
        for mi in &ix.msgs {
            let send = &tr.evs[mi.send];
            let (fate, after_repair, inflight) = fate_of(&tr.evs, &calls, mi.send, (mi.from, mi.to), lmin, lmax, tick);
            if inflight {
                in_flight += 1;
            }
            // stream bookkeeping
            let mut must = fate == Fate::Must;
            let mut bound = send.t + lmax;
            match mi.msg {
                Msg::Syn { conn } => {
                    syn_must.insert(conn, must);
                }
                Msg::Data { conn, dir, .. } | Msg::Fin { conn, dir } => {
                    let ok = chain_ok.entry((conn, dir)).or_insert(true);
                    let syn_ok = syn_must.get(&conn).copied().unwrap_or(false);
                    if !*ok || !syn_ok {
                        must = false;
                    }
                    if fate != Fate::Must {
                        *ok = false;
                    }
                    let h = hol.entry((conn, dir)).or_insert(0);
                    *h = (*h).max(send.t + lmax);
                    bound = *h;
                    // a connector that drops its stream (possibly with unread data: an abortive close) owes
                    // nothing for what was still on its way in either direction around that instant, nor later
                    if let Some(dt) = net.conns[conn as usize].drop_c {
                        if send.t + lmax + 3 * tick >= dt * 1000 {
                            must = false;
                        }
                    }
                }
                Msg::Udp { .. } => {}
            }
            let recv = mi.recvs.first().map(|r| &tr.evs[*r]);
            log.tag(match fate {
                Fate::NeverSentDuring(_) => "N",
                Fate::NeverInFlight(_) => "I",
                Fate::Must => "M",
                Fate::Free => "F",
            });
            log.tag(if recv.is_some() { "r" } else { "-" });
            match fate {
                Fate::NeverSentDuring(c) => {
                    sent_during += 1;
                    match mi.msg {
                        Msg::Syn { .. } => rep.probes.inc("syn_sent_into_partition"),
                        Msg::Data { .. } | Msg::Fin { .. } => rep.probes.inc("tcp_segment_sent_into_partition"),
                        Msg::Udp { .. } => {}
                    }
                    if let (Some(r), None) = (recv, &violation) {
                        violation = Some(Violation::new(
                            "DeliveredWhilePartitioned",
                            format!(
                                "{:?} h{}->h{} was sent at event {} (t={}us, step {}) while h{}->h{} was explicitly partitioned by {} and was nevertheless received at event {} (t={}us, step {}); fail_rate={}",
                                mi.msg, mi.from, mi.to, send.seq, send.t, send.step, mi.from, mi.to, describe_call(c), r.seq, r.t, r.step, net.cfg.fail_rate_pm as f64 / 1000.0
                            ),
                        ));
                    }
                }
                Fate::NeverInFlight(c) => {
                    rep.probes.inc("certainly_in_flight_at_partition_call");
                    // only a receipt after the call shows that the message survived it (an earlier one would be C14's business)
                    let recv = mi.recvs.iter().map(|r| &tr.evs[*r]).find(|r| r.seq > tr.evs[c].seq);
                    if let (Some(r), None) = (recv, &violation) {
                        violation = Some(Violation::new(
                            "InFlightSurvived",
                            format!(
                                "{:?} h{}->h{} sent at event {} (t={}us, step {}) with fixed latency {}us was still in flight when {} partitioned its direction, but was received at event {} (t={}us, step {})",
                                mi.msg, mi.from, mi.to, send.seq, send.t, send.step, lmin, describe_call(c), r.seq, r.t, r.step
                            ),
                        ));
                    }
                }
                Fate::Must if fail0 && must => {
                    let covered = (tr.steps_done as u64) * tick >= bound + 4 * tick;
                    match recv {
                        None if covered && violation.is_none() => {
                            let extra = match mi.msg {
                                Msg::Syn { conn } => ix.conn_err.get(&conn).map(|e| format!("; connect result {:?}", tr.evs[*e].kind)).unwrap_or_default(),
                                _ => String::new(),
                            };
                            violation = Some(Violation::new(
                                "UnaffectedLost",
                                format!(
                                    "{:?} h{}->h{} sent at event {} (t={}us, step {}) on an explicitly healthy direction{} and not in flight at any later partition call was never received (fail_rate 0, latency [{},{}]us, {} steps run){}",
                                    mi.msg, mi.from, mi.to, send.seq, send.t, send.step, if after_repair { " (after an explicit repair)" } else { "" }, lmin, lmax, tr.steps_done, extra
                                ),
                            ));
                        }
                        Some(r) => {
                            if r.t > bound + 2 * tick && violation.is_none() {
                                violation = Some(Violation::new(
                                    "UnaffectedLate",
                                    format!(
                                        "{:?} h{}->h{} sent at t={}us (event {}) on an unaffected direction was received at t={}us (event {}), later than max_latency {}us + 2 ticks of {}us",
                                        mi.msg, mi.from, mi.to, send.t, send.seq, r.t, r.seq, lmax, tick
                                    ),
                                ));
                            }
                            if after_repair {
                                rep.probes.inc("flowed_again_after_repair");
                            }
                        }
                        None => {}
                    }
                }
                Fate::Must => {
                    if recv.is_none() && !fail0 && matches!(mi.msg, Msg::Udp { .. }) {
                        rep.probes.inc("dropped_by_random_link_failure");
                    }
                }
                Fate::Free => {
                    rep.probes.inc("unjudged_ambiguous_instant");
                }
            }
        }
        // a stream whose connector dropped it while connector->acceptor was explicitly partitioned: nothing of
        // the drop (FIN, RST, the RST answering later segments) may reach the acceptor, so the acceptor's end
        // must not fail while that direction stays partitioned
        if violation.is_none() {
            for (di, d) in tr.evs.iter().enumerate() {
                let EvKind::Dropped { conn } = &d.kind else { continue };
                let spec = &net.conns[*conn as usize];
                let dir = (spec.from, spec.to);
                let (f, _, _) = fate_of(&tr.evs, &calls, di, dir, lmin, lmax, tick);
                let Fate::NeverSentDuring(c) = f else { continue };
                rep.probes.inc("stream_dropped_behind_an_explicit_partition");
                let prefix_w = format!("conn {conn} dir 1 write:");
                let prefix_r = format!("conn {conn} dir 0 read:");
                for e in tr.evs[di..].iter() {
                    // the first call after the drop that touches the direction ends the judged interval
                    if calls.iter().any(|k| tr.evs[k.ev].seq == e.seq && k.dirs.contains(&dir)) {
                        break;
                    }
                    if let EvKind::IoErr(msg) = &e.kind {
                        if e.host == Some(spec.to) && (msg.starts_with(&prefix_w) || msg.starts_with(&prefix_r)) && !calls.iter().any(|k| k.dirs.contains(&dir) && links::order_ambiguous(&tr.evs[k.ev], e)) {
                            violation = Some(Violation::new(
                                "DeliveredWhilePartitioned",
                                format!(
                                    "connection {conn}: h{} dropped its stream at event {} (t={}us) while h{}->h{} was explicitly partitioned by {}; nothing h{} sent since can have been delivered, yet h{}'s end failed at event {} (t={}us): {msg}",
                                    spec.from, d.seq, d.t, spec.from, spec.to, describe_call(c), spec.from, spec.to, e.seq, e.t
                                ),
                            ));
                            break;
                        }
                    }
                }
                if violation.is_some() {
                    break;
                }
            }
        }
        // connects whose SYN crossed a healthy direction while the reverse one was partitioned: recorded only
        rep.faults.add("message_sent_into_partition", sent_during);
        rep.faults.add("message_in_flight_at_partition_call", in_flight);
        if !fail0 {
            rep.probes.inc("random_failures_on");
        }
        if lmin == lmax {
            rep.probes.inc("fixed_latency_run");
        }
        if !net.literal_order.is_empty() {
            rep.probes.inc("hosts_registered_by_ip_literal");
            if net.literal_order.windows(2).any(|w| w[0] > w[1]) && calls.iter().any(|c| matches!(&tr.evs[c.ev].kind, EvKind::Act(a) if is_oneway(a))) {
                rep.probes.inc("oneway_call_with_earlier_registered_host_at_larger_address");
            }
        }
        if !net.conns.is_empty() {
            rep.probes.inc("tcp_traffic");
        }
        if !fail0 && calls.iter().any(|c| matches!(&tr.evs[c.ev].kind, EvKind::Act(a) if is_oneway(a))) {
            rep.probes.inc("oneway_call_with_random_failures_on");
            rep.probes.add("message_sent_into_partition_with_oneway_and_random_failures", sent_during);
        }
        rep.abstract_digest = log.abs_digest();
        rep.full_digest = log.full_digest();
        rep.log = std::mem::take(&mut log.lines);
        rep.violation = violation;
        rep.harness_error = tr.harness_error.clone();
        rep.nontrivial = sent_during >= 1 && in_flight >= 1;
        rep.steps = tr.steps_done as u64;
        rep.sim_ms = tr.steps_done as u64 * tick / 1000;
        rep
    }

    fn shrink(sc: &Scenario) -> Vec<Scenario> {
        let mut out: Vec<Scenario> = links::shrink_net(&sc.net).into_iter().map(|net| Scenario { net, guarded: sc.guarded, pair: sc.pair, slots: Vec::new() }).collect();
        if !sc.slots.is_empty() {
            out.insert(0, Scenario { slots: Vec::new(), ..sc.clone() });
        }
        if sc.net.cfg.repair_rate_pm != 1000 && sc.net.cfg.fail_rate_pm > 0 {
            let mut c = sc.clone();
            c.slots.clear();
            c.net.cfg.repair_rate_pm = 1000;
            out.push(c);
        }
        out
    }

    fn signature(sc: &Scenario) -> String {
        let n = &sc.net;
        let mut acts: Vec<String> = n.script.iter().map(|(s, a)| format!("{s}:{}", a.kind())).collect();
        acts.extend(n.hacts.iter().map(|h| format!("h{}@{}:{}", h.host, h.at_ms, h.act.kind())));
        format!(
            "{}fail={} lat={} tcp={} acts={:?}",
            if n.cfg.fail_rate_pm > 0 && has_oneway(n) { "KNOWN[oneway+random] " } else { "" },
            n.cfg.fail_rate_pm,
            if n.cfg.min_latency_us == n.cfg.max_latency_us { "fixed" } else { "range" },
            !n.conns.is_empty(),
            acts
        )
    }

    fn known_match(matcher: &str, sc: &Scenario, v: &Violation) -> bool {
        match matcher {
            // rand_partition_or_repair treats (ExplicitPartition, Healthy) like a healthy link: with
            // fail_rate > 0 both directions become RandPartition and the random repair makes both Healthy
            KF_ONEWAY_RANDOM => sc.net.cfg.fail_rate_pm > 0 && has_oneway(&sc.net) && v.class == "DeliveredWhilePartitioned",
            _ => false,
        }
    }
}

#[cfg(test)]
mod tests {
    use super::*;

    fn ev(seq: u64, step: u32, t: u64, host: Option<usize>, kind: EvKind) -> Ev {
        Ev { seq, step, t, host, kind }
    }

    #[test]
    fn fates_on_a_hand_written_history() {
        let net = Net { cfg: SimCfg { min_latency_us: 3000, max_latency_us: 3000, ..SimCfg::default() }, hosts: 2, udp: vec![], conns: vec![], hacts: vec![], script: vec![], steps: 1, sample_links: false, probes: vec![], literal_order: vec![] };
        let m = |s| EvKind::Send(Msg::Udp { from: 0, to: 1, seq: s });
        let evs = vec![
            ev(1, 2, 1000, Some(0), m(0)),                                                   // arrives at 4000/5000 <= 5000: flows
            ev(2, 4, 3000, Some(0), m(1)),                                                   // in flight at 5000 under both readings: dropped
            ev(3, 5, 5000, None, EvKind::Act(Act::PartitionOneway(Sel::Name(0), Sel::Name(1)))),
            ev(4, 6, 5000, Some(0), m(2)),                                                   // sent during
            ev(5, 6, 5000, Some(1), EvKind::Send(Msg::Udp { from: 1, to: 0, seq: 0 })),      // reverse direction: flows
            ev(6, 8, 8000, None, EvKind::Act(Act::Repair(Sel::Name(1), Sel::Name(0)))),
            ev(7, 9, 8000, Some(0), m(3)),                                                   // after repair: flows
        ];
        let calls = calls_of(&net, &evs);
        let f = |i: usize, d: (usize, usize)| fate_of(&evs, &calls, i, d, 3000, 3000, 1000).0;
        assert_eq!(f(0, (0, 1)), Fate::Must);
        assert_eq!(f(1, (0, 1)), Fate::NeverInFlight(2));
        assert_eq!(f(3, (0, 1)), Fate::NeverSentDuring(2));
        assert_eq!(f(4, (1, 0)), Fate::Must);
        assert_eq!(f(6, (0, 1)), Fate::Must);
        assert!(fate_of(&evs, &calls, 6, (0, 1), 3000, 3000, 1000).1);
    }

    #[test]
    fn one_tick_zone_is_unjudged() {
        let net = Net { cfg: SimCfg::default(), hosts: 2, udp: vec![], conns: vec![], hacts: vec![], script: vec![], steps: 1, sample_links: false, probes: vec![], literal_order: vec![] };
        // sent at t=2200 inside step 3 (link clock 3000), latency 2000: sender-clock reading says arrived at 4200,
        // link-clock reading says 5000; a partition at 4500 (controller calls sit on boundaries, so use a host call)
        let evs = vec![
            ev(1, 3, 2200, Some(0), EvKind::Send(Msg::Udp { from: 0, to: 1, seq: 0 })),
            ev(2, 5, 4500, Some(1), EvKind::Act(Act::Partition(Sel::Name(0), Sel::Name(1)))),
        ];
        let calls = calls_of(&net, &evs);
        assert_eq!(fate_of(&evs, &calls, 0, (0, 1), 2000, 2000, 1000).0, Fate::Free);
    }

    /// Sanity gate (DESIGN 9.5): turmoil's own `partition_peers` / `partition_peers_oneway` scenarios pass the oracle.
    #[test]
    fn repo_scenarios_pass_the_oracle() {
        let cfg = SimCfg { min_latency_us: 2000, max_latency_us: 2000, tick_us: 1000, ..SimCfg::default() };
        let conn = |at| Conn { from: 1, to: 0, at_ms: at, c2s: vec![], s2c: vec![], fin_c: None, fin_s: None, by_ip: false, drop_c: None };
        let udp = vec![UdpBurst { from: 0, to: 1, at_ms: 3, count: 1, by_ip: false }, UdpBurst { from: 1, to: 0, at_ms: 3, count: 1, by_ip: false }, UdpBurst { from: 0, to: 1, at_ms: 12, count: 1, by_ip: false }];
        let net = Net { cfg: cfg.clone(), hosts: 2, udp: udp.clone(), conns: vec![conn(2), conn(12)], hacts: vec![], script: vec![(1, Act::Partition(Sel::Name(0), Sel::Name(1))), (10, Act::Repair(Sel::Name(0), Sel::Name(1)))], steps: 30, sample_links: false, probes: vec![], literal_order: vec![] };
        let rep = C03::run(&Scenario { net, guarded: true, pair: (0, 1), slots: vec![] }, true);
        assert!(rep.violation.is_none(), "{:?}\n{}", rep.violation, rep.log.join("\n"));
        assert!(rep.log.iter().any(|l| l.contains("ConnErr { conn: 0")));
        assert!(rep.log.iter().any(|l| l.contains("ConnOk { conn: 1")));
        assert_eq!(rep.log.iter().filter(|l| l.contains("Recv(Udp")).count(), 1);
        let net = Net { cfg, hosts: 2, udp, conns: vec![], hacts: vec![], script: vec![(1, Act::PartitionOneway(Sel::Name(0), Sel::Name(1)))], steps: 30, sample_links: false, probes: vec![], literal_order: vec![] };
        let rep = C03::run(&Scenario { net, guarded: true, pair: (0, 1), slots: vec![] }, true);
        assert!(rep.violation.is_none(), "{:?}", rep.violation);
        assert_eq!(rep.log.iter().filter(|l| l.contains("Recv(Udp { from: 1")).count(), 1);
        assert_eq!(rep.log.iter().filter(|l| l.contains("Recv(Udp { from: 0")).count(), 0);
    }

    #[test]
    fn known_matcher_is_narrow() {
        let js = std::fs::read_to_string("/verif/proposed/C03-oneway-partition-random-failures.replay.json").unwrap();
        let v: serde_json::Value = serde_json::from_str(&js).unwrap();
        let sc: Scenario = serde_json::from_value(v["scenario"].clone()).unwrap();
        let viol = Violation::new("DeliveredWhilePartitioned", "");
        assert!(C03::known_match(KF_ONEWAY_RANDOM, &sc, &viol));
        assert!(!C03::known_match(KF_ONEWAY_RANDOM, &sc, &Violation::new("InFlightSurvived", "")));
        let mut no_fail = sc.clone();
        no_fail.net.cfg.fail_rate_pm = 0;
        assert!(!C03::known_match(KF_ONEWAY_RANDOM, &no_fail, &viol));
        let mut two_way = sc.clone();
        two_way.net.script = vec![(4, Act::Partition(Sel::Name(0), Sel::Name(1)))];
        assert!(!C03::known_match(KF_ONEWAY_RANDOM, &two_way, &viol));
    }
}
