//! C02 — `turmoil::net` TCP delivers an intact, ordered byte stream and then EOF.
//!
//! A scenario is data: builder configuration, 1-3 connections (remote peer / same host through its
//! own address / 127.0.0.1), per end a write program and a read program that run concurrently, a
//! way of closing, and either turmoil's own seeded latencies plus a controller script of
//! hold/release/partition/repair, or "owned delivery": every link is held for the whole run and the
//! controller delivers one in-flight message per step in the order the scenario dictates.

use crate::core::prng::Rng;
use crate::core::{catch, Counters, Property, Report, Tier, Violation};
use crate::simkit::tcpprog::{all_codes, apply_code, deliver_one, gone, host_ip, host_name, inflight, kind_name, loopback, wildcard, Flight, LinkAct, MsgKind, Sleepers};
use crate::simkit::{stream_bytes, CfgProfile, SharedLog, SimCfg};
use serde::{Deserialize, Serialize};
use std::cell::{Cell, RefCell};
use std::future::{poll_fn, Future};
use std::io;
use std::net::SocketAddr;
use std::pin::{pin, Pin};
use std::rc::Rc;
use std::task::Poll;
use std::time::Duration;
use tokio::io::{AsyncReadExt, AsyncWriteExt, ReadBuf};
use turmoil::net::tcp::{OwnedReadHalf, OwnedWriteHalf};
use turmoil::net::{TcpListener, TcpStream};

const PORT0: u16 = 1000;
pub const KF_O2: &str = "fin-arrives-queue-full";

#[derive(Clone, Copy, Debug, Serialize, Deserialize, PartialEq, Eq)]
pub enum Via {
    /// another host, addressed by IP literal
    Remote,
    /// another host, addressed by name
    RemoteByName,
    /// the same host through its own address
    OwnAddr,
    /// the same host through 127.0.0.1 / ::1
    Loopback,
}

#[derive(Clone, Copy, Debug, Serialize, Deserialize, PartialEq, Eq)]
pub enum Form {
    Plain,
    /// into_split: owned halves
    Split,
    /// into_split then reunite before any I/O
    Reunited,
    /// owned halves for the I/O, reunited right before the final drop
    SplitReuniteAtClose,
}

#[derive(Clone, Copy, Debug, Serialize, Deserialize, PartialEq, Eq)]
pub enum WHow {
    /// AsyncWriteExt::write
    Write,
    /// TcpStream::try_write once (WouldBlock = not accepted)
    Try,
    /// writable().await then try_write
    WritableTry,
    /// AsyncWriteExt::write whose first poll happens in a helper task that is cancelled if the write
    /// is blocked; the writer task then takes over (another task, another waker)
    Handover,
}

#[derive(Clone, Debug, Serialize, Deserialize, PartialEq)]
pub enum WOp {
    Write { len: u16, how: WHow },
    /// AsyncWriteExt::write with a buffer beyond 64 KiB
    BigWrite { len: u32 },
    Sleep { ticks: u16 },
    Yield,
}

#[derive(Clone, Debug, Serialize, Deserialize, PartialEq)]
pub enum ROp {
    Read { buf: u16 },
    Peek { buf: u16 },
    /// one poll of poll_peek (may be Pending)
    PollPeek { buf: u16 },
    Sleep { ticks: u16 },
    Yield,
}

#[derive(Clone, Copy, Debug, Serialize, Deserialize, PartialEq, Eq)]
pub enum Fin {
    Shutdown,
    /// drop the owned write half (Split forms; otherwise shutdown)
    DropWrite,
    /// the FIN is only sent by the final drop of the stream
    None,
    /// shutdown() on the owned write half, then drop it at once while the read half keeps reading
    /// (Split forms; otherwise plain shutdown)
    ShutdownDropWrite,
}

/// How the final read-until-the-end loop of an end works (`EndSpec::drain` gives its buffer size).
#[derive(Clone, Copy, Debug, Default, Serialize, Deserialize, PartialEq, Eq)]
pub enum DrainMode {
    /// read until EOF / error
    #[default]
    Plain,
    /// peek (same buffer size) before every read, so that the end of the stream is first seen by
    /// `peek`; the read after it must report EOF as well
    PeekFirst,
    /// a request of known length: read exactly the bytes the peer's writes accepted, stop once the
    /// peer has closed its write side and everything was consumed — the FIN is never read
    Exact,
}

#[derive(Clone, Debug, Serialize, Deserialize, PartialEq)]
pub struct EndSpec {
    pub form: Form,
    pub wops: Vec<WOp>,
    pub fin: Fin,
    /// ticks slept between the last write and the FIN
    pub fin_delay: u16,
    pub rops: Vec<ROp>,
    /// after `rops`: read with this buffer size until EOF / error; None = the reader stops reading
    pub drain: Option<u16>,
    #[serde(default)]
    pub drain_mode: DrainMode,
    /// ticks between the end of both programs and the final drop
    pub linger: u16,
    /// never drop the stream object
    pub keep: bool,
}

/// A throw-away connection made *before* the judged one, by the same client to the same listener:
/// the server accepts it, writes `segs` small segments of 0xEE bytes and drops it; the client drops its
/// end at once (optionally after one read) and connects again `gap` ticks later — while the segments,
/// the FIN and possibly a RST of the throw-away connection are still in flight. Nothing of it may
/// ever show up on the judged connection.
#[derive(Clone, Debug, Serialize, Deserialize, PartialEq)]
pub struct Prelude {
    pub segs: u8,
    pub client_reads: bool,
    pub gap: u16,
}

#[derive(Clone, Debug, Serialize, Deserialize, PartialEq)]
pub struct ConnSpec {
    #[serde(default)]
    pub prelude: Option<Prelude>,
    pub client: usize,
    pub server: usize,
    pub via: Via,
    /// listener bound to localhost instead of the wildcard (only with Via::Loopback)
    pub bind_localhost: bool,
    pub connect_delay: u16,
    pub c: EndSpec,
    pub s: EndSpec,
}

#[derive(Clone, Debug, Serialize, Deserialize, PartialEq)]
pub enum Mode {
    /// turmoil's seeded latencies decide the delivery order
    Latency,
    /// all links held; round r delivers the messages in flight at its start, one per step, in the
    /// order given by perms[r] (Lehmer-style code, identity when absent)
    Owned { perms: Vec<Vec<u8>> },
}

#[derive(Clone, Debug, Serialize, Deserialize, PartialEq)]
pub struct Scenario {
    pub cfg: SimCfg,
    /// historical (guards for O2 and the late-FIN reset, removed once both were fixed in /repo); always false
    pub guarded: bool,
    pub hosts: usize,
    pub conns: Vec<ConnSpec>,
    pub mode: Mode,
    /// (before step s, action) — only in Mode::Latency
    pub script: Vec<(u32, LinkAct)>,
    /// let `variants` enumerate all delivery permutations of small rounds
    pub enumerate: bool,
    /// every connection to the server host of connection 0 (without a throw-away prelude) goes to ONE listener
    /// there: several streams of one host share their local port (only in Mode::Latency)
    #[serde(default)]
    pub shared_listener: bool,
}

impl Scenario {
    fn group(&self) -> Vec<usize> {
        if !self.shared_listener || !matches!(self.mode, Mode::Latency) || self.conns.is_empty() || self.conns[0].prelude.is_some() {
            return vec![];
        }
        let g: Vec<usize> = (0..self.conns.len()).filter(|c| self.conns[*c].server == self.conns[0].server && self.conns[*c].prelude.is_none()).collect();
        if g.len() >= 2 {
            g
        } else {
            vec![]
        }
    }
}

pub struct C02;

impl EndSpec {
    fn segs(&self) -> usize {
        self.wops.iter().filter(|o| matches!(o, WOp::Write { len, .. } if *len > 0) || matches!(o, WOp::BigWrite { .. })).count()
    }
    fn reader_sleep(&self) -> u64 {
        self.rops.iter().map(|o| if let ROp::Sleep { ticks } = o { *ticks as u64 } else { 0 }).sum()
    }
    fn sleeps(&self) -> u64 {
        self.reader_sleep() + self.wops.iter().map(|o| if let WOp::Sleep { ticks } = o { *ticks as u64 } else { 0 }).sum::<u64>() + self.fin_delay as u64 + self.linger as u64
    }
    fn sends_fin(&self) -> bool {
        self.fin != Fin::None || !self.keep
    }
}

impl ConnSpec {
    fn end(&self, side: usize) -> &EndSpec {
        if side == 0 {
            &self.c
        } else {
            &self.s
        }
    }
    fn end_mut(&mut self, side: usize) -> &mut EndSpec {
        if side == 0 {
            &mut self.c
        } else {
            &mut self.s
        }
    }
}

/// Directions (conn, dir) in which the trigger of O2 is reachable: the writer may have
/// `tcp_capacity` unread data segments queued at the reader when its FIN arrives.
/// dir 0 = client->server, dir 1 = server->client; the writer of dir d is side d.
pub fn o2_exposed(sc: &Scenario) -> Vec<(usize, usize)> {
    let mut out = Vec::new();
    if sc.script.iter().any(|(_, a)| a.is_partition()) {
        return out; // liveness is not judged at all
    }
    let lat = sc.cfg.max_latency_ticks();
    let hold = sc.script.iter().any(|(_, a)| matches!(a, LinkAct::Hold(..)));
    for (ci, c) in sc.conns.iter().enumerate() {
        for dir in 0..2 {
            let (w, r) = (c.end(dir), c.end(1 - dir));
            if !w.sends_fin() || r.drain.is_none() {
                continue;
            }
            if w.segs() < sc.cfg.tcp_capacity {
                continue;
            }
            let timed = matches!(sc.mode, Mode::Latency) && !hold && w.fin != Fin::None && w.fin_delay as u64 >= r.reader_sleep() + lat + 3;
            if !timed {
                out.push((ci, dir));
            }
        }
    }
    out
}

pub const KF_LATE_FIN: &str = "late-fin-answered-with-rst";

/// Ends (conn, side) that may drop their stream while the only unread thing of the inbound
/// direction is the peer's FIN *and that FIN may still be on its way*: the host then has no entry for
/// the late FIN any more and answers it with a RST, which resets the peer's stream (known finding).
pub fn late_fin_exposed(sc: &Scenario) -> Vec<(usize, usize)> {
    let mut out = Vec::new();
    // (a partition in the script does not help: the run may be over before it is imposed)
    let lat = sc.cfg.max_latency_ticks();
    let hold = sc.script.iter().any(|(_, a)| matches!(a, LinkAct::Hold(..) | LinkAct::Partition(..) | LinkAct::PartitionOneway(..)));
    for (ci, c) in sc.conns.iter().enumerate() {
        for side in 0..2 {
            let (e, p) = (c.end(side), c.end(1 - side));
            // the peer must close its write side on its own (a FIN sent only by the peer's final drop
            // comes after the peer saw this end's EOF, i.e. after this end is gone: harmless)
            if e.keep || p.fin == Fin::None {
                continue;
            }
            let may_skip_eof = match e.drain {
                None => {
                    // a reader that stops: exposed when it can have consumed everything the peer writes
                    let can_read: u64 = e.rops.iter().map(|o| if let ROp::Read { buf } = o { *buf as u64 } else { 0 }).sum();
                    let must_write: u64 = p.wops.iter().map(|o| match o { WOp::Write { len, how } => if *how == WHow::Try { 0 } else { *len as u64 }, WOp::BigWrite { len } => *len as u64, _ => 0 }).sum();
                    can_read >= must_write
                }
                Some(_) => e.drain_mode == DrainMode::Exact,
            };
            if !may_skip_eof {
                continue;
            }
            // an Exact reader stops only after the peer's FIN was sent; a linger of lat+2 ticks lets it arrive
            let settled = matches!(sc.mode, Mode::Latency) && !hold && e.drain.is_some() && e.drain_mode == DrainMode::Exact && e.linger as u64 >= lat + 2;
            if !settled {
                out.push((ci, side));
            }
        }
    }
    out
}

const LENS: [u16; 13] = [0, 1, 1, 2, 3, 7, 16, 64, 100, 255, 256, 512, 1024];
const BUFS: [u16; 12] = [0, 1, 2, 3, 5, 8, 16, 64, 100, 256, 1024, 4096];

fn gen_end(rng: &mut Rng, small: bool, lat: u64) -> EndSpec {
    let form = *rng.pick(&[Form::Plain, Form::Plain, Form::Split, Form::Split, Form::Reunited, Form::SplitReuniteAtClose]);
    let plain = matches!(form, Form::Plain | Form::Reunited);
    let budget: u64 = if small { *rng.pick(&[0u64, 1, 8, 64, 300]) } else { *rng.pick(&[0u64, 1, 20, 64, 300, 1000, 4096, 4096]) };
    let max_ops = if small { rng.usize(0, 4) } else { rng.usize(0, 12) };
    let mut wops = Vec::new();
    let mut left = budget;
    let mut writes = 0;
    while writes < max_ops {
        if rng.chance(1, 8) {
            wops.push(if rng.chance(2, 3) { WOp::Sleep { ticks: rng.range(1, 5) as u16 } } else { WOp::Yield });
            continue;
        }
        let len = (*rng.pick(&LENS) as u64).min(left) as u16;
        left -= len as u64;
        let how = if plain { *rng.pick(&[WHow::Write, WHow::Write, WHow::Try, WHow::WritableTry, WHow::Handover]) } else { *rng.pick(&[WHow::Write, WHow::Write, WHow::Write, WHow::Handover]) };
        wops.push(WOp::Write { len, how });
        writes += 1;
    }
    let fin = *rng.pick(&[Fin::Shutdown, Fin::Shutdown, Fin::DropWrite, Fin::None, Fin::ShutdownDropWrite]);
    let fin_delay = if rng.chance(3, 4) { 0 } else { rng.range(1, lat + 5) as u16 };
    let nr = if small { rng.usize(0, 4) } else { rng.usize(0, 8) };
    let rops = (0..nr)
        .map(|_| match rng.below(20) {
            0..=9 => ROp::Read { buf: *rng.pick(&BUFS) },
            10..=13 => ROp::Peek { buf: *rng.pick(&BUFS) },
            14 | 15 => ROp::PollPeek { buf: *rng.pick(&BUFS) },
            16..=18 => ROp::Sleep { ticks: rng.range(1, 6) as u16 },
            _ => ROp::Yield,
        })
        .collect();
    // one write call larger than 64 KiB, now and then (the length is a u32 only there)
    if !small && rng.chance(1, 60) {
        wops.push(WOp::BigWrite { len: rng.range(65_537, 90_000) as u32 });
    }
    let drain = if rng.chance(6, 7) { Some((*rng.pick(&BUFS)).max(1)) } else { None };
    let drain_mode = *rng.pick(&[DrainMode::Plain, DrainMode::Plain, DrainMode::Plain, DrainMode::Plain, DrainMode::PeekFirst, DrainMode::PeekFirst, DrainMode::Exact, DrainMode::Exact]);
    EndSpec { form, wops, fin, fin_delay, rops, drain, drain_mode, linger: if rng.chance(3, 4) { 0 } else { rng.range(1, 5) as u16 }, keep: rng.chance(1, 7) }
}

fn gen_scenario(rng: &mut Rng) -> Scenario {
    // (O2 and the late-FIN reset are fixed in /repo: nothing is steered away from either trigger)
    let guarded = false;
    let mut cfg = SimCfg::gen(rng, &CfgProfile { latency_range: true, random_failures: false, small_capacities: true, max_tick_ms: 20, max_latency_ticks: 12 });
    cfg.fail_rate_pm = 0;
    let lat = cfg.max_latency_ticks();
    let hosts = rng.usize(2, 3);
    let owned = rng.chance(7, 20);
    let nconn = if owned { *rng.pick(&[1usize, 1, 1, 2]) } else { rng.usize(1, 3) };
    let mut conns = Vec::new();
    for _ in 0..nconn {
        let client = rng.usize(0, hosts - 1);
        let via = *rng.pick(&[Via::Remote, Via::Remote, Via::RemoteByName, Via::OwnAddr, Via::Loopback]);
        let server = match via {
            Via::Remote | Via::RemoteByName => (client + rng.usize(1, hosts - 1)) % hosts,
            _ => client,
        };
        let mut c = gen_end(rng, owned, lat);
        let mut s = gen_end(rng, owned, lat);
        if owned && rng.chance(1, 2) {
            // one-directional traffic keeps the delivery rounds small enough to enumerate
            if rng.chance(1, 2) {
                s.wops.clear();
            } else {
                c.wops.clear();
            }
        }
        if c.fin == Fin::None && s.fin == Fin::None {
            if rng.chance(1, 2) {
                c.fin = Fin::Shutdown;
            } else {
                s.fin = Fin::Shutdown;
            }
        }
        let prelude = if !owned && rng.chance(1, 5) { Some(Prelude { segs: rng.range(0, cfg.tcp_capacity.min(3) as u64) as u8, client_reads: rng.chance(1, 3), gap: rng.range(0, lat + 1) as u16 }) } else { None };
        conns.push(ConnSpec { prelude, client, server, via, bind_localhost: via == Via::Loopback && rng.chance(1, 2), connect_delay: rng.range(1, 3) as u16, c, s });
    }
    let conn_delay_max = 3u64;
    let mut script = Vec::new();
    let mode = if owned {
        let rounds = rng.usize(0, 8);
        Mode::Owned { perms: (0..rounds).map(|_| (0..rng.usize(0, 6)).map(|_| rng.below(6) as u8).collect()).collect() }
    } else {
        let remote: Vec<(usize, usize)> = conns.iter().filter(|c| c.client != c.server).map(|c| (c.client, c.server)).collect();
        if !remote.is_empty() && rng.chance(1, 2) {
            for _ in 0..rng.usize(1, 2) {
                let (a, b) = *rng.pick(&remote);
                let s1 = rng.range(2, 12 + 3 * lat) as u32;
                let s2 = s1 + rng.range(1, 10 + 2 * lat) as u32;
                if rng.chance(1, 4) {
                    script.push((s1, if rng.chance(1, 2) { LinkAct::Partition(a, b) } else { LinkAct::PartitionOneway(a, b) }));
                    script.push((s2, LinkAct::Repair(a, b)));
                } else if rng.chance(1, 5) {
                    // a repair in the middle of a hold does not let go of what the hold keeps back; the release does
                    script.push((s1, LinkAct::Hold(a, b)));
                    script.push((s2, LinkAct::Repair(a, b)));
                    script.push((s2 + rng.range(1, 6 + lat) as u32, LinkAct::Release(a, b)));
                } else {
                    script.push((s1, LinkAct::Hold(a, b)));
                    script.push((s2, LinkAct::Release(a, b)));
                }
            }
            script.sort_by_key(|(s, _)| *s);
        }
        Mode::Latency
    };
    // "a drop while no inbound data is unread" with the peer's write side still open: one end writes, never reads
    // and drops its stream before the peer has written anything; the peer writes (towards a stream that is gone, the
    // answer is a RST) and only afterwards starts to read what the first end sent before it left
    if !owned && rng.chance(1, 10) {
        script.clear();
        let cap = cfg.tcp_capacity;
        let conn = &mut conns[0];
        let a_side = rng.usize(0, 1);
        let (a, b) = if a_side == 0 { (&mut conn.c, &mut conn.s) } else { (&mut conn.s, &mut conn.c) };
        a.rops.clear();
        a.drain = None;
        a.keep = false;
        a.wops.retain(|o| matches!(o, WOp::Write { len, .. } if *len > 0));
        a.wops.truncate(cap.min(4));
        for o in a.wops.iter_mut() {
            if let WOp::Write { how, .. } = o {
                *how = WHow::Write;
            }
        }
        if a.wops.is_empty() {
            a.wops.push(WOp::Write { len: 7, how: WHow::Write });
        }
        let a_sleeps = a.fin_delay as u64 + a.linger as u64 + conn_delay_max;
        let wait = a_sleeps + lat + 4 + rng.range(0, 3);
        b.wops.retain(|o| matches!(o, WOp::Write { len, .. } if *len > 0));
        b.wops.truncate(3);
        b.wops.insert(0, WOp::Sleep { ticks: wait as u16 });
        b.wops.insert(1, WOp::Write { len: *rng.pick(&[1u16, 5, 64]), how: WHow::Write });
        b.rops = vec![ROp::Sleep { ticks: (wait + 2 * lat + 4 + rng.range(0, 3)) as u16 }];
        if rng.bool() {
            b.rops.push(ROp::Peek { buf: *rng.pick(&[1u16, 8, 64]) });
        }
        b.drain = Some(*rng.pick(&[1u16, 3, 16, 256]));
        b.keep = rng.chance(1, 4);
    }
    let shared_listener = !owned && rng.chance(1, 4);
    if shared_listener {
        // the requests of the whole group may wait in one accept queue
        cfg.tcp_capacity = cfg.tcp_capacity.max(3);
    }
    let sc = Scenario { cfg, guarded, hosts, conns, mode, script, enumerate: owned, shared_listener };
    sc
}

// ------------------------------------------------------------------------------------------------
// run-time state shared by the host programs and the controller (single thread: the order of
// updates is the order of events)

#[derive(Default, Clone)]
struct DirSt {
    /// bytes the writer's writes reported as accepted
    accepted: u64,
    /// end offset of every accepted non-empty write (= one data segment each)
    seg_ends: Vec<u64>,
    /// bytes consumed by the reader
    read_off: u64,
    /// data segments the reader has taken out of the receive queue (derived from the offsets touched)
    pulled: usize,
    /// the writer began to shut down / drop its write side
    close_started: bool,
    /// ... and that completed without error
    closed_ok: bool,
    writer_done: bool,
    /// the read program ran to its end (EOF / error in the drain loop, or a deliberate stop)
    reader_done: bool,
    eof: bool,
    reset: bool,
    fin_delivered: bool,
    fin_found_full: Option<bool>,
}

#[derive(Default, Clone)]
struct ConnSt {
    d: [DirSt; 2],
    /// an end dropped its read side before it saw EOF: RST may follow, nothing but safety is judged
    abortive: bool,
    /// Some(t): that side dropped its stream at sim time t (us) while the peer's write side was still open but every
    /// byte the peer's writes had accepted was already consumed ("a drop while no inbound data is unread"): a
    /// graceful close of that side's outbound direction; only the peer's later writes go nowhere
    quiet_drop: [Option<u64>; 2],
    started: [bool; 2],
    end_done: [bool; 2],
    /// client port of the throw-away connection (its segments are not this connection's)
    prelude_cport: Option<u16>,
}

#[derive(Clone)]
struct Sh {
    log: SharedLog,
    st: Rc<RefCell<Vec<ConnSt>>>,
    viol: Rc<RefCell<Option<Violation>>>,
    herr: Rc<RefCell<Option<String>>>,
    sleepers: Sleepers,
    probes: Rc<RefCell<Counters>>,
    partitioned: Rc<Cell<bool>>,
    tick: Duration,
    /// seeded latencies, no hold / partition anywhere in the script: what was sent first by `max_latency` arrives first
    plain_links: bool,
    max_latency_us: u64,
    /// connections that share the listener of connection 0
    group: Rc<Vec<usize>>,
    /// streams the shared listener accepted, not yet claimed by their connection
    pool: Rc<RefCell<Vec<(SocketAddr, TcpStream)>>>,
    /// local address of the connecting end, once connected
    caddr: Rc<RefCell<Vec<Option<SocketAddr>>>>,
}

impl Sh {
    fn violate(&self, class: &str, msg: String) {
        self.log.ev(format!("VIOLATION {class}: {msg}"));
        let mut v = self.viol.borrow_mut();
        if v.is_none() {
            *v = Some(Violation::new(class, msg));
        }
    }
    fn stop(&self) -> bool {
        self.viol.borrow().is_some() || self.herr.borrow().is_some()
    }
    fn probe(&self, k: &str) {
        self.probes.borrow_mut().inc(k);
    }
    async fn sleep_ticks(&self, n: u64) {
        if n > 0 {
            self.sleepers.sleep(self.tick * n as u32).await;
        }
    }
}

fn side_name(side: usize) -> &'static str {
    if side == 0 {
        "c"
    } else {
        "s"
    }
}

enum Io {
    Plain(TcpStream),
    Split(Option<OwnedReadHalf>, Option<OwnedWriteHalf>),
    Gone,
}
type IoCell = Rc<RefCell<Io>>;

fn gone_err() -> io::Error {
    io::Error::other("harness: stream half already dropped")
}

/// Every operation borrows the stream only while it is being polled, so that the read program and
/// the write program of one end can run concurrently on a plain (unsplit) TcpStream. The futures
/// of the public async API (`read`, `write`, `peek`, `writable`, `shutdown`) are stateless wrappers
/// around the poll functions, so re-creating them for every poll is equivalent to awaiting them.
async fn io_read(io: &IoCell, buf: &mut [u8]) -> io::Result<usize> {
    poll_fn(|cx| {
        let mut g = io.borrow_mut();
        match &mut *g {
            Io::Plain(s) => pin!(s.read(buf)).poll(cx),
            Io::Split(Some(r), _) => pin!(r.read(buf)).poll(cx),
            _ => Poll::Ready(Err(gone_err())),
        }
    })
    .await
}

async fn io_peek(io: &IoCell, buf: &mut [u8]) -> io::Result<usize> {
    poll_fn(|cx| {
        let mut g = io.borrow_mut();
        match &mut *g {
            Io::Plain(s) => pin!(s.peek(buf)).poll(cx),
            Io::Split(Some(r), _) => pin!(r.peek(buf)).poll(cx),
            _ => Poll::Ready(Err(gone_err())),
        }
    })
    .await
}

/// One poll of poll_peek: Ok(None) = Pending.
async fn io_poll_peek_once(io: &IoCell, buf: &mut [u8]) -> io::Result<Option<usize>> {
    poll_fn(|cx| {
        let mut g = io.borrow_mut();
        let mut rb = ReadBuf::new(buf);
        let p = match &mut *g {
            Io::Plain(s) => s.poll_peek(cx, &mut rb),
            Io::Split(Some(r), _) => Pin::new(r).poll_peek(cx, &mut rb),
            _ => Poll::Ready(Err(gone_err())),
        };
        Poll::Ready(match p {
            Poll::Ready(Ok(n)) => Ok(Some(n)),
            Poll::Ready(Err(e)) => Err(e),
            Poll::Pending => Ok(None),
        })
    })
    .await
}

/// AsyncWriteExt::write; the second value tells whether the first poll was Pending (blocked writer).
async fn io_write(io: &IoCell, data: &[u8]) -> (io::Result<usize>, bool) {
    let mut polls = 0u32;
    let r = poll_fn(|cx| {
        polls += 1;
        let mut g = io.borrow_mut();
        match &mut *g {
            Io::Plain(s) => pin!(s.write(data)).poll(cx),
            Io::Split(_, Some(w)) => pin!(w.write(data)).poll(cx),
            _ => Poll::Ready(Err(gone_err())),
        }
    })
    .await;
    (r, polls > 1)
}

/// None = not a plain stream (owned halves have no try_write)
fn io_try_write(io: &IoCell, data: &[u8]) -> Option<io::Result<usize>> {
    match &*io.borrow() {
        Io::Plain(s) => Some(s.try_write(data)),
        _ => None,
    }
}

async fn io_writable(io: &IoCell) -> Option<io::Result<()>> {
    poll_fn(|cx| {
        let g = io.borrow();
        match &*g {
            Io::Plain(s) => pin!(s.writable()).poll(cx).map(Some),
            _ => Poll::Ready(None),
        }
    })
    .await
}

async fn io_shutdown(io: &IoCell) -> io::Result<()> {
    poll_fn(|cx| {
        let mut g = io.borrow_mut();
        match &mut *g {
            Io::Plain(s) => pin!(s.shutdown()).poll(cx),
            Io::Split(_, Some(w)) => pin!(w.shutdown()).poll(cx),
            _ => Poll::Ready(Err(gone_err())),
        }
    })
    .await
}

// ------------------------------------------------------------------------------------------------
// the read program

enum Got {
    Data,
    Nothing,
    Eof,
    Failed,
}

/// Judge `got` returned by a read (consuming) or peek (not consuming) on direction `dir` of conn `c`.
fn judge_bytes(sh: &Sh, c: usize, dir: usize, buf_len: usize, got: &[u8], peek: bool, who: &str) -> Got {
    let mut st = sh.st.borrow_mut();
    let d = &mut st[c].d[dir];
    let what = if peek { "peek" } else { "read" };
    if got.is_empty() {
        if buf_len == 0 {
            return Got::Nothing;
        }
        // end of file: a 0-byte result into a non-empty buffer
        if !d.close_started || d.read_off != d.accepted {
            let (cs, ro, acc) = (d.close_started, d.read_off, d.accepted);
            drop(st);
            sh.violate(
                "EarlyEof",
                format!("{who}: {what} into a {buf_len}-byte buffer returned 0 (EOF) at offset {ro} although the peer's writes accepted {acc} bytes and the peer {} its write side", if cs { "has closed" } else { "has NOT closed" }),
            );
            return Got::Failed;
        }
        d.eof = true;
        return Got::Eof;
    }
    let n = got.len() as u64;
    if d.reset {
        let ro = d.read_off;
        drop(st);
        sh.violate("DataAfterReset", format!("{who}: {what} returned {n} bytes at offset {ro} after an earlier ConnectionReset on the same stream"));
        return Got::Failed;
    }
    if d.eof {
        let ro = d.read_off;
        drop(st);
        sh.violate("DataAfterEof", format!("{who}: {what} returned {n} bytes at offset {ro} after end-of-file had been reported"));
        return Got::Failed;
    }
    if got.len() > buf_len {
        drop(st);
        sh.violate("NotPrefix", format!("{who}: {what} returned {n} bytes into a {buf_len}-byte buffer"));
        return Got::Failed;
    }
    if d.read_off + n > d.accepted {
        let (ro, acc) = (d.read_off, d.accepted);
        drop(st);
        sh.violate("NotPrefix", format!("{who}: {what} returned {n} bytes at offset {ro} but the peer's writes have accepted only {acc} bytes so far"));
        return Got::Failed;
    }
    let want = stream_bytes(c as u32, dir as u8, d.read_off, got.len());
    if want != got {
        let i = want.iter().zip(got).position(|(a, b)| a != b).unwrap_or(0);
        let ro = d.read_off;
        // where do the returned bytes come from?
        let acc = d.accepted;
        let mut origin = String::from("matches no position of the stream (altered)");
        if got.len() - i >= 3 {
            let whole = stream_bytes(c as u32, dir as u8, 0, acc as usize);
            if let Some(p) = whole.windows(got.len() - i).position(|w| w == &got[i..]) {
                origin = format!("equals the stream at offset {p} ({})", if (p as u64) < ro + i as u64 { "duplicated / replayed" } else { "bytes in between lost or reordered" });
            }
        }
        drop(st);
        sh.violate("NotPrefix", format!("{who}: {what} of {n} bytes at offset {ro}: byte {i} differs from the stream the peer wrote; the returned data {origin}"));
        return Got::Failed;
    }
    let last = d.read_off + n - 1;
    let idx = d.seg_ends.partition_point(|e| *e <= last);
    d.pulled = d.pulled.max(idx + 1);
    if !peek {
        d.read_off += n;
    }
    Got::Data
}

fn judge_read_err(sh: &Sh, c: usize, dir: usize, e: &io::Error, who: &str) {
    let abortive = sh.st.borrow()[c].abortive;
    let allowed = e.kind() == io::ErrorKind::ConnectionReset && (abortive || sh.partitioned.get());
    if e.kind() == io::ErrorKind::ConnectionReset {
        sh.st.borrow_mut()[c].d[dir].reset = true;
        sh.probe("reader_saw_connection_reset");
    }
    if !allowed {
        sh.violate(
            "SpuriousError",
            format!("{who}: read failed with {} ({e}) although no partition was imposed and no end dropped its read side with inbound data unread or still to come", kind_name(e.kind())),
        );
    }
}

async fn reader(sh: Sh, c: usize, side: usize, spec: EndSpec, io: IoCell) {
    let dir = 1 - side;
    let who = format!("conn {c} {} reader", side_name(side));
    let mut buf = vec![0u8; 4096];
    for op in &spec.rops {
        if sh.stop() {
            return;
        }
        match op {
            ROp::Read { buf: b } => {
                let b = *b as usize;
                let r = io_read(&io, &mut buf[..b]).await;
                match r {
                    Ok(n) => {
                        sh.log.ev(format!("{who} read buf={b} -> {n}"));
                        sh.log.tag(if n == 0 { "r0" } else { "r" });
                        judge_bytes(&sh, c, dir, b, &buf[..n.min(4096)], false, &who);
                    }
                    Err(e) => {
                        sh.log.ev(format!("{who} read buf={b} -> Err {}", kind_name(e.kind())));
                        sh.log.tag("rerr");
                        judge_read_err(&sh, c, dir, &e, &who);
                    }
                }
            }
            ROp::Peek { buf: b } => {
                let b = *b as usize;
                let r = io_peek(&io, &mut buf[..b]).await;
                match r {
                    Ok(n) => {
                        sh.log.ev(format!("{who} peek buf={b} -> {n}"));
                        sh.log.tag("pk");
                        judge_bytes(&sh, c, dir, b, &buf[..n.min(4096)], true, &who);
                    }
                    Err(e) => {
                        sh.log.ev(format!("{who} peek buf={b} -> Err {}", kind_name(e.kind())));
                        sh.log.tag("pkerr");
                        judge_read_err(&sh, c, dir, &e, &who);
                    }
                }
            }
            ROp::PollPeek { buf: b } => {
                let b = *b as usize;
                let r = io_poll_peek_once(&io, &mut buf[..b]).await;
                match r {
                    Ok(Some(n)) => {
                        sh.log.ev(format!("{who} poll_peek buf={b} -> Ready {n}"));
                        sh.log.tag("pp");
                        judge_bytes(&sh, c, dir, b, &buf[..n.min(4096)], true, &who);
                    }
                    Ok(None) => {
                        sh.log.ev(format!("{who} poll_peek buf={b} -> Pending"));
                        sh.log.tag("pp-");
                    }
                    Err(e) => {
                        sh.log.ev(format!("{who} poll_peek buf={b} -> Err {}", kind_name(e.kind())));
                        sh.log.tag("pkerr");
                        judge_read_err(&sh, c, dir, &e, &who);
                    }
                }
            }
            ROp::Sleep { ticks } => sh.sleep_ticks(*ticks as u64).await,
            ROp::Yield => tokio::task::yield_now().await,
        }
    }
    if let Some(b) = spec.drain {
        let b = (b as usize).clamp(1, 4096);
        let (mut reads, mut bytes) = (0u64, 0u64);
        loop {
            if sh.stop() {
                return;
            }
            if spec.drain_mode == DrainMode::Exact {
                let done = {
                    let st = sh.st.borrow();
                    let d = &st[c].d[dir];
                    d.closed_ok && d.read_off == d.accepted
                };
                if done {
                    sh.log.ev(format!("{who} drain buf={b}: {reads} reads, {bytes} bytes = everything the peer wrote before closing; stops WITHOUT reading the end-of-file"));
                    sh.log.tag("exact");
                    sh.probe("reader_stopped_exactly_at_end_of_data");
                    break;
                }
            }
            if spec.drain_mode == DrainMode::PeekFirst {
                match io_peek(&io, &mut buf[..b]).await {
                    Ok(n) => match judge_bytes(&sh, c, dir, b, &buf[..n.min(4096)], true, &who) {
                        Got::Eof => {
                            sh.log.ev(format!("{who} drain buf={b}: peek -> 0: end-of-file first seen by peek after {bytes} bytes"));
                            sh.log.tag("pkeof");
                            sh.probe("eof_first_seen_by_peek");
                        }
                        Got::Failed => return,
                        _ => {}
                    },
                    Err(e) => {
                        sh.log.ev(format!("{who} drain buf={b}: peek -> Err {}", kind_name(e.kind())));
                        sh.log.tag("pkerr");
                        judge_read_err(&sh, c, dir, &e, &who);
                        break;
                    }
                }
            }
            match io_read(&io, &mut buf[..b]).await {
                Ok(n) => {
                    reads += 1;
                    bytes += n as u64;
                    match judge_bytes(&sh, c, dir, b, &buf[..n.min(4096)], false, &who) {
                        Got::Data => continue,
                        Got::Eof => {
                            sh.log.ev(format!("{who} drain buf={b}: {reads} reads, {bytes} bytes, then EOF"));
                            sh.log.tag("eof");
                        }
                        _ => {}
                    }
                    break;
                }
                Err(e) => {
                    sh.log.ev(format!("{who} drain buf={b}: {reads} reads, {bytes} bytes, then Err {}", kind_name(e.kind())));
                    sh.log.tag("rerr");
                    judge_read_err(&sh, c, dir, &e, &who);
                    break;
                }
            }
        }
    } else {
        sh.log.ev(format!("{who} stops reading"));
        sh.log.tag("stop");
    }
    sh.st.borrow_mut()[c].d[dir].reader_done = true;
}

// ------------------------------------------------------------------------------------------------
// the write program

fn judge_write_err(sh: &Sh, c: usize, e: &io::Error, who: &str, what: &str) {
    let abortive = sh.st.borrow()[c].abortive || sh.st.borrow()[c].quiet_drop.iter().any(|q| q.is_some());
    let allowed = e.kind() == io::ErrorKind::BrokenPipe && (abortive || sh.partitioned.get());
    if e.kind() == io::ErrorKind::BrokenPipe {
        sh.probe("writer_saw_broken_pipe");
    }
    if !allowed {
        sh.violate(
            "SpuriousError",
            format!("{who}: {what} failed with {} ({e}) although no partition was imposed and no end dropped its read side with inbound data unread or still to come", kind_name(e.kind())),
        );
    }
}

fn now_us() -> u64 {
    turmoil::sim_elapsed().map(|d| d.as_micros() as u64).unwrap_or(0)
}

/// A segment (data or FIN) sent after the peer's quiet drop is answered with a RST; unless everything the peer had
/// sent before it dropped has certainly arrived by now, the RST may overtake it: the close counts as abortive then.
fn sent_towards_gone_peer(sh: &Sh, cs: &mut ConnSt, dir: usize) {
    if let Some(td) = cs.quiet_drop[1 - dir] {
        if now_us() < td + sh.max_latency_us + 2 * sh.tick.as_micros() as u64 {
            cs.abortive = true;
        } else if !cs.abortive {
            sh.probe("sent_after_the_peers_graceful_drop");
        }
    }
}

fn accept_bytes(sh: &Sh, c: usize, dir: usize, n: usize) {
    if n > 0 {
        let mut st = sh.st.borrow_mut();
        sent_towards_gone_peer(sh, &mut st[c], dir);
        let d = &mut st[c].d[dir];
        d.accepted += n as u64;
        let e = d.accepted;
        d.seg_ends.push(e);
    }
}

async fn writer(sh: Sh, c: usize, side: usize, spec: EndSpec, io: IoCell) {
    let dir = side;
    let who = format!("conn {c} {} writer", side_name(side));
    for op in &spec.wops {
        if sh.stop() {
            return;
        }
        match op {
            WOp::Write { .. } | WOp::BigWrite { .. } => {
                let (len, how) = match op {
                    WOp::Write { len, how } => (*len as usize, how),
                    WOp::BigWrite { len } => {
                        sh.probe("single_write_call_beyond_64KiB");
                        (*len as usize, &WHow::Write)
                    }
                    _ => unreachable!(),
                };
                let off = sh.st.borrow()[c].d[dir].accepted;
                let data = stream_bytes(c as u32, dir as u8, off, len);
                // Try / WritableTry exist on the unsplit stream only
                let mut how = *how;
                if !matches!(&*io.borrow(), Io::Plain(_)) && how != WHow::Handover {
                    how = WHow::Write;
                }
                let mut pre: Option<(io::Result<usize>, bool)> = None;
                if how == WHow::Handover {
                    let io2 = io.clone();
                    let d2 = data.clone();
                    let h = tokio::task::spawn_local(async move { io_write(&io2, &d2).await });
                    tokio::task::yield_now().await;
                    if !h.is_finished() {
                        sh.probe("blocked_write_handed_over_to_another_task");
                    }
                    h.abort();
                    if let Ok((r, _)) = h.await {
                        pre = Some((r, false));
                    }
                    how = WHow::Write;
                }
                let mut failed: Option<(io::Error, &str)> = None;
                match how {
                    WHow::Try => match io_try_write(&io, &data).unwrap() {
                        Ok(n) => {
                            sh.log.ev(format!("{who} try_write {len}B @{off} -> {n}"));
                            sh.log.tag("tw");
                            accept_bytes(&sh, c, dir, n.min(len));
                        }
                        Err(e) if e.kind() == io::ErrorKind::WouldBlock => {
                            sh.log.ev(format!("{who} try_write {len}B @{off} -> WouldBlock"));
                            sh.log.tag("twb");
                            sh.probe("writer_backpressured");
                        }
                        Err(e) => failed = Some((e, "try_write")),
                    },
                    WHow::WritableTry => {
                        let mut tries = 0;
                        loop {
                            tries += 1;
                            match io_writable(&io).await.unwrap() {
                                Ok(()) => {}
                                Err(e) => {
                                    failed = Some((e, "writable"));
                                    break;
                                }
                            }
                            match io_try_write(&io, &data).unwrap() {
                                Ok(n) => {
                                    sh.log.ev(format!("{who} writable+try_write {len}B @{off} -> {n} (attempt {tries})"));
                                    sh.log.tag("wtw");
                                    accept_bytes(&sh, c, dir, n.min(len));
                                    break;
                                }
                                Err(e) if e.kind() == io::ErrorKind::WouldBlock && tries < 4 => {
                                    sh.log.ev(format!("{who} writable said ready but try_write {len}B -> WouldBlock"));
                                    sh.probe("writer_backpressured");
                                    tokio::task::yield_now().await;
                                }
                                Err(e) => {
                                    failed = Some((e, "try_write after writable"));
                                    break;
                                }
                            }
                        }
                    }
                    WHow::Write | WHow::Handover => {
                        // write_all semantics on top of write
                        let mut done = 0usize;
                        let mut zero = 0;
                        loop {
                            let (r, blocked) = match pre.take() {
                                Some(x) => x,
                                None => io_write(&io, &data[done..]).await,
                            };
                            if blocked {
                                sh.probe("writer_backpressured");
                                sh.log.tag("wblk");
                            }
                            match r {
                                Ok(n) => {
                                    let n = n.min(len - done);
                                    sh.log.ev(format!("{who} write {}B @{} -> {n}{}", len - done, off + done as u64, if blocked { " (was blocked)" } else { "" }));
                                    sh.log.tag("w");
                                    accept_bytes(&sh, c, dir, n);
                                    done += n;
                                    if n == 0 {
                                        zero += 1;
                                    }
                                    if done >= len || zero > 2 {
                                        break;
                                    }
                                }
                                Err(e) => {
                                    failed = Some((e, "write"));
                                    break;
                                }
                            }
                        }
                    }
                }
                if let Some((e, what)) = failed {
                    sh.log.ev(format!("{who} {what} {len}B @{off} -> Err {}", kind_name(e.kind())));
                    sh.log.tag("werr");
                    judge_write_err(&sh, c, &e, &who, what);
                    return;
                }
            }
            WOp::Sleep { ticks } => sh.sleep_ticks(*ticks as u64).await,
            WOp::Yield => tokio::task::yield_now().await,
        }
    }
    sh.sleep_ticks(spec.fin_delay as u64).await;
    if sh.stop() {
        return;
    }
    match spec.fin {
        Fin::None => {}
        Fin::Shutdown | Fin::DropWrite | Fin::ShutdownDropWrite => {
            sh.st.borrow_mut()[c].d[dir].close_started = true;
            sent_towards_gone_peer(&sh, &mut sh.st.borrow_mut()[c], dir);
            let split_w = match &mut *io.borrow_mut() {
                Io::Split(_, w) if spec.fin == Fin::DropWrite => w.take(),
                _ => None,
            };
            if let Some(w) = split_w {
                drop(w);
                sh.log.ev(format!("{who} dropped the owned write half"));
                sh.log.tag("dw");
                sh.st.borrow_mut()[c].d[dir].closed_ok = true;
            } else {
                match io_shutdown(&io).await {
                    Ok(()) => {
                        sh.log.ev(format!("{who} shutdown -> Ok"));
                        sh.log.tag("sd");
                        sh.st.borrow_mut()[c].d[dir].closed_ok = true;
                        if spec.fin == Fin::ShutdownDropWrite {
                            let w = match &mut *io.borrow_mut() {
                                Io::Split(_, w) => w.take(),
                                _ => None,
                            };
                            if let Some(w) = w {
                                drop(w);
                                sh.log.ev(format!("{who} dropped the owned write half after its shutdown"));
                                sh.log.tag("sdw");
                                sh.probe("write_half_shut_down_then_dropped_while_reading");
                            }
                        }
                    }
                    Err(e) => {
                        sh.log.ev(format!("{who} shutdown -> Err {}", kind_name(e.kind())));
                        sh.log.tag("sderr");
                        judge_write_err(&sh, c, &e, &who, "shutdown");
                        return;
                    }
                }
            }
        }
    }
    sh.st.borrow_mut()[c].d[dir].writer_done = true;
}

// ------------------------------------------------------------------------------------------------
// one end of a connection, the hosts

async fn run_end(sh: Sh, c: usize, side: usize, spec: EndSpec, stream: TcpStream) {
    let who = format!("conn {c} {}", side_name(side));
    sh.log.ev(format!("{who} established local={:?} peer={:?} form={:?}", stream.local_addr().ok(), stream.peer_addr().ok(), spec.form));
    sh.st.borrow_mut()[c].started[side] = true;
    let io = match spec.form {
        Form::Plain => Io::Plain(stream),
        Form::Split | Form::SplitReuniteAtClose => {
            let (r, w) = stream.into_split();
            Io::Split(Some(r), Some(w))
        }
        Form::Reunited => {
            let (r, w) = stream.into_split();
            match r.reunite(w) {
                Ok(s) => Io::Plain(s),
                Err(_) => {
                    sh.violate("ReuniteFailed", format!("{who}: reunite of the two halves of one into_split failed"));
                    return;
                }
            }
        }
    };
    let io: IoCell = Rc::new(RefCell::new(io));
    let w = tokio::task::spawn_local(writer(sh.clone(), c, side, spec.clone(), io.clone()));
    let r = tokio::task::spawn_local(reader(sh.clone(), c, side, spec.clone(), io.clone()));
    w.await.expect("writer task");
    r.await.expect("reader task");
    sh.sleep_ticks(spec.linger as u64).await;
    if spec.keep || sh.stop() {
        sh.log.ev(format!("{who} keeps its stream open"));
        sh.st.borrow_mut()[c].end_done[side] = true;
        std::future::pending::<()>().await;
    }
    // final drop
    let (inb, outb) = (1 - side, side);
    let mut only_fin_unread = false;
    let mut quiet_drop = false;
    let graceful = {
        let mut st = sh.st.borrow_mut();
        let seen = st[c].d[inb].eof || st[c].d[inb].reset;
        // "a drop while no inbound data is unread" is a graceful close: the peer has closed its write
        // side and every byte it wrote was consumed, only its FIN (queued or still in flight) is unread
        let nothing_unread = st[c].d[inb].closed_ok && st[c].d[inb].read_off == st[c].d[inb].accepted;
        // the peer's write side is still open, but nothing it wrote so far is unread, queued or in flight
        let quiet = !seen && !nothing_unread && sh.plain_links && !st[c].abortive && st[c].d[inb].read_off == st[c].d[inb].accepted && st[c].quiet_drop[1 - side].is_none();
        if quiet {
            st[c].quiet_drop[side] = Some(now_us());
            quiet_drop = true;
        } else if !seen && !nothing_unread {
            st[c].abortive = true;
        }
        if !seen && nothing_unread {
            only_fin_unread = true;
        }
        st[c].d[outb].close_started = true;
        seen || nothing_unread || quiet_drop
    };
    if quiet_drop {
        sh.probe("dropped_with_nothing_unread_while_the_peer_still_writes");
    }
    if only_fin_unread {
        sh.probe("dropped_with_only_the_fin_unread");
    }
    let taken = std::mem::replace(&mut *io.borrow_mut(), Io::Gone);
    match taken {
        Io::Split(Some(r), Some(w)) if spec.form == Form::SplitReuniteAtClose => match r.reunite(w) {
            Ok(s) => drop(s),
            Err(_) => sh.violate("ReuniteFailed", format!("{who}: reunite of the two halves of one into_split failed")),
        },
        other => drop(other),
    }
    sh.log.ev(format!("{who} dropped its stream ({})", if only_fin_unread { "every inbound byte consumed, only the peer's FIN unread" } else if quiet_drop { "every inbound byte so far consumed, the peer's write side still open" } else if graceful { "inbound direction already at EOF" } else { "BEFORE inbound EOF, inbound data may be unread" }));
    sh.log.tag(if graceful { "drop" } else { "drop!" });
    {
        let mut st = sh.st.borrow_mut();
        if graceful {
            st[c].d[outb].closed_ok = true;
        }
        st[c].end_done[side] = true;
    }
}

/// The one listener of a group: accepts as many streams as the group has connections.
async fn group_acceptor(sh: Sh, ipv6: bool) {
    let l = match TcpListener::bind((wildcard(ipv6), PORT0)).await {
        Ok(l) => l,
        Err(e) => {
            *sh.herr.borrow_mut() = Some(format!("shared listener: bind failed: {e}"));
            return;
        }
    };
    for _ in 0..sh.group.len() {
        match l.accept().await {
            Ok((s, peer)) => {
                sh.log.ev(format!("shared listener accepted {peer}"));
                sh.pool.borrow_mut().push((peer, s));
            }
            Err(e) => {
                *sh.herr.borrow_mut() = Some(format!("shared listener: accept failed: {e}"));
                return;
            }
        }
    }
    sh.probe("several_streams_accepted_by_one_listener");
}

/// The accepting end of a grouped connection: claims the stream whose peer is this connection's connector.
async fn server_end_grouped(sh: Sh, c: usize, spec: ConnSpec) {
    for _ in 0..2000 {
        let mine = {
            let want = sh.caddr.borrow()[c];
            let mut pool = sh.pool.borrow_mut();
            match want.and_then(|a| pool.iter().position(|(p, _)| *p == a)) {
                Some(i) => Some(pool.swap_remove(i).1),
                None => None,
            }
        };
        if let Some(s) = mine {
            return run_end(sh, c, 1, spec.s.clone(), s).await;
        }
        if sh.stop() {
            return;
        }
        sh.sleep_ticks(1).await;
    }
}

async fn server_end(sh: Sh, c: usize, spec: ConnSpec, ipv6: bool) {
    let ip = if spec.bind_localhost && spec.via == Via::Loopback { loopback(ipv6) } else { wildcard(ipv6) };
    let l = match TcpListener::bind((ip, PORT0 + c as u16)).await {
        Ok(l) => l,
        Err(e) => {
            *sh.herr.borrow_mut() = Some(format!("conn {c}: bind failed: {e}"));
            return;
        }
    };
    if let Some(p) = &spec.prelude {
        match l.accept().await {
            Ok((mut s, _)) => {
                sh.log.ev(format!("conn {c} s accepted the throw-away connection"));
                for _ in 0..p.segs {
                    if s.write_all(&[0xEE; 5]).await.is_err() {
                        break;
                    }
                }
                drop(s);
                sh.probe("throwaway_connection_before_the_judged_one");
            }
            Err(e) => {
                *sh.herr.borrow_mut() = Some(format!("conn {c}: accept (throw-away) failed: {e}"));
                return;
            }
        }
    }
    match l.accept().await {
        Ok((s, _)) => {
            drop(l);
            run_end(sh, c, 1, spec.s.clone(), s).await
        }
        Err(e) => *sh.herr.borrow_mut() = Some(format!("conn {c}: accept failed: {e}")),
    }
}

async fn client_end(sh: Sh, c: usize, spec: ConnSpec, ipv6: bool) {
    sh.sleep_ticks(spec.connect_delay.max(1) as u64).await;
    let port = if sh.group.contains(&c) { PORT0 } else { PORT0 + c as u16 };
    if let Some(p) = &spec.prelude {
        let r = match spec.via {
            Via::Remote | Via::OwnAddr => TcpStream::connect((host_ip(spec.server, ipv6), port)).await,
            Via::RemoteByName => TcpStream::connect((host_name(spec.server), port)).await,
            Via::Loopback => TcpStream::connect((loopback(ipv6), port)).await,
        };
        match r {
            Ok(mut s) => {
                let lp = s.local_addr().map(|a| a.port()).unwrap_or(0);
                sh.st.borrow_mut()[c].prelude_cport = Some(lp);
                if p.client_reads {
                    let mut b = [0u8; 3];
                    let _ = s.read(&mut b).await;
                }
                drop(s);
                sh.log.ev(format!("conn {c} c made and dropped the throw-away connection"));
                sh.log.tag("pre");
            }
            Err(e) => {
                sh.log.ev(format!("conn {c} c throw-away connect -> Err {}", kind_name(e.kind())));
                if !sh.partitioned.get() {
                    sh.probe("connect_failed_without_partition_connection_not_judged");
                }
                return;
            }
        }
        if p.gap > 0 {
            sh.sleep_ticks(p.gap as u64).await;
        }
    }
    let r = match spec.via {
        Via::Remote | Via::OwnAddr => TcpStream::connect((host_ip(spec.server, ipv6), port)).await,
        Via::RemoteByName => TcpStream::connect((host_name(spec.server), port)).await,
        Via::Loopback => TcpStream::connect((loopback(ipv6), port)).await,
    };
    match r {
        Ok(s) => {
            sh.caddr.borrow_mut()[c] = s.local_addr().ok();
            run_end(sh, c, 0, spec.c.clone(), s).await
        }
        Err(e) => {
            sh.log.ev(format!("conn {c} c connect -> Err {}", kind_name(e.kind())));
            sh.log.tag("cerr");
            if !sh.partitioned.get() {
                // whether a connect succeeds is C12's subject: this connection never existed, nothing is judged on it
                // (the other connections of the run are)
                sh.probe("connect_failed_without_partition_connection_not_judged");
            }
        }
    }
}

async fn host_main(sh: Sh, host: usize, sc: Rc<Scenario>) -> turmoil::Result {
    if sh.group.first().map(|c| sc.conns[*c].server == host).unwrap_or(false) {
        tokio::task::spawn_local(group_acceptor(sh.clone(), sc.cfg.ipv6));
    }
    for (c, spec) in sc.conns.iter().enumerate() {
        if spec.server == host && sh.group.contains(&c) {
            tokio::task::spawn_local(server_end_grouped(sh.clone(), c, spec.clone()));
        } else if spec.server == host {
            tokio::task::spawn_local(server_end(sh.clone(), c, spec.clone(), sc.cfg.ipv6));
        }
        if spec.client == host {
            tokio::task::spawn_local(client_end(sh.clone(), c, spec.clone(), sc.cfg.ipv6));
        }
    }
    std::future::pending::<()>().await;
    Ok(())
}

// ------------------------------------------------------------------------------------------------
// the controller and the verdict

#[derive(Default)]
struct RunInfo {
    round_sizes: Vec<usize>,
}

fn step_cap(sc: &Scenario) -> u32 {
    let lat = sc.cfg.max_latency_ticks() + 2;
    let mut sleeps = 0u64;
    let mut segs = 0u64;
    for c in &sc.conns {
        sleeps += c.c.sleeps() + c.s.sleeps() + c.connect_delay as u64 + 1 + c.prelude.as_ref().map(|p| p.gap as u64 + 4 * lat + 8).unwrap_or(0);
        segs += (c.c.wops.len() + c.s.wops.len()) as u64 + 6;
    }
    let last_script = sc.script.iter().map(|(s, _)| *s as u64).max().unwrap_or(0);
    let per = match sc.mode {
        Mode::Latency => lat * 3,
        Mode::Owned { .. } => 8,
    };
    (60 + sleeps + last_script + segs * per).min(20_000) as u32
}

fn dir_of(f: &Flight, nconn: usize, pre: &[Option<u16>], group: &[usize], caddr: &[Option<SocketAddr>]) -> Option<(usize, usize)> {
    let (sp, dp) = (f.src.port(), f.dst.port());
    if !group.is_empty() && (dp == PORT0 || sp == PORT0) {
        // several connections share that port: told apart by the connecting end's address
        if let Some(c) = group.iter().find(|c| caddr[**c] == Some(f.src) && dp == PORT0) {
            return Some((*c, 0));
        }
        if let Some(c) = group.iter().find(|c| caddr[**c] == Some(f.dst) && sp == PORT0) {
            return Some((*c, 1));
        }
        return None;
    }
    if dp >= PORT0 && ((dp - PORT0) as usize) < nconn {
        let c = (dp - PORT0) as usize;
        return if pre[c] == Some(sp) { None } else { Some((c, 0)) };
    }
    if sp >= PORT0 && ((sp - PORT0) as usize) < nconn {
        let c = (sp - PORT0) as usize;
        return if pre[c] == Some(dp) { None } else { Some((c, 1)) };
    }
    None
}

fn execute(sc: &Scenario, keep: bool) -> (Report, RunInfo) {
    let sh = Sh {
        log: SharedLog::new(keep),
        st: Rc::new(RefCell::new(vec![ConnSt::default(); sc.conns.len()])),
        viol: Rc::new(RefCell::new(None)),
        herr: Rc::new(RefCell::new(None)),
        sleepers: Sleepers::default(),
        probes: Rc::new(RefCell::new(Counters::default())),
        partitioned: Rc::new(Cell::new(false)),
        tick: sc.cfg.tick(),
        plain_links: matches!(sc.mode, Mode::Latency) && sc.script.is_empty(),
        max_latency_us: sc.cfg.max_latency_us,
        group: Rc::new(sc.group()),
        pool: Rc::new(RefCell::new(Vec::new())),
        caddr: Rc::new(RefCell::new(vec![None; sc.conns.len()])),
    };
    let mut info = RunInfo::default();
    let mut faults = Counters::default();
    let mut probes = Counters::default();
    let cap = step_cap(sc);
    let quiet_need = sc.cfg.max_latency_ticks() + 3;
    let nconn = sc.conns.len();
    let tcp_cap = sc.cfg.tcp_capacity;
    #[derive(PartialEq)]
    enum End {
        AllDone,
        Idle,
        Cap,
        Aborted,
    }
    let mut ended = End::Cap;
    let mut steps = 0u32;
    let mut holds: Vec<(usize, usize)> = Vec::new();
    let scr = Rc::new(sc.clone());

    let res = catch(|| {
        let mut sim = sc.cfg.build();
        for i in 0..sc.hosts {
            let (shc, scc) = (sh.clone(), scr.clone());
            sim.host(host_name(i), move || host_main(shc.clone(), i, scc.clone()));
        }
        let owned = matches!(sc.mode, Mode::Owned { .. });
        if owned {
            for a in 0..sc.hosts {
                for b in a + 1..sc.hosts {
                    sim.hold(host_name(a), host_name(b));
                }
            }
        }
        let mut members: Vec<Flight> = Vec::new();
        let mut prev_len = 0usize;
        let mut round = 0usize;
        let mut quiet = 0u64;
        let last_script = sc.script.iter().map(|(s, _)| *s).max().unwrap_or(0);
        let mut first_seen: Vec<(Flight, u32)> = Vec::new();
        for s in 1..=cap {
            steps = s;
            for (at, act) in &sc.script {
                if *at == s && !owned {
                    let (a, b) = act.hosts();
                    if a >= sc.hosts || b >= sc.hosts || a == b {
                        continue;
                    }
                    act.apply(&sim);
                    faults.inc(act.name());
                    sh.log.ev(format!("ctl before step {s}: {} h{a} h{b}", act.name()));
                    sh.log.tag(act.name());
                    let key = (a.min(b), a.max(b));
                    match act {
                        LinkAct::Hold(..) => {
                            if !holds.contains(&key) {
                                holds.push(key)
                            }
                        }
                        LinkAct::Release(..) | LinkAct::Partition(..) | LinkAct::Repair(..) => holds.retain(|k| *k != key),
                        _ => {}
                    }
                    if act.is_partition() {
                        sh.partitioned.set(true);
                    }
                }
            }
            if let Mode::Owned { perms } = &sc.mode {
                if members.is_empty() {
                    let fl = inflight(&sim);
                    if !fl.is_empty() && fl.len() == prev_len {
                        let code: &[u8] = perms.get(round).map(|v| v.as_slice()).unwrap_or(&[]);
                        members = apply_code(&fl, code);
                        info.round_sizes.push(fl.len());
                        sh.log.ev(format!("ctl round {round}: {} in flight, order {:?}", fl.len(), members.iter().map(|f| f.brief()).collect::<Vec<_>>()));
                        round += 1;
                    }
                    prev_len = fl.len();
                }
                if !members.is_empty() {
                    let f = members.remove(0);
                    let oldest_same_dir = inflight(&sim).into_iter().find(|x| x.src == f.src && x.dst == f.dst);
                    if deliver_one(&sim, &f) {
                        faults.inc("owned_delivery");
                        if oldest_same_dir != Some(f) {
                            faults.inc("owned_delivery_out_of_send_order");
                        }
                        sh.log.ev(format!("ctl before step {s}: deliver {}", f.brief()));
                    }
                    prev_len = 0;
                }
            }
            let before = inflight(&sim);
            let pulled_before: Vec<[usize; 2]> = sh.st.borrow().iter().map(|c| [c.d[0].pulled, c.d[1].pulled]).collect();
            let seq0 = sh.log.seq();
            if let Err(e) = sim.step() {
                sh.violate("StepError", format!("Sim::step returned an error at step {s}: {e}"));
            }
            let after = inflight(&sim);
            let delivered = gone(&before, &after);
            let pre: Vec<Option<u16>> = sh.st.borrow().iter().map(|c| c.prelude_cport).collect();
            let group = sh.group.clone();
            let caddr = sh.caddr.borrow().clone();
            for f in &delivered {
                if !matches!(f.kind, MsgKind::Data | MsgKind::Fin) {
                    continue;
                }
                let Some((c, d)) = dir_of(f, nconn, &pre, &group, &caddr) else { continue };
                let same_dir_earlier = after.iter().filter(|x| x.src == f.src && x.dst == f.dst && matches!(x.kind, MsgKind::Data | MsgKind::Fin) && x.seq < f.seq).count();
                if same_dir_earlier > 0 {
                    probes.inc("segment_overtook");
                    if f.kind == MsgKind::Fin {
                        probes.inc("fin_delivered_before_data");
                    }
                }
                if f.kind == MsgKind::Fin {
                    sh.st.borrow_mut()[c].d[d].fin_delivered = true;
                }
            }
            // did a FIN become deliverable to the reader while the receive queue was full?
            {
                let mut st = sh.st.borrow_mut();
                for c in 0..nconn {
                    for d in 0..2 {
                        let ds = &mut st[c].d[d];
                        if ds.fin_delivered && ds.fin_found_full.is_none() {
                            let waiting = after.iter().any(|x| matches!(x.kind, MsgKind::Data) && dir_of(x, nconn, &pre, &group, &caddr) == Some((c, d)));
                            if !waiting {
                                let unpulled = ds.seg_ends.len().saturating_sub(pulled_before[c][d]);
                                let full = unpulled >= tcp_cap;
                                ds.fin_found_full = Some(full);
                                if full {
                                    probes.inc("fin_arrived_queue_full");
                                }
                            }
                        }
                    }
                }
            }
            if sh.stop() {
                ended = End::Aborted;
                break;
            }
            let all_done = sh.st.borrow().iter().all(|c| c.end_done[0] && c.end_done[1]);
            if all_done {
                ended = End::AllDone;
                break;
            }
            // since when has each message been in flight? One that outlives the largest latency on a link
            // that is neither held nor partitioned is stuck, not moving (nothing more will happen to it)
            first_seen.retain(|(f, _)| after.contains(f));
            for f in &after {
                if !first_seen.iter().any(|(g, _)| g == f) {
                    first_seen.push((*f, s));
                }
            }
            let moving = after.iter().any(|f| {
                if owned {
                    return true;
                }
                if s > last_script && !sh.partitioned.get() {
                    let since = first_seen.iter().find(|(g, _)| g == f).map(|(_, t)| *t).unwrap_or(s);
                    if (s - since.max(last_script)) as u64 > quiet_need + 2 {
                        return false;
                    }
                }
                // messages on a held link do not move
                let pair = |ip: std::net::IpAddr| (0..sc.hosts).find(|h| host_ip(*h, sc.cfg.ipv6) == ip);
                match (pair(f.src.ip()), pair(f.dst.ip())) {
                    (Some(a), Some(b)) => !holds.contains(&(a.min(b), a.max(b))),
                    _ => true,
                }
            });
            let active = sh.log.seq() != seq0 || !delivered.is_empty() || moving || sh.sleepers.count() > 0 || s <= last_script;
            if active {
                quiet = 0;
            } else {
                quiet += 1;
                if quiet >= quiet_need {
                    ended = End::Idle;
                    break;
                }
            }
        }
        drop(sim);
    });

    let mut violation = sh.viol.borrow().clone();
    let mut harness_error = sh.herr.borrow().clone();
    if let Err(p) = res {
        if p.contains("server socket buffer full") || p.contains("ports exhausted") {
            harness_error = Some(format!("generator left the documented limits: {p}"));
        } else if violation.is_none() {
            violation = Some(Violation::new("Panic", format!("panic while running the simulation (step {steps}): {p}")));
        }
    }

    // ---- liveness: only without partitions, with every hold released, for graceful closes, and
    // only when the run ended because nothing could move any more (or everything finished) ----
    let st = sh.st.borrow().clone();
    if violation.is_none() && harness_error.is_none() && (ended == End::AllDone || ended == End::Idle) && !sh.partitioned.get() && holds.is_empty() {
        'outer: for (c, cs) in st.iter().enumerate() {
            if cs.abortive || !cs.started[0] || !cs.started[1] {
                continue;
            }
            for d in 0..2 {
                let (w, r) = (sc.conns[c].end(d), sc.conns[c].end(1 - d));
                if r.drain.is_none() {
                    continue; // the delivery half presumes a reader that keeps reading
                }
                if cs.quiet_drop[1 - d].is_some() {
                    continue; // the reader of this direction is gone
                }
                let ds = &cs.d[d];
                let name = if d == 0 { "client->server" } else { "server->client" };
                if ds.read_off < ds.accepted {
                    violation = Some(Violation::new(
                        "Stall",
                        format!(
                            "[c={c} d={d}] conn {c} {name}: the writer's writes accepted {} bytes, the reader (which keeps reading, buffer {}) got only {} and nothing moves any more (step {steps}, every hold released, no partition, no abortive close)",
                            ds.accepted,
                            r.drain.unwrap(),
                            ds.read_off
                        ),
                    ));
                    break 'outer;
                }
                if !ds.writer_done && !ds.close_started {
                    violation = Some(Violation::new(
                        "Stall",
                        format!("[c={c} d={d}] conn {c} {name}: the write program is blocked for good after {} accepted bytes ({} of {} ops) although the reader consumed everything and keeps reading", ds.accepted, ds.seg_ends.len(), w.wops.len()),
                    ));
                    break 'outer;
                }
                if r.drain_mode == DrainMode::Exact && !ds.eof {
                    continue; // this reader deliberately never reads the end-of-file
                }
                if ds.closed_ok && (!ds.eof || !ds.reader_done) {
                    violation = Some(Violation::new(
                        "NoEof",
                        format!(
                            "[c={c} d={d}] conn {c} {name}: the writer closed its write side gracefully after {} bytes in {} segments, the reader read all {} bytes and keeps reading but {} (tcp_capacity {}, fin_found_queue_full={:?})",
                            ds.accepted,
                            ds.seg_ends.len(),
                            ds.read_off,
                            if ds.eof { "after end-of-file was reported once (by a peek) its next read / peek waits for ever instead of reporting end-of-file again" } else { "never observes end-of-file" },
                            tcp_cap,
                            ds.fin_found_full
                        ),
                    ));
                    break 'outer;
                }
            }
        }
    }

    probes.merge(&sh.probes.borrow());
    if ended == End::Cap && !sh.partitioned.get() && holds.is_empty() {
        probes.inc("step_cap_reached");
    }
    for cs in &st {
        if cs.abortive {
            probes.inc("abortive_close");
        }
        for d in 0..2 {
            if cs.d[d].eof {
                probes.inc("eof_observed");
            }
        }
    }
    let nontrivial = probes.get("segment_overtook") > 0 || probes.get("writer_backpressured") > 0 || probes.get("fin_delivered_before_data") > 0;
    sh.log.tag(match sc.mode {
        Mode::Latency => "lat",
        Mode::Owned { .. } => "own",
    });
    let mut rep = Report::from_log(sh.log.take());
    rep.violation = violation;
    rep.harness_error = harness_error;
    rep.nontrivial = nontrivial;
    rep.faults = faults;
    rep.probes = probes;
    rep.steps = steps as u64;
    rep.sim_ms = steps as u64 * sc.cfg.tick_us / 1000;
    (rep, info)
}

// ------------------------------------------------------------------------------------------------

fn parse_cd(msg: &str) -> Option<(usize, usize)> {
    let s = msg.strip_prefix("[c=")?;
    let (c, rest) = s.split_once(' ')?;
    let d = rest.strip_prefix("d=")?.split(']').next()?;
    Some((c.parse().ok()?, d.parse().ok()?))
}

fn shrink_end(e: &EndSpec) -> Vec<EndSpec> {
    let mut out = Vec::new();
    for i in 0..e.wops.len() {
        let mut c = e.clone();
        c.wops.remove(i);
        out.push(c);
    }
    for i in 0..e.rops.len() {
        let mut c = e.clone();
        c.rops.remove(i);
        out.push(c);
    }
    for i in 0..e.wops.len() {
        if let WOp::BigWrite { .. } = &e.wops[i] {
            let mut c = e.clone();
            c.wops[i] = WOp::Write { len: 1024, how: WHow::Write };
            out.push(c);
        }
        if let WOp::Write { len, how } = &e.wops[i] {
            if *len > 1 {
                let mut c = e.clone();
                c.wops[i] = WOp::Write { len: len / 2, how: *how };
                out.push(c);
            }
            if *how != WHow::Write {
                let mut c = e.clone();
                c.wops[i] = WOp::Write { len: *len, how: WHow::Write };
                out.push(c);
            }
        }
    }
    if e.form != Form::Plain {
        out.push(EndSpec { form: Form::Plain, ..e.clone() });
    }
    if e.fin_delay > 0 {
        out.push(EndSpec { fin_delay: 0, ..e.clone() });
    }
    if e.linger > 0 {
        out.push(EndSpec { linger: 0, ..e.clone() });
    }
    if e.fin == Fin::DropWrite || e.fin == Fin::ShutdownDropWrite {
        out.push(EndSpec { fin: Fin::Shutdown, ..e.clone() });
    }
    if !e.keep {
        out.push(EndSpec { keep: true, ..e.clone() });
    }
    if e.drain_mode != DrainMode::Plain {
        out.push(EndSpec { drain_mode: DrainMode::Plain, ..e.clone() });
    }
    if let Some(b) = e.drain {
        if b != 4096 {
            out.push(EndSpec { drain: Some(4096), ..e.clone() });
        }
    }
    out
}

impl Property for C02 {
    const ID: &'static str = "C02";
    const LEVEL: &'static str = "fault_enumeration";
    type Scenario = Scenario;

    fn rule() -> String {
        "seeded simulations of 2-3 hosts with 1-3 TCP connections (remote by IP / by name, same host via its own address, 127.0.0.1 / ::1; IPv4 and IPv6; tcp_capacity in {1,2,3,8,64}); each direction carries 0-4 KiB of position-coded bytes written in generated chunks (0/1-byte writes, write, try_write, writable+try_write) and read with generated buffer sizes (0, 1, ...) with peek / poll_peek interleaved, on plain, split, reunited streams, both directions concurrently; ends finish by shutdown, by dropping the owned write half, by dropping the stream after EOF or with unread data, or keep the stream. Schedules/faults: (i) turmoil's seeded latencies with min<max (segments overtake), hold/release and partition/repair imposed at seeded steps; (ii) owned delivery: every link held, the controller delivers one in-flight message per step through Sim::links in rounds, each round in a scenario-given permutation; `variants` enumerates ALL permutations of the rounds that hold 2-4 messages. Oracle: online prefix check of every read/peek against the bytes the peer's writes accepted, EOF only after the writer closed and everything was read, nothing after ConnectionReset, errors only when an abortive close or a partition allows them; liveness (no partition, holds released, no read side dropped before EOF, reader keeps reading) when nothing moves any more for ceil(max_latency/tick)+3 steps: every accepted byte read, writer not stuck, EOF observed. Non-trivial: a segment was delivered before an earlier one of the same direction, or a writer hit backpressure (WouldBlock / Pending), or a FIN was delivered while data of its direction was still in flight; distinct = digest of (mode, op kinds, outcome kinds). Added later: a throw-away connection before the judged one on the same address pair; hold-repair-release scripts; single writes of 64-90 KiB; shutdown followed by drop of the owned write half; writes whose first poll happens in a helper task that is cancelled while blocked (waker handover). Round 11: an end that drops its stream while the peer's write side is still open but nothing the peer wrote is unread closes its outbound direction gracefully (the peer must still read everything and end-of-file although its own later write is reset; judged when that write certainly left after everything had arrived); several connections accepted by one listener (one local port on the accepting host).".into()
    }
    fn components_real() -> Vec<&'static str> {
        vec!["turmoil: Sim::step/host/hold/release/partition/repair/links + SentRef::deliver, net::TcpListener, net::TcpStream (read/write/try_write/writable/peek/poll_peek/shutdown/into_split/reunite/drop), host.rs stream table, reorder buffer and flow-control credits, top.rs links with seeded latencies"]
    }
    fn components_stub() -> Vec<&'static str> {
        vec!["host programs (op lists interpreted by one generic async fn per end: a read program and a write program running concurrently) and the controller script / delivery order"]
    }
    fn assumptions() -> Vec<String> {
        vec![
            "liveness is judged only for connections on which no end drops its read side before it observed end-of-file (otherwise a reset may legitimately cut the stream short), without any partition, with every hold released".into(),
            "a connection refused although no partition was imposed is reported as a harness error here (pairing/refusal is C12's subject)".into(),
            "the former known finding O2 (FIN reaching a full receive queue) is fixed in /repo (650a8d3) and no longer avoided; the probe fin_arrived_queue_full counts how often the trigger is reached".into(),
            "a drop of the read side counts as graceful when EOF was observed OR when the peer has closed its write side and every byte it wrote was consumed (only its FIN is unread, queued or still in flight)".into(),
            "no generator guard: the finding late-fin-answered-with-rst (an end that never reads the EOF drops its stream while the peer's FIN is still in flight) is fixed in /repo (601df31); the probe dropped_with_only_the_fin_unread counts the situation".into(),
        ]
    }
    fn budget(tier: Tier) -> u64 {
        match tier {
            Tier::Quick => 800_000,
            Tier::Thorough => 8_000_000,
        }
    }

    fn generate(rng: &mut Rng, _idx: u64, _tier: Tier) -> Scenario {
        gen_scenario(rng)
    }

    /// Fault enumeration: all delivery permutations of the (first two) rounds with 2..=4 messages.
    fn variants(base: &Scenario, tier: Tier) -> Vec<Scenario> {
        let mut out = vec![base.clone()];
        let Mode::Owned { perms } = &base.mode else { return out };
        if !base.enumerate {
            return out;
        }
        let (_, info) = execute(base, false);
        let mut picked = 0;
        let max_rounds = if tier == Tier::Quick { 2 } else { 3 };
        // prefer the larger rounds
        let mut order: Vec<usize> = (0..info.round_sizes.len()).filter(|r| (2..=4).contains(&info.round_sizes[*r])).collect();
        order.sort_by_key(|r| std::cmp::Reverse(info.round_sizes[*r]));
        for r in order {
            if picked >= max_rounds {
                break;
            }
            picked += 1;
            let k = info.round_sizes[r];
            let base_order = apply_code(&(0..k).collect::<Vec<_>>(), perms.get(r).map(|v| v.as_slice()).unwrap_or(&[]));
            for code in all_codes(k) {
                if apply_code(&(0..k).collect::<Vec<_>>(), &code) == base_order {
                    continue;
                }
                let mut p = perms.clone();
                while p.len() <= r {
                    p.push(Vec::new());
                }
                p[r] = code;
                out.push(Scenario { mode: Mode::Owned { perms: p }, enumerate: false, ..base.clone() });
            }
        }
        out
    }

    fn run(sc: &Scenario, keep: bool) -> Report {
        execute(sc, keep).0
    }

    fn shrink(sc: &Scenario) -> Vec<Scenario> {
        let mut out: Vec<Scenario> = Vec::new();
        if sc.conns.len() > 1 {
            for i in 0..sc.conns.len() {
                let mut c = sc.clone();
                c.conns.remove(i);
                out.push(c);
            }
        }
        for i in 0..sc.script.len() {
            let mut c = sc.clone();
            c.script.remove(i);
            out.push(c);
        }
        if sc.hosts == 3 && sc.conns.iter().all(|c| c.client < 2 && c.server < 2) && sc.script.iter().all(|(_, a)| a.hosts().0 < 2 && a.hosts().1 < 2) {
            out.push(Scenario { hosts: 2, ..sc.clone() });
        }
        for ci in 0..sc.conns.len() {
            for side in 0..2 {
                for e in shrink_end(sc.conns[ci].end(side)) {
                    let mut c = sc.clone();
                    *c.conns[ci].end_mut(side) = e;
                    out.push(c);
                }
            }
            if let Some(p) = &sc.conns[ci].prelude {
                let mut c = sc.clone();
                c.conns[ci].prelude = None;
                out.push(c);
                if p.segs > 0 || p.client_reads || p.gap > 0 {
                    for q in [Prelude { segs: 0, ..p.clone() }, Prelude { client_reads: false, ..p.clone() }, Prelude { gap: 0, ..p.clone() }] {
                        if q != *p {
                            let mut c = sc.clone();
                            c.conns[ci].prelude = Some(q);
                            out.push(c);
                        }
                    }
                }
            }
            if sc.conns[ci].connect_delay > 1 {
                let mut c = sc.clone();
                c.conns[ci].connect_delay = 1;
                out.push(c);
            }
            if sc.conns[ci].via == Via::RemoteByName {
                let mut c = sc.clone();
                c.conns[ci].via = Via::Remote;
                out.push(c);
            }
            if sc.conns[ci].bind_localhost {
                let mut c = sc.clone();
                c.conns[ci].bind_localhost = false;
                out.push(c);
            }
        }
        if let Mode::Owned { perms } = &sc.mode {
            if !perms.is_empty() {
                out.push(Scenario { mode: Mode::Owned { perms: Vec::new() }, ..sc.clone() });
                for i in 0..perms.len() {
                    if !perms[i].is_empty() {
                        let mut p = perms.clone();
                        p[i] = Vec::new();
                        out.push(Scenario { mode: Mode::Owned { perms: p }, ..sc.clone() });
                    }
                }
            }
            out.push(Scenario { mode: Mode::Latency, ..sc.clone() });
        }
        let mut cfgs = Vec::new();
        if sc.cfg.random_order {
            cfgs.push(SimCfg { random_order: false, ..sc.cfg.clone() });
        }
        if sc.cfg.ipv6 {
            cfgs.push(SimCfg { ipv6: false, ..sc.cfg.clone() });
        }
        if sc.cfg.latency_curve_milli.is_some() {
            cfgs.push(SimCfg { latency_curve_milli: None, ..sc.cfg.clone() });
        }
        if sc.cfg.min_latency_us != sc.cfg.max_latency_us {
            cfgs.push(SimCfg { max_latency_us: sc.cfg.min_latency_us, ..sc.cfg.clone() });
        }
        if sc.cfg.max_latency_us > sc.cfg.tick_us {
            cfgs.push(SimCfg { min_latency_us: sc.cfg.tick_us, max_latency_us: sc.cfg.tick_us, ..sc.cfg.clone() });
        }
        if sc.cfg.tick_us != 1000 {
            let f = |x: u64| x / sc.cfg.tick_us * 1000;
            cfgs.push(SimCfg { tick_us: 1000, min_latency_us: f(sc.cfg.min_latency_us), max_latency_us: f(sc.cfg.max_latency_us), ..sc.cfg.clone() });
        }
        for c in [64usize, 8, 3, 2] {
            if c > sc.cfg.tcp_capacity {
                cfgs.push(SimCfg { tcp_capacity: c, ..sc.cfg.clone() });
            }
        }
        for cfg in cfgs {
            out.push(Scenario { cfg, ..sc.clone() });
        }
        out
    }

    fn signature(sc: &Scenario) -> String {
        let ex = o2_exposed(sc);
        let conns: Vec<String> = sc
            .conns
            .iter()
            .map(|c| {
                format!(
                    "{:?}[c:{:?} w{} {:?}{} r{} {}|s:{:?} w{} {:?}{} r{} {}]",
                    c.via,
                    c.c.form,
                    c.c.segs(),
                    c.c.fin,
                    if c.c.keep { " keep" } else { "" },
                    c.c.rops.len(),
                    if c.c.drain.is_some() { match c.c.drain_mode { DrainMode::Plain => "drain", DrainMode::PeekFirst => "peekdrain", DrainMode::Exact => "exact" } } else { "stop" },
                    c.s.form,
                    c.s.segs(),
                    c.s.fin,
                    if c.s.keep { " keep" } else { "" },
                    c.s.rops.len(),
                    if c.s.drain.is_some() { match c.s.drain_mode { DrainMode::Plain => "drain", DrainMode::PeekFirst => "peekdrain", DrainMode::Exact => "exact" } } else { "stop" }
                )
            })
            .collect();
        format!(
            "{}{}{} {} cap={} lat={}..{}us tick={}us script={:?} {}",
            if ex.is_empty() { "" } else { "O2-EXPOSED " },
            if late_fin_exposed(sc).is_empty() { "" } else { "LATE-FIN-EXPOSED " },
            if sc.guarded { "G" } else { "U" },
            match &sc.mode {
                Mode::Latency => "latency".to_string(),
                Mode::Owned { perms } => format!("owned{:?}", perms),
            },
            sc.cfg.tcp_capacity,
            sc.cfg.min_latency_us,
            sc.cfg.max_latency_us,
            sc.cfg.tick_us,
            sc.script,
            conns.join(" ")
        )
    }

    fn known_match(matcher: &str, sc: &Scenario, v: &Violation) -> bool {
        match matcher {
            // O2: a FIN that becomes deliverable while the reader's receive queue holds tcp_capacity
            // unread data segments stays in the reorder buffer for good: all bytes arrive, EOF never does
            KF_O2 => v.class == "NoEof" && parse_cd(&v.message).map(|cd| o2_exposed(sc).contains(&cd)).unwrap_or(false),
            // a FIN that arrives after its receiver dropped the stream (everything consumed, graceful) is
            // answered with a RST: the sender's stream is reset instead of ending with EOF
            KF_LATE_FIN => v.class == "SpuriousError" && !late_fin_exposed(sc).is_empty(),
            _ => false,
        }
    }
}

#[cfg(test)]
mod tests {
    use super::*;

    fn end(wlens: &[u16], fin: Fin, rops: Vec<ROp>, drain: Option<u16>) -> EndSpec {
        EndSpec { form: Form::Plain, wops: wlens.iter().map(|l| WOp::Write { len: *l, how: WHow::Write }).collect(), fin, fin_delay: 0, rops, drain, drain_mode: DrainMode::Plain, linger: 0, keep: false }
    }

    fn base(cap: usize, c: EndSpec, s: EndSpec) -> Scenario {
        let cfg = SimCfg { tcp_capacity: cap, min_latency_us: 1000, max_latency_us: 1000, ..SimCfg::default() };
        Scenario { cfg, guarded: false, hosts: 2, conns: vec![ConnSpec { prelude: None, client: 0, server: 1, via: Via::Remote, bind_localhost: false, connect_delay: 1, c, s }], mode: Mode::Latency, script: vec![], enumerate: false, shared_listener: false }
    }

    /// the oracle accepts the plain ping-pong of /repo's own tests
    #[test]
    fn clean_transfer_is_quiet() {
        crate::core::install_panic_hook();
        let sc = base(64, end(&[5, 0, 1, 300], Fin::Shutdown, vec![ROp::Peek { buf: 4 }, ROp::Read { buf: 0 }, ROp::Read { buf: 1 }], Some(7)), end(&[100], Fin::Shutdown, vec![], Some(1)));
        let r = C02::run(&sc, true);
        assert!(r.violation.is_none(), "{:?}\n{}", r.violation, r.log.join("\n"));
        assert!(r.harness_error.is_none(), "{:?}", r.harness_error);
        assert!(r.probes.get("eof_observed") == 2, "{:?}", r.probes);
    }

    #[test]
    fn guard_predicate() {
        let sc = base(2, end(&[1, 1], Fin::Shutdown, vec![], Some(8)), end(&[], Fin::Shutdown, vec![], Some(8)));
        assert_eq!(o2_exposed(&sc), vec![(0, 0)]);
        let sc = base(3, end(&[1, 1], Fin::Shutdown, vec![], Some(8)), end(&[], Fin::Shutdown, vec![], Some(8)));
        assert!(o2_exposed(&sc).is_empty());
        assert_eq!(parse_cd("[c=1 d=0] conn 1"), Some((1, 0)));
    }
}
