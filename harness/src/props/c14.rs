//! C14 — messages arrive within the configured latency window, in order on equal latency.

use crate::core::prng::Rng;
use crate::core::{Property, Report, Tier, Violation};
use crate::simkit::links::{self, Act, Conn, EvKind, LatModel, Msg, Net, Sel, UdpBurst};
use crate::simkit::{CfgProfile, SimCfg};
use serde::{Deserialize, Serialize};
use std::collections::BTreeMap;

#[derive(Clone, Debug, Serialize, Deserialize)]
pub struct Scenario {
    pub net: Net,
}

pub struct C14;

pub fn gen_sel(rng: &mut Rng, i: usize) -> Sel {
    match rng.below(4) {
        0 | 1 => Sel::Name(i),
        2 => Sel::IpStr(i),
        _ => Sel::Ip(i),
    }
}

pub fn gen_set(rng: &mut Rng, n: usize) -> Sel {
    if rng.chance(1, 4) {
        return Sel::All;
    }
    let mut v: Vec<usize> = (0..n).filter(|_| rng.bool()).collect();
    if v.is_empty() {
        v.push(rng.usize(0, n - 1));
    }
    Sel::Set(v)
}

fn gen_pair_sels(rng: &mut Rng, n: usize) -> (Sel, Sel) {
    let a = rng.usize(0, n - 1);
    let mut b = rng.usize(0, n - 2);
    if b >= a {
        b += 1;
    }
    match rng.below(6) {
        0 => (gen_set(rng, n), gen_sel(rng, b)),
        1 => (gen_sel(rng, a), gen_set(rng, n)),
        2 => (gen_set(rng, n), gen_set(rng, n)),
        _ => (gen_sel(rng, a), gen_sel(rng, b)),
    }
}

/// Seeded traffic: numbered datagram bursts and framed TCP connections between random ordered pairs,
/// send instants anywhere (whole milliseconds) in [start_ms, horizon_ms]. `start_ms` must be at least
/// one tick: every host binds its sockets during its first turn, and a zero-latency message sent in
/// step 1 could reach a host before that turn.
pub fn gen_traffic(rng: &mut Rng, n: usize, start_ms: u64, horizon_ms: u64, bursts: usize, conns: usize) -> (Vec<UdpBurst>, Vec<Conn>) {
    let pair = |rng: &mut Rng| {
        let a = rng.usize(0, n - 1);
        let mut b = rng.usize(0, n - 2);
        if b >= a {
            b += 1;
        }
        (a, b)
    };
    let mut udp = Vec::new();
    for _ in 0..bursts {
        let (from, to) = pair(rng);
        udp.push(UdpBurst { from, to, at_ms: rng.range(start_ms, horizon_ms.max(start_ms)), count: if rng.bool() { 1 } else { rng.range(2, 5) as u32 }, by_ip: rng.chance(1, 3) });
    }
    let mut cs = Vec::new();
    for _ in 0..conns {
        let (from, to) = pair(rng);
        let at_ms = rng.range(start_ms, horizon_ms.max(start_ms));
        let ops = |rng: &mut Rng| -> Vec<(u64, u32)> { (0..rng.below(4)).map(|_| (rng.range(at_ms, horizon_ms.max(at_ms)), rng.range(1, 3) as u32)).collect() };
        let c2s = ops(rng);
        let s2c = ops(rng);
        cs.push(Conn {
            from,
            to,
            at_ms,
            c2s,
            s2c,
            fin_c: if rng.chance(1, 3) { Some(rng.range(at_ms, horizon_ms.max(at_ms) + 3)) } else { None },
            fin_s: if rng.chance(1, 4) { Some(rng.range(at_ms, horizon_ms.max(at_ms) + 3)) } else { None },
            by_ip: rng.chance(1, 3),
            drop_c: None,
        });
    }
    (udp, cs)
}

/// Make the configured socket capacities sufficient for the workload (documented limits of the
/// subject: full UDP queues drop, full accept queues panic, full stream queues stall the FIN).
pub fn fit_capacities(rng: &mut Rng, net: &mut Net) {
    let (u, t) = links::capacity_needs(net);
    net.cfg.udp_capacity = if rng.chance(1, 3) { u } else { u.max(64) };
    net.cfg.tcp_capacity = if rng.chance(1, 3) { t } else { t.max(64) };
}

fn socket_key(m: &Msg) -> (u8, u32, u32) {
    match m {
        Msg::Udp { from, to, .. } => (0, *from as u32, *to as u32),
        Msg::Syn { conn } => (1, *conn as u32, 0), // refined by direction below
        Msg::Data { conn, dir, .. } | Msg::Fin { conn, dir } => (2, *conn as u32, *dir as u32),
    }
}

impl Property for C14 {
    const ID: &'static str = "C14";
    const LEVEL: &'static str = "exploration";
    type Scenario = Scenario;

    fn rule() -> String {
        "seeded simulations of 2-4 hosts on healthy links (fail_rate 0, no partitions/holds): numbered UDP datagrams (bursts of 1-5 within one instant) and framed single-segment TCP messages incl. SYNs and FINs between random ordered pairs, send instants at any whole millisecond inside a step, tick 1-20 ms, global min/max latency (aligned and unaligned, fixed and ranges), latency curve, random host order on/off, IPv4/IPv6; the controller applies 0-4 overrides before the first step or mid-run: set_link_latency / set_link_max_message_latency by name, IP string, IpAddr or regex host sets, set_max_message_latency, set_message_latency_curve. Oracle (reference latency timeline keyed by global event order): every message is received; receipt.sim_elapsed - send.sim_elapsed lies in [min_eff - tick, max_eff + tick] where (min_eff,max_eff) is the per-link override in force at the send event, else the global pair (TCP data/FIN upper bound: the latest bound of any earlier segment of the same stream direction, since a stream is read in order); messages to one socket sent under the same fixed latency are received in send order. Non-trivial: an override was applied mid-run with a later send on that link, or >=2 messages from one host to another within one step; distinct = digest of (message kind, delay in ticks, which setting applied). Added later: Sim::set_link_fail_rate(a, b, 0.0) and Sim::set_fail_rate(0.0) among the overrides (links stay healthy; no latency setting may change through them).".into()
    }
    fn components_real() -> Vec<&'static str> {
        vec!["turmoil: Builder, Sim::step/host/links setters (set_link_latency, set_link_max_message_latency, set_max_message_latency, set_message_latency_curve), Topology/Link (latency sampling, maturing, delivery), net::UdpSocket, net::TcpListener/TcpStream, per-host clocks (sim_elapsed)"]
    }
    fn components_stub() -> Vec<&'static str> {
        vec!["host programs (datagram bursts, framed TCP connections, receivers that log) and the controller script"]
    }
    fn assumptions() -> Vec<String> {
        vec![
            "a TCP stream is read in order, so the upper bound of a data segment / FIN is the latest upper bound among it and the earlier segments of the same stream direction".into(),
            "send instants are whole milliseconds (granularity of the hosts' paused tokio clocks); ticks are whole milliseconds".into(),
            "traffic starts in the second step: every host binds its sockets during its first turn, a message reaching a host before that is refused by the socket layer, not by the link".into(),
            "a per-link maximum below the link's minimum is not generated (the builder rejects such a pair as invalid)".into(),
            "order is judged per receiving socket (one UDP socket, one listener, one stream direction): receipts on different sockets of a host are scheduled by its runtime, not by the link".into(),
        ]
    }
    fn budget(tier: Tier) -> u64 {
        match tier {
            Tier::Quick => 300_000,
            Tier::Thorough => 6_000_000,
        }
    }

    fn generate(rng: &mut Rng, _idx: u64, _tier: Tier) -> Scenario {
        let mut cfg = SimCfg::gen(rng, &CfgProfile::default());
        cfg.fail_rate_pm = 0;
        cfg.repair_rate_pm = 1000;
        let n = rng.usize(2, 4);
        let tick_ms = cfg.tick_us / 1000;
        let horizon_ticks = rng.range(2, 20);
        let horizon_ms = horizon_ticks * tick_ms;
        let bursts = rng.usize(1, 10);
        let nconns = *rng.pick(&[0usize, 0, 1, 1, 2, 3]);
        let (udp, conns) = gen_traffic(rng, n, tick_ms, horizon_ms, bursts, nconns);
        // overrides, kept valid (max >= min on every affected link) by running the reference timeline
        let mut script: Vec<(u32, Act)> = Vec::new();
        let k = *rng.pick(&[0usize, 1, 1, 2, 2, 3, 4]);
        let mut steps_at: Vec<u32> = (0..k).map(|_| if rng.chance(1, 3) { 1 } else { rng.range(1, horizon_ticks + 2) as u32 }).collect();
        steps_at.sort();
        let mut net = Net { cfg, hosts: n, udp, conns, hacts: Vec::new(), script: Vec::new(), steps: 0, sample_links: false, probes: vec![], literal_order: vec![] };
        let mut lat = LatModel::new(&net);
        let mut max_lat = net.cfg.max_latency_us;
        let tick = net.cfg.tick_us;
        for s in steps_at {
            let val = |rng: &mut Rng, floor: u64| -> u64 {
                match rng.below(4) {
                    0 => floor,
                    1 => floor + rng.range(0, 12) * tick,
                    _ => floor + rng.below(12 * tick),
                }
            };
            let act = match rng.below(12) {
                10 => {
                    let (a, b) = gen_pair_sels(rng, n);
                    Act::SetLinkFailRateZero(a, b)
                }
                11 => Act::SetFailRateZero,
                0..=4 => {
                    let (a, b) = gen_pair_sels(rng, n);
                    let v = val(rng, 0);
                    Act::SetLinkLatency(a, b, v)
                }
                5..=7 => {
                    let (a, b) = gen_pair_sels(rng, n);
                    let floor = links::pairs_of(&a, &b, n).iter().map(|(x, y)| lat.eff(*x, *y).0).max().unwrap_or(0);
                    let v = val(rng, floor);
                    Act::SetLinkMaxLatency(a, b, v)
                }
                8 => Act::SetGlobalMax(val(rng, net.cfg.min_latency_us)),
                _ => Act::SetCurve(*rng.pick(&[200u64, 1000, 5000, 50_000])),
            };
            lat.apply(&act);
            match &act {
                Act::SetLinkLatency(_, _, v) | Act::SetLinkMaxLatency(_, _, v) | Act::SetGlobalMax(v) => max_lat = max_lat.max(*v),
                _ => {}
            }
            script.push((s, act));
        }
        net.script = script;
        fit_capacities(rng, &mut net);
        net.steps = ((links::last_op_ms(&net) * 1000) / tick + 3 * (max_lat.div_ceil(tick) + 2) + 4) as u32;
        Scenario { net }
    }

    fn run(sc: &Scenario, keep: bool) -> Report {
        let net = &sc.net;
        let (tr, mut log) = links::execute(net, keep);
        let tick = net.cfg.tick_us;
        let mut rep = Report::default();
        let mut violation: Option<Violation> = None;
        if let Some(p) = &tr.panic {
            violation = Some(Violation::new("Panic", format!("panic while running the simulation: {p}")));
        } else if let Some(e) = &tr.step_err {
            violation = Some(Violation::new("StepError", e.clone()));
        }
        let ix = links::index(net, &tr);

        // effective latency window at every send event (reference timeline, event order)
        let mut lat = LatModel::new(net);
        let mut eff_at: BTreeMap<usize, (u64, u64, bool)> = BTreeMap::new();
        let mut overrides_mid_run: Vec<(u64, Vec<(usize, usize)>)> = Vec::new();
        for (i, e) in tr.evs.iter().enumerate() {
            match &e.kind {
                EvKind::Act(a) => {
                    if lat.apply(a) {
                        rep.faults.inc(a.kind());
                        if a.uses_sets() {
                            rep.probes.inc("override_by_regex");
                        }
                        if e.step >= 1 {
                            let pairs = match a {
                                Act::SetGlobalMax(_) => (0..net.hosts).flat_map(|x| (0..net.hosts).filter(move |y| *y != x).map(move |y| (x, y))).collect(),
                                _ => a.pairs(net.hosts),
                            };
                            overrides_mid_run.push((e.seq, pairs));
                        }
                    }
                }
                EvKind::Send(m) => {
                    let (f, t) = links::direction(net, m);
                    let (lo, hi) = lat.eff(f, t);
                    eff_at.insert(i, (lo, hi, lat.over.contains_key(&(f.min(t), f.max(t)))));
                }
                _ => {}
            }
        }

        let mut nontrivial = false;
        let mut burst_seen: BTreeMap<(usize, usize, u32), u32> = BTreeMap::new();
        // stream directions: running upper bound (head-of-line)
        let mut hol: BTreeMap<(u16, u8), u64> = BTreeMap::new();
        // per socket and fixed latency value: receipts must follow send order
        let mut last_recv: BTreeMap<((u8, u32, u32), usize, usize, u64), (u64, Msg)> = BTreeMap::new();
        let mut udp_last_recv: BTreeMap<(usize, usize), u64> = BTreeMap::new();

        for mi in &ix.msgs {
            let send = &tr.evs[mi.send];
            let (lo, hi, overridden) = eff_at[&mi.send];
            *burst_seen.entry((mi.from, mi.to, send.step)).or_insert(0) += 1;
            if send.t % tick != 0 {
                rep.probes.inc("send_inside_a_step");
            }
            if overrides_mid_run.iter().any(|(seq, pairs)| *seq < send.seq && pairs.iter().any(|(x, y)| (*x == mi.from && *y == mi.to) || (*x == mi.to && *y == mi.from))) {
                nontrivial = true;
                rep.probes.inc("send_after_mid_run_override");
            }
            let bound_hi = match mi.msg {
                Msg::Data { conn, dir, .. } | Msg::Fin { conn, dir } => {
                    let h = hol.entry((conn, dir)).or_insert(0);
                    *h = (*h).max(send.t + hi);
                    *h
                }
                _ => send.t + hi,
            };
            log.tag(match mi.msg {
                Msg::Udp { .. } => "u",
                Msg::Syn { .. } => "s",
                Msg::Data { .. } => "d",
                Msg::Fin { .. } => "f",
            });
            log.tag(if !overridden {
                "g"
            } else if lo == hi {
                "of"
            } else {
                "om"
            });
            if violation.is_some() {
                continue;
            }
            let Some(&r0) = mi.recvs.first() else {
                // judged only when the run covered the whole window (a shortened run proves nothing)
                if (tr.steps_done as u64) * tick < bound_hi + 2 * tick {
                    continue;
                }
                let what = match mi.msg {
                    Msg::Syn { conn } => match ix.conn_err.get(&conn) {
                        Some(e) => format!("; the connect failed with {:?}", tr.evs[*e].kind),
                        None => String::new(),
                    },
                    _ => String::new(),
                };
                violation = Some(Violation::new(
                    "Lost",
                    format!("{:?} sent h{}->h{} at event {} (t={}us, step {}) on a healthy link was never received within {} steps (window [{},{}]us){}", mi.msg, mi.from, mi.to, send.seq, send.t, send.step, tr.steps_done, lo, hi, what),
                ));
                continue;
            };
            let recv = &tr.evs[r0];
            log.tag_u64(((recv.t as i64 - send.t as i64).div_euclid(tick as i64) + 2) as u64);
            if recv.t < send.t {
                rep.probes.inc("receipt_before_send_instant");
            }
            if (recv.t as i64) < send.t as i64 + lo as i64 - tick as i64 {
                violation = Some(Violation::new(
                    "TooEarly",
                    format!(
                        "{:?} h{}->h{} sent at t={}us (event {}, step {}) received at t={}us (event {}, step {}): delay {}us is below min {}us - tick {}us (window in force at the send: [{},{}]us, {})",
                        mi.msg, mi.from, mi.to, send.t, send.seq, send.step, recv.t, recv.seq, recv.step, recv.t as i64 - send.t as i64, lo, tick, lo, hi, if overridden { "per-link override" } else { "global" }
                    ),
                ));
                continue;
            }
            if recv.t > bound_hi + tick {
                violation = Some(Violation::new(
                    "TooLate",
                    format!(
                        "{:?} h{}->h{} sent at t={}us (event {}, step {}) received at t={}us (event {}, step {}): later than {}us + tick {}us (window in force at the send: [{},{}]us, {})",
                        mi.msg, mi.from, mi.to, send.t, send.seq, send.step, recv.t, recv.seq, recv.step, bound_hi, tick, lo, hi, if overridden { "per-link override" } else { "global" }
                    ),
                ));
                continue;
            }
            // order under equal (fixed) latency, per receiving socket
            if lo == hi {
                let mut key = socket_key(&mi.msg);
                if let Msg::Syn { .. } = mi.msg {
                    key = (1, 0, 0);
                }
                let k = (key, mi.from, mi.to, lo);
                if let Some((prev_seq, prev_msg)) = last_recv.get(&k) {
                    if *prev_seq > recv.seq {
                        violation = Some(Violation::new(
                            "Reordered",
                            format!(
                                "h{}->h{} under fixed latency {}us: {:?} was sent before {:?} (send event {}) but received after it (receipt events {} > {})",
                                mi.from, mi.to, lo, prev_msg, mi.msg, send.seq, prev_seq, recv.seq
                            ),
                        ));
                        continue;
                    }
                }
                last_recv.insert(k, (recv.seq, mi.msg));
            }
            if let Msg::Udp { .. } = mi.msg {
                let e = udp_last_recv.entry((mi.from, mi.to)).or_insert(0);
                if *e > recv.seq {
                    rep.probes.inc("datagram_overtaken");
                }
                *e = (*e).max(recv.seq);
            }
        }
        if violation.is_none() {
            // nothing unexpected may show up on healthy links: failed connects, I/O errors, receipts of unknown messages
            if let Some((c, e)) = ix.conn_err.iter().next() {
                violation = Some(Violation::new("Lost", format!("connect of connection {c} failed on a healthy link: {:?}", tr.evs[*e].kind)));
            } else if let Some(o) = ix.oddities.first() {
                let e = &tr.evs[*o];
                // an accept whose connector has not run yet at the end of the run is not an oddity worth judging
                if !matches!(e.kind, EvKind::Accept { .. }) {
                    violation = Some(Violation::new("Unexpected", format!("unexpected observation at event {} (step {}): {:?}", e.seq, e.step, e.kind)));
                }
            }
        }
        if burst_seen.values().any(|c| *c >= 2) {
            nontrivial = true;
            rep.probes.inc("burst_within_one_step");
        }
        if net.cfg.min_latency_us == net.cfg.max_latency_us {
            rep.probes.inc("fixed_global_latency");
        }
        if net.cfg.random_order {
            rep.probes.inc("random_host_order");
        }
        rep.faults.add("messages_delayed", ix.msgs.len() as u64);
        rep.abstract_digest = log.abs_digest();
        rep.full_digest = log.full_digest();
        rep.log = std::mem::take(&mut log.lines);
        rep.violation = violation;
        rep.harness_error = tr.harness_error.clone();
        rep.nontrivial = nontrivial && !ix.msgs.is_empty();
        rep.steps = tr.steps_done as u64;
        rep.sim_ms = tr.steps_done as u64 * tick / 1000;
        rep
    }

    fn shrink(sc: &Scenario) -> Vec<Scenario> {
        let mut out: Vec<Scenario> = links::shrink_net(&sc.net).into_iter().map(|net| Scenario { net }).collect();
        // fixed-latency variants keep max >= min valid only if no per-link max override is below the new min: re-validate
        out.retain(valid);
        out
    }

    fn signature(sc: &Scenario) -> String {
        let n = &sc.net;
        format!(
            "tick={} lat=[{},{}] curve={:?} rnd={} udp={} conns={} script={:?}",
            n.cfg.tick_us,
            n.cfg.min_latency_us,
            n.cfg.max_latency_us,
            n.cfg.latency_curve_milli,
            n.cfg.random_order,
            n.udp.len(),
            n.conns.len(),
            n.script.iter().map(|(s, a)| format!("{s}:{}", a.kind())).collect::<Vec<_>>()
        )
    }
}

/// max >= min must hold on every link at every moment (otherwise the configuration is invalid and
/// the subject is entitled to reject it).
fn valid(sc: &Scenario) -> bool {
    let net = &sc.net;
    if net.cfg.max_latency_us < net.cfg.min_latency_us {
        return false;
    }
    let mut lat = LatModel::new(net);
    let mut script = net.script.clone();
    script.sort_by_key(|(s, _)| *s);
    for (_, a) in &script {
        lat.apply(a);
        if lat.global.1 < lat.global.0 || lat.over.values().any(|(lo, hi)| hi < lo) {
            return false;
        }
    }
    true
}

#[cfg(test)]
mod tests {
    use super::*;

    #[test]
    fn lat_model_precedence() {
        let net = Net { cfg: SimCfg { min_latency_us: 2000, max_latency_us: 5000, ..SimCfg::default() }, hosts: 3, udp: vec![], conns: vec![], hacts: vec![], script: vec![], steps: 1, sample_links: false, probes: vec![], literal_order: vec![] };
        let mut m = LatModel::new(&net);
        assert_eq!(m.eff(0, 1), (2000, 5000));
        m.apply(&Act::SetLinkMaxLatency(Sel::Name(1), Sel::Name(0), 9000));
        assert_eq!(m.eff(0, 1), (2000, 9000));
        assert_eq!(m.eff(0, 2), (2000, 5000));
        m.apply(&Act::SetGlobalMax(7000));
        assert_eq!(m.eff(0, 1), (2000, 9000));
        assert_eq!(m.eff(2, 0), (2000, 7000));
        m.apply(&Act::SetLinkLatency(Sel::All, Sel::Name(2), 1000));
        assert_eq!(m.eff(1, 2), (1000, 1000));
        assert_eq!(m.eff(0, 1), (2000, 9000));
    }

    /// Sanity gate (DESIGN 9.5): turmoil's own `override_link_latency` scenario passes the oracle,
    /// and the receipts show the 2 ms and 10 ms the test asserts.
    #[test]
    fn repo_scenario_passes_the_oracle() {
        let cfg = SimCfg { min_latency_us: 2000, max_latency_us: 2000, tick_us: 1000, ..SimCfg::default() };
        let udp = vec![UdpBurst { from: 1, to: 0, at_ms: 2, count: 1, by_ip: false }, UdpBurst { from: 1, to: 0, at_ms: 12, count: 1, by_ip: false }];
        let net = Net { cfg, hosts: 2, udp, conns: vec![], hacts: vec![], script: vec![(10, Act::SetLinkLatency(Sel::Name(1), Sel::Name(0), 10_000))], steps: 40, sample_links: false, probes: vec![], literal_order: vec![] };
        let rep = C14::run(&Scenario { net }, true);
        assert!(rep.violation.is_none(), "{:?}", rep.violation);
        assert!(rep.log.iter().any(|l| l.contains("t=4000 h0 Recv(Udp { from: 1, to: 0, seq: 0 })")), "{}", rep.log.join("\n"));
        assert!(rep.log.iter().any(|l| l.contains("t=22000 h0 Recv(Udp { from: 1, to: 0, seq: 1 })")), "{}", rep.log.join("\n"));
    }
}
