//! C10 — without a crash the simulated filesystem behaves like a plain POSIX file tree.

use crate::core::prng::Rng;
use crate::core::{Log, Property, Report, Tier, Violation};
use crate::fskit::model::{Model, Obs, EK};
use crate::fskit::{exec_model, model_sweep, obs_brief, Front, FsKnobs, FsOp, RealFs, DIRS_FOR_SYNC, PATHS};
use serde::{Deserialize, Serialize};

#[derive(Clone, Debug, Serialize, Deserialize)]
pub struct Scenario {
    /// true = generated with the known-defect triggers avoided (see `Guard`)
    pub guarded: bool,
    pub fs_seed: u64,
    /// (host, op): hosts have independent trees with identical path names
    pub ops: Vec<(u8, FsOp)>,
    /// the histories run as host programs inside a turmoil::Sim (every other one with the hosts taking their
    /// turns in a seeded random order) instead of on directly driven filesystems
    #[serde(default)]
    pub in_sim: bool,
}

pub struct C10;

/// State-aware generator shared with C07. `m` is the model of the host the op is generated for.
pub struct Gen<'a> {
    pub rng: &'a mut Rng,
    pub guarded: bool,
    pub tag: u32,
    pub allow_tokio: bool,
}

impl<'a> Gen<'a> {
    fn front(&mut self) -> Front {
        if self.allow_tokio && self.rng.chance(1, 3) {
            Front::Tokio
        } else {
            Front::Std
        }
    }
    fn any_path(&mut self) -> String {
        self.rng.pick(PATHS).to_string()
    }
    fn existing(&mut self, m: &Model, want_dir: Option<bool>) -> Option<String> {
        let mut c: Vec<&str> = PATHS
            .iter()
            .copied()
            .filter(|p| match want_dir {
                None => m.exists(p),
                Some(true) => m.is_dir(p),
                Some(false) => m.is_file(p),
            })
            .collect();
        if c.is_empty() {
            return None;
        }
        // mostly pick something that exists, sometimes anything
        if self.rng.chance(1, 8) {
            return Some(self.any_path());
        }
        let i = self.rng.below(c.len() as u64) as usize;
        Some(c.swap_remove(i).to_string())
    }
    fn creatable(&mut self, m: &Model) -> String {
        // a missing name whose parent exists, most of the time
        let c: Vec<&str> = PATHS
            .iter()
            .copied()
            .filter(|p| !m.exists(p) && m.lookup_parent(p).is_ok())
            .collect();
        if c.is_empty() || self.rng.chance(1, 6) {
            return self.any_path();
        }
        self.rng.pick(&c).to_string()
    }
    fn handle(&mut self, m: &Model) -> Option<u8> {
        let hs: Vec<u8> = m.handles.keys().copied().collect();
        if hs.is_empty() {
            None
        } else {
            Some(*self.rng.pick(&hs))
        }
    }
    fn next_tag(&mut self) -> u32 {
        self.tag += 1;
        self.tag
    }

    /// The write-temp / sync / rename-over / sync_dir idiom (atomic replace of a file), with seeded
    /// omissions in the unguarded slice. Each op still goes through the model and the guards of the caller.
    pub fn idiom_atomic_replace(&mut self) -> Vec<FsOp> {
        let (dir, dst, tmp, mk) = match self.rng.below(3) {
            0 => ("/", "/a", "/b", false),
            1 => ("/", "/b", "/a", false),
            _ => ("/d1", "/d1/a", "/d1/b", true),
        };
        let mut v = Vec::new();
        if mk {
            v.push(FsOp::CreateDir { path: "/d1".into(), front: self.front() });
            v.push(FsOp::SyncDir { path: "/".into(), front: self.front() });
        }
        let file = |g: &mut Self, h: u8, path: &str, v: &mut Vec<FsOp>| {
            v.push(FsOp::Open { h, path: path.into(), read: false, write: true, append: false, truncate: true, create: true, create_new: false, front: g.front() });
            let tag = g.next_tag();
            v.push(FsOp::Write { h, len: g.rng.range(1, 12) as u32, tag });
            v.push(if g.rng.bool() { FsOp::SyncAll { h } } else { FsOp::SyncData { h } });
            v.push(FsOp::Close { h });
        };
        file(self, 0, dst, &mut v);
        v.push(FsOp::SyncDir { path: dir.into(), front: self.front() });
        file(self, 1, tmp, &mut v);
        v.push(FsOp::SyncDir { path: dir.into(), front: self.front() });
        v.push(FsOp::Rename { from: tmp.into(), to: dst.into(), front: self.front() });
        v.push(FsOp::SyncDir { path: dir.into(), front: self.front() });
        if !self.guarded {
            // drop one of the syncs now and then (lands in the territory of the known findings)
            let syncs: Vec<usize> = v.iter().enumerate().filter(|(_, o)| matches!(o, FsOp::SyncDir { .. } | FsOp::SyncAll { .. } | FsOp::SyncData { .. })).map(|(i, _)| i).collect();
            let k = *self.rng.pick(&syncs);
            v.remove(k);
        }
        v
    }

    /// Generate one op for model state `m` (does not apply it).
    pub fn op(&mut self, m: &Model, gs: &GuardState) -> FsOp {
        if self.guarded {
            if let Some((d, _)) = gs.must_sync.iter().next() {
                // the name of a durable file that was just removed is taken again (and given up again)
                if let Some(p) = gs.removed_file.clone().filter(|p| if m.exists(p) { self.rng.chance(7, 8) } else { self.rng.chance(1, 3) }) {
                    let open_h = m.handles.iter().find(|(_, x)| m.lookup(&p) == Ok(x.ino)).map(|(h, _)| *h);
                    let op = if !m.exists(&p) {
                        let h = (0..4u8).find(|h| !m.handles.contains_key(h)).unwrap_or(0);
                        let create_new = self.rng.chance(1, 3);
                        FsOp::Open { h, path: p, read: self.rng.bool(), write: true, append: false, truncate: true, create: !create_new, create_new, front: self.front() }
                    } else if let Some(h) = open_h {
                        FsOp::Close { h }
                    } else {
                        FsOp::RemoveFile { path: p, front: self.front() }
                    };
                    if guard_violation(m, gs, &op).is_none() {
                        let mut probe = m.clone();
                        if exec_model(&mut probe, &op) != Obs::Unjudged {
                            return op;
                        }
                    }
                }
                // mostly flush at once; sometimes look at the tree first or rename the file on
                if self.rng.chance(1, 4) {
                    for _ in 0..10 {
                        if let Some(op) = self.try_op(m) {
                            if matches!(op, FsOp::ReadWhole { .. } | FsOp::Metadata { .. } | FsOp::Exists { .. } | FsOp::ReadDir { .. } | FsOp::Rename { .. }) && guard_violation(m, gs, &op).is_none() {
                                let mut probe = m.clone();
                                if exec_model(&mut probe, &op) != Obs::Unjudged {
                                    return op;
                                }
                            }
                        }
                    }
                    if let Some(p) = gs.removed_dir_in.clone() {
                        if self.rng.chance(1, 2) {
                            let op = FsOp::RemoveDir { path: p, front: self.front() };
                            if guard_violation(m, gs, &op).is_none() {
                                return op;
                            }
                        }
                    }
                    if let Some(p) = gs.renamed_to.clone() {
                        if self.rng.chance(1, 3) {
                            let op = FsOp::RemoveFile { path: p, front: self.front() };
                            if guard_violation(m, gs, &op).is_none() {
                                return op;
                            }
                        }
                    }
                    if let Some(from) = gs.renamed_to.clone() {
                        let to = self.creatable(m);
                        let op = FsOp::Rename { from, to, front: self.front() };
                        if guard_violation(m, gs, &op).is_none() {
                            return op;
                        }
                    }
                }
                return FsOp::SyncDir { path: d.clone(), front: self.front() };
            }
        }
        for _ in 0..50 {
            if let Some(op) = self.try_op(m) {
                if !self.guarded || guard_violation(m, gs, &op).is_none() {
                    // never generate ops the model cannot judge
                    let mut probe = m.clone();
                    if exec_model(&mut probe, &op) == Obs::Unjudged {
                        continue;
                    }
                    return op;
                }
            }
        }
        FsOp::Advance { ms: 1 }
    }

    fn try_op(&mut self, m: &Model) -> Option<FsOp> {
        // weights: open close write_at read_at write read seek set_len sync_all sync_data handle_len
        //          sync_dir rename remove_file create_dir create_dir_all remove_dir remove_dir_all
        //          read_dir metadata exists read_whole write_whole advance
        let w = [14, 4, 12, 8, 6, 5, 3, 7, 5, 3, 2, 7, 9, 6, 7, 2, 3, 2, 4, 4, 2, 4, 3, 2, 4, 3, 2];
        let k = self.rng.weighted(&w);
        Some(match k {
            0 => {
                let h = self.rng.below(4) as u8;
                let create_new = self.rng.chance(1, 8);
                let create = !create_new && self.rng.chance(1, 2);
                let path = if create || create_new {
                    if self.rng.chance(2, 3) {
                        self.creatable(m)
                    } else {
                        self.existing(m, Some(false)).unwrap_or_else(|| self.any_path())
                    }
                } else {
                    self.existing(m, Some(false)).unwrap_or_else(|| self.any_path())
                };
                let mode = self.rng.below(5);
                // valid std::fs::OpenOptions combinations only
                let (read, write, append) = match mode {
                    0 => (true, false, false),
                    1 => (false, true, false),
                    2 => (true, true, false),
                    3 => (false, false, true),
                    _ => (true, false, true),
                };
                let wants_write = write || append;
                let (create, create_new) = if wants_write { (create, create_new) } else { (false, false) };
                let truncate = write && !append && self.rng.chance(1, 4);
                FsOp::Open { h, path, read, write, append, truncate, create, create_new, front: self.front() }
            }
            1 => {
                // every fourth time, where a write-only append handle is open: try_clone it into another slot
                let ap: Vec<u8> = m.handles.iter().filter(|(_, h)| h.append && !h.read).map(|(k, _)| *k).collect();
                if !ap.is_empty() && self.rng.chance(1, 4) {
                    let h = *self.rng.pick(&ap);
                    let new = (h + 1 + self.rng.below(3) as u8) % 4;
                    FsOp::TryClone { h, new }
                } else {
                    FsOp::Close { h: self.handle(m)? }
                }
            }
            2 => {
                let h = self.handle(m)?;
                FsOp::WriteAt { h, off: self.rng.below(20), len: self.rng.range(0, 12) as u32, tag: self.next_tag() }
            }
            3 => FsOp::ReadAt { h: self.handle(m)?, off: self.rng.below(24), len: self.rng.range(0, 32) as u32 },
            4 => FsOp::Write { h: self.handle(m)?, len: self.rng.range(0, 10) as u32, tag: self.next_tag() },
            5 => FsOp::Read { h: self.handle(m)?, len: self.rng.range(0, 16) as u32 },
            6 => {
                let whence = self.rng.below(3) as u8;
                let off = match whence {
                    0 => self.rng.below(24) as i64,
                    _ => self.rng.range(0, 16) as i64 - 8,
                };
                FsOp::Seek { h: self.handle(m)?, whence, off }
            }
            7 => FsOp::SetLen { h: self.handle(m)?, len: self.rng.below(24) },
            8 => FsOp::SyncAll { h: self.handle(m)? },
            9 => FsOp::SyncData { h: self.handle(m)? },
            10 => FsOp::HandleLen { h: self.handle(m)? },
            11 => {
                let path = if self.rng.chance(5, 6) {
                    let c: Vec<&str> = DIRS_FOR_SYNC.iter().copied().filter(|p| m.is_dir(p)).collect();
                    self.rng.pick(&c).to_string()
                } else {
                    self.any_path()
                };
                FsOp::SyncDir { path, front: self.front() }
            }
            12 => {
                let from = self.existing(m, None)?;
                let to = if self.rng.chance(1, 2) { self.creatable(m) } else { self.any_path() };
                FsOp::Rename { from, to, front: self.front() }
            }
            13 => FsOp::RemoveFile { path: self.existing(m, Some(false))?, front: self.front() },
            14 => FsOp::CreateDir { path: self.creatable(m), front: self.front() },
            15 => FsOp::CreateDirAll { path: self.any_path(), front: self.front() },
            16 => FsOp::RemoveDir { path: self.existing(m, Some(true))?, front: self.front() },
            17 => FsOp::RemoveDirAll { path: self.existing(m, Some(true))?, front: self.front() },
            18 => {
                let path = if self.rng.chance(1, 4) { "/".to_string() } else { self.existing(m, Some(true)).unwrap_or("/".into()) };
                FsOp::ReadDir { path, front: self.front() }
            }
            19 => FsOp::Metadata { path: self.any_path(), front: self.front() },
            20 => FsOp::Exists { path: self.any_path() },
            21 => FsOp::ReadWhole { path: self.existing(m, Some(false))?, front: self.front() },
            22 => {
                let path = if self.rng.bool() { self.creatable(m) } else { self.existing(m, Some(false))? };
                FsOp::WriteWhole { path, len: self.rng.range(0, 12) as u32, tag: self.next_tag(), front: self.front() }
            }
            23 => FsOp::Advance { ms: self.rng.range(1, 5000) as u32 },
            // io_uring front-end. The ring looks only at the fd, not at the access mode the file was
            // opened with, so ring ops are generated only where the mode allows the operation.
            24 => {
                let hs: Vec<u8> = m.handles.iter().filter(|(_, h)| h.write && !h.append).map(|(k, _)| *k).collect();
                if hs.is_empty() {
                    return None;
                }
                FsOp::RingWrite { h: *self.rng.pick(&hs), off: self.rng.below(20), len: self.rng.range(1, 12) as u32, tag: self.next_tag() }
            }
            25 => {
                let hs: Vec<u8> = m.handles.iter().filter(|(_, h)| h.read).map(|(k, _)| *k).collect();
                if hs.is_empty() {
                    return None;
                }
                FsOp::RingRead { h: *self.rng.pick(&hs), off: self.rng.below(24), len: self.rng.range(1, 32) as u32 }
            }
            _ => FsOp::RingFsync { h: self.handle(m)? },
        })
    }
}

/// Guard state carried along a history: directories that must be synced before anything else happens
/// (turmoil-fs's view is only right once a rename/remove has been flushed by `sync_dir`), with the
/// known finding that explains why.
#[derive(Clone, Debug, Default)]
pub struct GuardState {
    pub must_sync: std::collections::BTreeMap<String, &'static str>,
    /// torn writes replay every pending write of a path, so with a block size configured (C07) even a
    /// truncating re-creation does not hide the removed file's unsynced writes
    pub strict_remove: bool,
    /// destination of the rename that is still unsynced (a quiescent file may be renamed on in a chain)
    pub renamed_to: Option<String>,
    /// parent of the directory whose removal is still unsynced (that parent may be removed next)
    pub removed_dir_in: Option<String>,
    /// path of the file whose removal is still unsynced, if that file was quiescent (data and entry durable)
    /// and handle-free when it was removed: its name may be taken once more by a truncating create, and
    /// that new file may be closed and removed again before the directory is flushed
    pub removed_file: Option<String>,
    /// the directory removed last while its removal is still unsynced
    pub last_removed_dir: Option<String>,
    /// directories whose removal can never be flushed any more, because their parent was removed before it was
    /// (bottom-up removal): the stale pending removal hits whatever is created under that name later
    pub stale_dirs: Vec<String>,
}

pub const KF_HANDLE: &str = "open-handle-across-rename-or-unlink";
pub const KF_RENAME: &str = "rename-with-unsynced-state";
pub const KF_REMOVE: &str = "remove-with-unsynced-state";
pub const KF_RENAME_DIR: &str = "rename-nonempty-directory";
pub const ALL_KF: &[&str] = &[KF_HANDLE, KF_RENAME, KF_REMOVE, KF_RENAME_DIR];

fn parent_of(p: &str) -> String {
    match p.rfind('/') {
        Some(0) | None => "/".to_string(),
        Some(i) => p[..i].to_string(),
    }
}

fn has_open_handle(m: &Model, path: &str) -> bool {
    match m.lookup(path) {
        Ok(ino) => m.handles.values().any(|h| h.ino == ino),
        Err(_) => false,
    }
}

/// Is the object at `path` quiescent: no unsynced data and its directory entry durable?
/// (a missing path is trivially quiescent)
fn quiescent(m: &Model, path: &str) -> bool {
    let Ok(ino) = m.lookup(path) else { return true };
    let Ok((parent, name)) = m.lookup_parent(path) else { return false };
    if m.snapshots.get(&ino).map(|v| !v.is_empty()).unwrap_or(false) {
        return false;
    }
    m.durable_entries.get(&parent).and_then(|e| e.get(name)) == Some(&ino)
}

/// Guard predicates. `Some(name)` = the op, in model state `m`, steps on a *known* defect of
/// turmoil-fs (the finding with that matcher name in /verif/known_findings.json). Guarded scenarios
/// never contain such an op, so every mismatch they produce is a new violation; unguarded scenarios
/// rely on `known_match`, which applies the same predicate to the minimised history.
pub fn guard_violation(m: &Model, gs: &GuardState, op: &FsOp) -> Option<&'static str> {
    if !gs.stale_dirs.is_empty() {
        let made: Option<&String> = match op {
            FsOp::CreateDir { path, .. } | FsOp::CreateDirAll { path, .. } | FsOp::WriteWhole { path, .. } => Some(path),
            FsOp::Open { path, create, create_new, .. } if *create || *create_new => Some(path),
            FsOp::Rename { to, .. } => Some(to),
            _ => None,
        };
        if let Some(p) = made {
            // (the name itself, something below it, or a directory above it that went with it)
            if gs.stale_dirs.iter().any(|s| p == s || p.starts_with(&format!("{s}/")) || s.starts_with(&format!("{p}/"))) {
                return Some(KF_REMOVE);
            }
        }
    }
    if let Some((_, why)) = gs.must_sync.iter().next() {
        return match op {
            FsOp::SyncDir { path, .. } if gs.must_sync.contains_key(path) => None,
            FsOp::Advance { .. } => None,
            // looking at the tree is fine while a rename / remove is unsynced
            FsOp::ReadWhole { .. } | FsOp::Metadata { .. } | FsOp::Exists { .. } | FsOp::ReadDir { .. } => None,
            // so is renaming the same (quiescent, handle-free) file on to a fresh name: a chain a -> b -> c
            // (inside one directory only: sync_dir flushes the renames that touch *its* directory, so a
            // chain that wanders through several directories is flushed out of order — known finding)
            FsOp::Rename { from, to, .. }
                if gs.renamed_to.as_deref() == Some(from.as_str())
                    && m.is_file(from)
                    && !m.exists(to)
                    && from != to
                    && !m.stale_paths.contains(to)
                    && parent_of(from) == parent_of(to)
                    && gs.must_sync.len() == 1
                    && gs.must_sync.contains_key(&parent_of(from)) =>
            {
                None
            }
            // removing an (empty, quiescent) directory right after its last sub-directory, bottom-up
            FsOp::RemoveDir { path, .. }
                if gs.removed_dir_in.as_deref() == Some(path.as_str())
                    && m.is_dir(path)
                    && quiescent(m, path)
                    && path != "/"
                    && gs.must_sync.len() == 1
                    && gs.must_sync.contains_key(path)
                    && gs.must_sync.values().all(|w| *w == KF_REMOVE) =>
            {
                None
            }
            // re-using the name of the (durable, handle-free) file that was just removed: truncating create,
            // close, remove again — all before the directory is flushed
            FsOp::Open { path, truncate: true, write: true, create, create_new, .. }
                if gs.removed_file.as_deref() == Some(path.as_str()) && !m.exists(path) && (*create || *create_new) && gs.must_sync.len() == 1 && gs.must_sync.values().all(|w| *w == KF_REMOVE) =>
            {
                None
            }
            FsOp::Close { h } if gs.removed_file.is_some() && m.handles.get(h).map(|x| m.lookup(gs.removed_file.as_deref().unwrap()) == Ok(x.ino)).unwrap_or(false) => None,
            FsOp::RemoveFile { path, .. }
                if gs.removed_file.as_deref() == Some(path.as_str()) && m.is_file(path) && !has_open_handle(m, path) && gs.must_sync.len() == 1 && gs.must_sync.values().all(|w| *w == KF_REMOVE) =>
            {
                None
            }
            // ... and removing the (quiescent, handle-free) file under its new name, inside that one directory
            FsOp::RemoveFile { path, .. }
                if gs.renamed_to.as_deref() == Some(path.as_str())
                    && m.is_file(path)
                    && !has_open_handle(m, path)
                    && gs.must_sync.len() == 1
                    && gs.must_sync.contains_key(&parent_of(path))
                    && gs.must_sync.values().all(|w| *w == KF_RENAME) =>
            {
                None
            }
            _ => Some(why),
        };
    }
    match op {
        FsOp::Rename { from, to, .. } => {
            let Ok(src) = m.lookup(from) else { return None };
            if from == to {
                return None;
            }
            if m.stale_paths.contains(to) || m.stale_paths.contains(from) {
                return Some(KF_REMOVE);
            }
            if has_open_handle(m, from) || has_open_handle(m, to) {
                return Some(KF_HANDLE);
            }
            if let crate::fskit::model::Inode::Dir { entries } = &m.inodes[src] {
                if !entries.is_empty() {
                    return Some(KF_RENAME_DIR);
                }
            }
            if !quiescent(m, from) || !quiescent(m, to) {
                return Some(KF_RENAME);
            }
            None
        }
        FsOp::RemoveFile { path, .. } => {
            // removing a file with unsynced state is fine as long as the name is only re-used by a
            // truncating create (tracked in `m.stale_paths`, see the Open / Rename arms)
            if m.is_file(path) && has_open_handle(m, path) {
                return Some(KF_HANDLE);
            }
            if gs.strict_remove && m.is_file(path) && !quiescent(m, path) {
                return Some(KF_REMOVE);
            }
            None
        }
        FsOp::Open { path, truncate, write, create, create_new, .. } => {
            if m.stale_paths.contains(path) && !m.exists(path) && (*create || *create_new) && !(*truncate && *write) {
                return Some(KF_REMOVE);
            }
            None
        }
        FsOp::CreateDir { path, .. } | FsOp::CreateDirAll { path, .. } => {
            if m.stale_paths.iter().any(|p| p == path || path.starts_with(&format!("{p}/"))) {
                return Some(KF_REMOVE);
            }
            None
        }
        FsOp::RemoveDir { path, .. } => {
            if m.is_dir(path) && !quiescent(m, path) {
                return Some(KF_REMOVE);
            }
            None
        }
        FsOp::RemoveDirAll { path, .. } => {
            // the removals of the children can never be flushed (their parent is gone), so their
            // stale pending ops hit whatever is created under the same names later
            if m.is_dir(path) {
                for (p, _, _) in m.walk() {
                    if p.starts_with(&format!("{}/", path)) {
                        if has_open_handle(m, &p) {
                            return Some(KF_HANDLE);
                        }
                        return Some(KF_REMOVE);
                    }
                }
                if !quiescent(m, path) {
                    return Some(KF_REMOVE);
                }
            }
            None
        }
        _ => None,
    }
}

/// Advance the guard state over an op that the model has just accepted with outcome `mo`.
pub fn guard_step(gs: &mut GuardState, op: &FsOp, mo: &Obs, after: &Model) {
    match op {
        FsOp::SyncDir { path, .. } => {
            gs.must_sync.remove(path);
            if gs.must_sync.is_empty() {
                gs.renamed_to = None;
                gs.removed_dir_in = None;
                gs.removed_file = None;
                gs.last_removed_dir = None;
            }
        }
        FsOp::Rename { from, to, .. } if *mo == Obs::Unit && from != to => {
            gs.must_sync.insert(parent_of(from), KF_RENAME);
            gs.must_sync.insert(parent_of(to), KF_RENAME);
            gs.renamed_to = Some(to.clone());
        }
        FsOp::RemoveFile { path, .. } | FsOp::RemoveDir { path, .. } | FsOp::RemoveDirAll { path, .. } if *mo == Obs::Unit => {
            let first_remove = gs.must_sync.is_empty();
            if matches!(op, FsOp::RemoveDir { .. }) {
                if gs.removed_dir_in.as_deref() == Some(path.as_str()) {
                    // the parent goes before the child's removal was flushed
                    if let Some(child) = gs.last_removed_dir.take() {
                        gs.stale_dirs.push(child);
                    }
                }
                gs.last_removed_dir = Some(path.clone());
            } else {
                gs.last_removed_dir = None;
            }
            gs.must_sync.insert(parent_of(path), KF_REMOVE);
            gs.removed_dir_in = if matches!(op, FsOp::RemoveDir { .. }) { Some(parent_of(path)) } else { None };
            // was the removed file durable in data and entry, and free of handles? (the durable image still
            // holds its entry: the removal is unsynced)
            gs.removed_file = None;
            if first_remove && matches!(op, FsOp::RemoveFile { .. }) {
                if let Ok((parent, name)) = after.lookup_parent(path) {
                    if let Some(ino) = after.durable_entries.get(&parent).and_then(|e| e.get(name)) {
                        let clean = !after.snapshots.get(ino).map(|v| !v.is_empty()).unwrap_or(false);
                        let free = !after.handles.values().any(|h| h.ino == *ino);
                        if clean && free && !after.stale_paths.contains(path) {
                            gs.removed_file = Some(path.clone());
                        }
                    }
                }
            }
        }
        _ => {}
    }
}

pub fn first_guard_violation(ops: &[FsOp]) -> Option<&'static str> {
    let mut m = Model::new();
    let mut gs = GuardState::default();
    for op in ops {
        if let Some(k) = guard_violation(&m, &gs, op) {
            return Some(k);
        }
        let mo = exec_model(&mut m, op);
        if mo == Obs::Unjudged {
            break;
        }
        guard_step(&mut gs, op, &mo, &m);
    }
    None
}

pub fn compare(model: &Obs, real: &Obs) -> Option<(&'static str, String)> {
    match (model, real) {
        (Obs::Unjudged, _) => None,
        (Obs::Err(mk), Obs::Err(rk)) => {
            // kinds are compared where POSIX leaves no doubt; ENOTDIR/EISDIR/EINVAL/EBADF-style errors
            // only need to be errors
            let strict = matches!(mk, EK::NotFound | EK::AlreadyExists | EK::DirectoryNotEmpty);
            if strict && mk != rk {
                Some(("ErrorKind", format!("expected error kind {:?}, got {:?}", mk, rk)))
            } else {
                None
            }
        }
        (a, b) if a == b => None,
        (a, b) => Some(("OutcomeMismatch", format!("expected {}, got {}", obs_brief(a), obs_brief(b)))),
    }
}

impl Property for C10 {
    const ID: &'static str = "C10";
    const LEVEL: &'static str = "exploration";
    type Scenario = Scenario;

    fn rule() -> String {
        "seeded state-aware histories of 4-28 filesystem ops (open flag combinations, write_at/read_at with holes and overlaps, cursor read/write/seek, set_len both ways, rename onto new/existing names and across directories, remove+re-create, create_dir(_all)/remove_dir(_all), read_dir, metadata, sync_all/sync_data/sync_dir anywhere, virtual time advancing) over 10 nested path names on 1-2 hosts through the std shim, the tokio shim and io_uring; after EVERY op the return value and a full sweep (exists/kind/len/content/entry set of every path) are compared with an inode-based POSIX reference tree; each base history is also run with all sync ops deleted. Non-trivial: the history contains >=1 overwrite or truncate of existing data and >=1 namespace change (rename/remove) that succeeded; distinct = distinct digests of the (op kind, outcome kind) sequence. Added later: two-host scenarios run once more as host programs inside one turmoil::Sim (every other one with the hosts taking their turns in seeded random order); the name of a durable, handle-free file that was just removed is taken again by a truncating create, closed and removed again before the directory is flushed; bottom-up directory removals; the atomic-replace idiom. Round 11: try_clone of write-only append handles.".into()
    }
    fn components_real() -> Vec<&'static str> {
        vec!["turmoil-fs: Fs, enter/EnterCtx, shim::std::fs (File, OpenOptions, FileExt, free functions), shim::tokio::fs"]
    }
    fn components_stub() -> Vec<&'static str> {
        vec!["the workload (operation histories) and the caller of turmoil_fs::enter (normally turmoil::Sim's host tick); tokio shim futures are polled once with a no-op waker (no io latency configured)"]
    }
    fn assumptions() -> Vec<String> {
        vec![
            "all fault probabilities are 0 and no io latency / page cache is configured (the property's premise)".into(),
            "error kinds are compared for NotFound/AlreadyExists/IsADirectory/NotADirectory/DirectoryNotEmpty; for other errors only Ok-vs-Err".into(),
            "read-only opens of directories, symlinks, hard links, permissions and timestamps are not generated (outside the property)".into(),
            "io_uring ops (write/read/fsync SQEs pushed, submitted and reaped at once) are generated only on handles whose open mode allows the operation (the ring sees only the fd)".into(),
        ]
    }
    fn budget(tier: Tier) -> u64 {
        match tier {
            Tier::Quick => 200_000,
            Tier::Thorough => 3_000_000,
        }
    }

    fn generate(rng: &mut Rng, _idx: u64, _tier: Tier) -> Scenario {
        let guarded = !rng.chance(1, 20);
        let hosts = if rng.chance(1, 5) { 2 } else { 1 };
        let n = rng.usize(4, 28);
        let fs_seed = rng.next_u64();
        let mut models: Vec<Model> = (0..hosts).map(|_| Model::new()).collect();
        let mut gss: Vec<GuardState> = (0..hosts).map(|_| GuardState::default()).collect();
        let mut ops = Vec::new();
        let mut g = Gen { rng, guarded, tag: 0, allow_tokio: true };
        for _ in 0..n {
            let h = g.rng.below(hosts as u64) as usize;
            let op = g.op(&models[h], &gss[h]);
            let mo = exec_model(&mut models[h], &op);
            guard_step(&mut gss[h], &op, &mo, &models[h]);
            ops.push((h as u8, op));
        }
        Scenario { guarded, fs_seed, ops, in_sim: false }
    }

    fn variants(base: &Scenario, _tier: Tier) -> Vec<Scenario> {
        let mut v = vec![base.clone()];
        if base.ops.iter().any(|(_, o)| o.is_sync()) {
            // metamorphic twin: the same history with every sync deleted must give the same
            // observations. It is unguarded by construction (the guards rely on syncs).
            let mut t = base.clone();
            t.guarded = false;
            t.ops.retain(|(_, o)| !o.is_sync());
            v.push(t);
        }
        if base.guarded && base.ops.iter().any(|(h, _)| *h == 1) && base.ops.iter().any(|(h, _)| *h == 0) {
            // two hosts: the same histories once more as host programs inside one simulation
            let mut t = base.clone();
            t.in_sim = true;
            v.push(t);
        }
        v
    }

    fn run(sc: &Scenario, keep: bool) -> Report {
        if sc.in_sim {
            let list = |h: u8| -> Vec<FsOp> { sc.ops.iter().filter(|(x, o)| *x == h && !matches!(o, FsOp::Crash)).map(|(_, o)| o.clone()).collect() };
            let sc7 = crate::props::c07::Scenario {
                guarded: sc.guarded,
                knobs: FsKnobs { sync_pct: 0, block_size: 0, fs_seed: sc.fs_seed },
                ops: list(0),
                in_sim: true,
                ops2: list(1),
                finish_before_crash: false,
                crash_all: false,
            };
            let mut r = crate::props::c07::run_in_sim(&sc7, keep);
            r.probes.inc("two_hosts_as_programs_inside_one_simulation");
            return r;
        }
        let mut log = Log::new(keep);
        let hosts = sc.ops.iter().map(|(h, _)| *h as usize + 1).max().unwrap_or(1);
        let mut reals: Vec<RealFs> =
            (0..hosts).map(|i| RealFs::new(&FsKnobs { sync_pct: 0, block_size: 0, fs_seed: sc.fs_seed.wrapping_add(i as u64) })).collect();
        let mut models: Vec<Model> = (0..hosts).map(|_| Model::new()).collect();
        let mut violation = None;
        let mut overwrote = false;
        let mut ns_change = false;
        let mut syncs = 0u64;
        let mut harness_error = None;
        'run: for (i, (h, op)) in sc.ops.iter().enumerate() {
            let h = *h as usize;
            if matches!(op, FsOp::Crash) {
                continue;
            }
            // non-triviality bookkeeping (from the model, before the op)
            match op {
                FsOp::WriteAt { h: hh, off, .. } => {
                    if let Some(hd) = models[h].handles.get(hh) {
                        if (*off as usize) < models[h].file_data(hd.ino).len() {
                            overwrote = true;
                        }
                    }
                }
                FsOp::SetLen { h: hh, len } => {
                    if let Some(hd) = models[h].handles.get(hh) {
                        if (*len as usize) < models[h].file_data(hd.ino).len() {
                            overwrote = true;
                        }
                    }
                }
                _ => {}
            }
            let mo = exec_model(&mut models[h], op);
            if mo == Obs::Unjudged {
                // outside the property: stop judging this run here
                log.ev(format!("h{h} #{i} {:?} -> unjudged by the model; run ends", op));
                break;
            }
            let ro = match reals[h].exec(op) {
                Ok(o) => o,
                Err(e) => {
                    harness_error = Some(e);
                    break;
                }
            };
            if op.is_sync() {
                syncs += 1;
            }
            if matches!(op, FsOp::Rename { .. } | FsOp::RemoveFile { .. } | FsOp::RemoveDir { .. } | FsOp::RemoveDirAll { .. }) && mo == Obs::Unit {
                ns_change = true;
            }
            log.ev(format!("h{h} #{i} {:?} -> {}", op, obs_brief(&ro)));
            log.tag(op.kind());
            log.tag(match &ro {
                Obs::Err(_) => "err",
                _ => "ok",
            });
            if let Some((class, msg)) = compare(&mo, &ro) {
                violation = Some(Violation::new(class, format!("host {h} op #{i} {:?}: {msg}", op)));
                break;
            }
            // full sweep of every host (the op on host h must not change host h')
            for hh in 0..hosts {
                let rs = reals[hh].sweep();
                let ms = model_sweep(&models[hh]);
                if rs != ms {
                    for (p, me) in &ms {
                        let re = &rs[p];
                        if re != me {
                            let class = if hh != h {
                                "CrossHost"
                            } else if op.is_sync() || matches!(op, FsOp::Advance { .. }) {
                                "SyncOrTimeChangedView"
                            } else {
                                "ViewMismatch"
                            };
                            violation = Some(Violation::new(
                                class,
                                format!("after host {h} op #{i} {:?}: host {hh} path {p}: expected {:?}, observed {:?}", op, me, re),
                            ));
                            break 'run;
                        }
                    }
                }
            }
        }
        let mut r = Report::from_log(log);
        r.violation = violation;
        r.harness_error = harness_error;
        r.nontrivial = overwrote && ns_change;
        r.steps = sc.ops.len() as u64;
        r.faults.add("sync_inserted_mid_history", syncs);
        if hosts > 1 {
            r.probes.inc("two_hosts_same_paths");
        }
        r
    }

    fn shrink(sc: &Scenario) -> Vec<Scenario> {
        shrink_ops(&sc.ops)
            .into_iter()
            .map(|ops| Scenario { guarded: sc.guarded, fs_seed: sc.fs_seed, ops, in_sim: sc.in_sim })
            // a guarded scenario stays guarded while shrinking, so the minimiser cannot slide from a
            // new violation into a known one
            .filter(|c| !sc.guarded || !ALL_KF.iter().any(|k| Self::known_match(k, c, &Violation::new("", ""))))
            .collect()
    }

    fn signature(sc: &Scenario) -> String {
        let k = ALL_KF.iter().find(|k| Self::known_match(k, sc, &Violation::new("", ""))).map(|k| format!("KNOWN[{k}] ")).unwrap_or_default();
        format!("{}{} {}", k, if sc.guarded { "G" } else { "U" }, sc.ops.iter().map(|(_, o)| o.kind()).collect::<Vec<_>>().join(","))
    }

    fn known_match(matcher: &str, sc: &Scenario, v: &Violation) -> bool {
        let hosts = sc.ops.iter().map(|(h, _)| *h as usize + 1).max().unwrap_or(1);
        (0..hosts).any(|h| {
            let ops: Vec<FsOp> = sc.ops.iter().filter(|(hh, _)| *hh as usize == h).map(|(_, o)| o.clone()).collect();
            known_match_ops(matcher, &ops, v)
        })
    }
}

/// Candidates: drop the tail, drop each single op, drop chunks.
pub fn shrink_ops<T: Clone>(ops: &[T]) -> Vec<Vec<T>> {
    let n = ops.len();
    let mut out = Vec::new();
    if n == 0 {
        return out;
    }
    // halves / quarters
    let mut chunk = n / 2;
    while chunk >= 2 {
        let mut start = 0;
        while start < n {
            let end = (start + chunk).min(n);
            let mut v = ops[..start].to_vec();
            v.extend_from_slice(&ops[end..]);
            out.push(v);
            start += chunk;
        }
        chunk /= 2;
    }
    for i in (0..n).rev() {
        let mut v = ops.to_vec();
        v.remove(i);
        out.push(v);
    }
    out
}

/// A known-finding matcher holds iff the first op of the (minimised) history that violates a guard
/// violates the guard of that name, in the model state in which it executes.
pub fn known_match_ops(matcher: &str, ops: &[FsOp], _v: &Violation) -> bool {
    first_guard_violation(ops) == Some(matcher)
}
