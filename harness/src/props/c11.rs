//! C11 — `Sim::run` succeeds exactly when every client finished Ok in time.

use crate::core::prng::Rng;
use crate::core::{catch, Property, Report, Tier, Violation};
use crate::simkit::{us, CfgProfile, SharedLog, SimCfg};
use serde::{Deserialize, Serialize};
use std::cell::Cell;
use std::rc::Rc;
use std::time::Duration;

#[derive(Clone, Copy, Debug, PartialEq, Eq, Serialize, Deserialize)]
pub enum FateKind {
    Ok,
    Err,
    Never,
    /// panic in the main future
    Panic,
    /// panic in a task spawned with spawn_local by the main future (which itself never finishes)
    PanicSpawned,
    /// panic in a task spawned with tokio::spawn by the main future (which itself never finishes)
    PanicTokioSpawned,
}

#[derive(Clone, Debug, Serialize, Deserialize)]
pub struct Party {
    pub client: bool,
    /// 0 = registered before the first run/step, 1 = registered after the first run (run mode only)
    pub phase: u8,
    pub fate: FateKind,
    /// virtual time after the party's registration at which the fate happens (microseconds, whole ms)
    pub at_us: u64,
}

#[derive(Clone, Debug, Serialize, Deserialize)]
pub struct Scenario {
    pub cfg: SimCfg,
    pub parties: Vec<Party>,
    /// true: call Sim::run (twice when phase-1 parties exist); false: drive Sim::step by hand
    pub run_mode: bool,
    /// step mode: (before step s, crash host i)
    pub crashes: Vec<(u32, usize)>,
    /// step mode: number of steps to drive
    pub steps: u32,
    /// Some: the bounce family instead (one host h0 restarted by Sim::bounce, plus one client)
    #[serde(default)]
    pub bounce: Option<BounceSpec>,
    /// Some: the family without timers instead
    #[serde(default)]
    pub plain: Option<PlainSpec>,
}

/// Clients that use no timer at all: each yields `yields[i]` times and returns Ok; a host never finishes.
/// `tick_us` may lie below one millisecond. Sim::run must return Ok. Then, if `idle_steps` > 0: with every
/// client finished, Sim::step is called that many times (each still counts towards the duration), a client
/// that needs `late_ticks` ticks is registered and Sim::run is called again: it must report the exceeded
/// duration exactly when the clock has passed it before the client is done.
#[derive(Clone, Debug, Serialize, Deserialize)]
pub struct PlainSpec {
    pub tick_us: u64,
    pub yields: Vec<u8>,
    pub idle_steps: u32,
    pub late_ticks: u32,
}

/// Host h0: its first incarnation binds UDP port 9000 in a spawned task that lives on, keeps a
/// background ticker, and either never finishes or returns Ok at `first_ok_at_us`. Before step
/// `bounce_before_step` the host is (optionally crashed and) bounced; the restarted software binds the
/// same port again in its main future and then meets `second` at `second_at_us` after its start.
/// A client finishes Ok at `client_at_us`. Sim::step is driven by hand.
#[derive(Clone, Debug, Serialize, Deserialize)]
pub struct BounceSpec {
    pub first_ok_at_us: Option<u64>,
    pub crash_first: bool,
    pub bounce_before_step: u32,
    pub second: FateKind,
    pub second_at_us: u64,
    pub client_at_us: u64,
}

pub struct C11;

#[derive(Clone, Debug, PartialEq, Eq, Hash, PartialOrd, Ord)]
enum Outcome {
    Ok,
    ErrParty(usize),
    ErrDuration,
    Panic,
}

/// Reference: possible (outcome, steps taken) of one `Sim::run` call that starts after `start_steps`
/// steps, given the parties registered so far (absolute fate instants in `abs_us`). Fates that fall
/// exactly on a step boundary may be attributed to either adjacent step (property text), so every
/// placement is enumerated; two terminal events in one step may surface in either order.
fn predict(tick: u64, duration_us: u64, start_steps: u64, parties: &[(Party, u64)], already_done: &[bool]) -> Vec<(Outcome, u64)> {
    let clients: Vec<usize> = parties.iter().enumerate().filter(|(_, (p, _))| p.client).map(|(i, _)| i).collect();
    if clients.is_empty() {
        return vec![(Outcome::Ok, start_steps)];
    }
    let boundary: Vec<usize> = parties
        .iter()
        .enumerate()
        .filter(|(i, (p, at))| !already_done[*i] && p.fate != FateKind::Never && at % tick == 0)
        .map(|(i, _)| i)
        .collect();
    let mut out = Vec::new();
    let nb = boundary.len().min(12);
    for mask in 0..(1u32 << nb) {
        // step in which each party's fate happens
        let step_of = |i: usize| -> Option<u64> {
            let (p, at) = &parties[i];
            if already_done[i] || p.fate == FateKind::Never {
                return None;
            }
            let base = at.div_ceil(tick).max(1);
            let late = boundary.iter().take(nb).position(|b| *b == i).map(|pos| mask >> pos & 1 == 1).unwrap_or(false);
            // a fate cannot happen before the run starts stepping
            Some((base + late as u64).max(start_steps + 1))
        };
        let mut k = start_steps;
        let res = loop {
            k += 1;
            let mut terminals: Vec<Outcome> = Vec::new();
            for i in 0..parties.len() {
                if step_of(i) == Some(k) {
                    match parties[i].0.fate {
                        FateKind::Err => terminals.push(Outcome::ErrParty(i)),
                        FateKind::Panic | FateKind::PanicSpawned | FateKind::PanicTokioSpawned => terminals.push(Outcome::Panic),
                        _ => {}
                    }
                }
            }
            if !terminals.is_empty() {
                break terminals.into_iter().map(|t| (t, k)).collect::<Vec<_>>();
            }
            let all_done = clients.iter().all(|c| {
                already_done[*c] || (parties[*c].0.fate == FateKind::Ok && step_of(*c).map(|s| s <= k).unwrap_or(false))
            });
            if all_done {
                break vec![(Outcome::Ok, k)];
            }
            if k * tick > duration_us {
                break vec![(Outcome::ErrDuration, k)];
            }
            if k > start_steps + 100_000 {
                break vec![(Outcome::ErrDuration, k)];
            }
        };
        for r in res {
            if !out.contains(&r) {
                out.push(r);
            }
        }
    }
    out
}

#[derive(Clone)]
struct Shared {
    log: SharedLog,
    /// per party: background ticker polls
    ticks: Vec<Rc<Cell<u64>>>,
    /// per party: main future finished (Ok or Err returned)
    done: Vec<Rc<Cell<bool>>>,
}

async fn party_main(sh: Shared, i: usize, p: Party) -> turmoil::Result {
    // background ticker: must stop being polled once the main future is finished / the host crashed
    let t = sh.ticks[i].clone();
    tokio::task::spawn_local(async move {
        loop {
            t.set(t.get() + 1);
            tokio::time::sleep(Duration::from_millis(1)).await;
        }
    });
    match p.fate {
        FateKind::Never => {
            std::future::pending::<()>().await;
            Ok(())
        }
        FateKind::PanicSpawned => {
            let at = p.at_us;
            tokio::task::spawn_local(async move {
                tokio::time::sleep(Duration::from_micros(at)).await;
                panic!("fate-panic-{i}");
            });
            std::future::pending::<()>().await;
            Ok(())
        }
        FateKind::PanicTokioSpawned => {
            let at = p.at_us;
            tokio::spawn(async move {
                tokio::time::sleep(Duration::from_micros(at)).await;
                panic!("fate-panic-{i}");
            });
            std::future::pending::<()>().await;
            Ok(())
        }
        _ => {
            tokio::time::sleep(Duration::from_micros(p.at_us)).await;
            sh.log.ev(format!("p{i} fate {:?} at elapsed={}us", p.fate, us(turmoil::elapsed())));
            match p.fate {
                FateKind::Ok => {
                    sh.done[i].set(true);
                    Ok(())
                }
                FateKind::Err => {
                    sh.done[i].set(true);
                    Err(format!("fate-err-{i}").into())
                }
                _ => panic!("fate-panic-{i}"),
            }
        }
    }
}

fn classify(r: &Result<turmoil::Result, String>) -> (Outcome, String) {
    match r {
        Err(p) => (Outcome::Panic, p.clone()),
        Ok(Ok(())) => (Outcome::Ok, String::new()),
        Ok(Err(e)) => {
            let s = e.to_string();
            if let Some(rest) = s.strip_prefix("fate-err-") {
                (Outcome::ErrParty(rest.parse().unwrap_or(usize::MAX)), s)
            } else if s.starts_with("Ran for duration") {
                (Outcome::ErrDuration, s)
            } else {
                (Outcome::ErrParty(usize::MAX), s)
            }
        }
    }
}

impl Property for C11 {
    const ID: &'static str = "C11";
    const LEVEL: &'static str = "exploration";
    type Scenario = Scenario;

    fn rule() -> String {
        "seeded mixes of 0-3 clients and 0-3 hosts with scripted fates (finish Ok / finish Err / never finish / panic in the main future / panic in a spawned task) at seeded virtual instants incl. exactly on step boundaries and around the duration boundary, any tick, durations that are not multiples of the tick, parties registered before the first run and after an earlier run, random host order on/off; run mode: Sim::run under catch_unwind compared with a reference that enumerates both placements of every boundary fate; step mode: Sim::step driven by hand with hosts crashed at seeded steps: Ok(bool) must equal 'all clients observed finished', nothing is polled after it finished or crashed (background ticker counters frozen). Non-trivial: >=2 parties with different fates; distinct = digest of (fate kinds, outcome kind, steps)".into()
    }
    fn components_real() -> Vec<&'static str> {
        vec!["turmoil: Sim::run, Sim::step, Sim::client/host/crash, Rt::tick (JoinHandle result extraction, unhandled_panic=ShutdownRuntime under --cfg tokio_unstable)"]
    }
    fn components_stub() -> Vec<&'static str> {
        vec!["client/host programs with scripted fates; the controller"]
    }
    fn assumptions() -> Vec<String> {
        vec![
            "built with --cfg tokio_unstable like /repo/.cargo/config.toml (the panic-forwarding clause depends on it)".into(),
            "a fate that coincides exactly with a step boundary may be attributed to either adjacent step; two terminal events (error/panic) in one step may surface in either order".into(),
        ]
    }
    fn budget(tier: Tier) -> u64 {
        match tier {
            Tier::Quick => 400_000,
            Tier::Thorough => 2_000_000,
        }
    }

    fn generate(rng: &mut Rng, _idx: u64, _tier: Tier) -> Scenario {
        let mut cfg = SimCfg::gen(rng, &CfgProfile::default());
        cfg.fail_rate_pm = 0;
        let tick_ms = cfg.tick_us / 1000;
        // duration: a few ticks, often not a multiple of the tick
        let dur_ms = match rng.below(3) {
            0 => tick_ms * rng.range(1, 12),
            _ => tick_ms * rng.range(1, 12) + rng.below(tick_ms.max(1)),
        }
        .max(1);
        // sometimes a duration shorter than one tick (the duration is crossed inside the very first step)
        let dur_ms = if tick_ms >= 2 && rng.chance(1, 8) { rng.range(1, tick_ms - 1) } else { dur_ms };
        cfg.duration_ms = dur_ms;
        if rng.chance(1, 12) {
            let sub = rng.bool();
            let spec = PlainSpec {
                tick_us: if sub { *rng.pick(&[250u64, 999, 500]) } else { tick_ms.max(1) * 1000 },
                yields: (0..rng.usize(1, 3)).map(|_| rng.range(0, 5) as u8).collect(),
                idle_steps: if sub { 0 } else { rng.range(0, 12) as u32 },
                late_ticks: rng.range(1, 4) as u32,
            };
            cfg.tick_us = spec.tick_us;
            cfg.duration_ms = if sub { 3_600_000 } else { tick_ms.max(1) * rng.range(3, 10) };
            return Scenario { cfg, parties: vec![], run_mode: true, crashes: vec![], steps: 0, bounce: None, plain: Some(spec) };
        }
        if rng.chance(1, 6) {
            cfg.duration_ms = 3_600_000;
            let steps = rng.range(8, 30) as u32;
            let b = rng.range(2, steps as u64 - 3) as u32;
            let spec = BounceSpec {
                first_ok_at_us: if rng.chance(1, 2) { Some(rng.range(1, (b as u64 + 2) * tick_ms.max(1)) * 1000) } else { None },
                crash_first: rng.chance(1, 2),
                bounce_before_step: b,
                second: *rng.pick(&[FateKind::Ok, FateKind::Never, FateKind::Err, FateKind::Panic, FateKind::PanicSpawned, FateKind::PanicTokioSpawned]),
                second_at_us: rng.range(1, ((steps - b) as u64).max(2) * tick_ms.max(1)) * 1000,
                client_at_us: rng.range(1, steps as u64 * tick_ms.max(1)) * 1000,
            };
            return Scenario { cfg, parties: vec![], run_mode: false, crashes: vec![], steps, bounce: Some(spec), plain: None };
        }
        let run_mode = rng.chance(2, 3);
        let n = rng.usize(0, 5);
        let mut parties = Vec::new();
        for _ in 0..n {
            let client = rng.chance(1, 2);
            let fate = match rng.below(10) {
                0..=4 => FateKind::Ok,
                5 => FateKind::Err,
                6 | 7 => FateKind::Never,
                8 => FateKind::Panic,
                _ => {
                    if rng.bool() {
                        FateKind::PanicSpawned
                    } else {
                        FateKind::PanicTokioSpawned
                    }
                }
            };
            // instants around step boundaries and around the duration boundary
            let at_ms = match rng.below(5) {
                0 => tick_ms * rng.range(1, 10),
                1 => (dur_ms + rng.range(0, 2 * tick_ms.max(1))).saturating_sub(rng.range(0, 2 * tick_ms.max(1))).max(1),
                2 => dur_ms.max(1),
                _ => rng.range(1, (dur_ms + 3 * tick_ms).max(2)),
            };
            parties.push(Party { client, phase: if run_mode && rng.chance(1, 4) { 1 } else { 0 }, fate, at_us: at_ms * 1000 });
        }
        let steps = (dur_ms / tick_ms.max(1) + 4) as u32;
        let mut crashes = Vec::new();
        if !run_mode {
            for (i, p) in parties.iter().enumerate() {
                if !p.client && rng.chance(1, 3) {
                    crashes.push((rng.range(1, steps as u64) as u32, i));
                }
            }
        }
        Scenario { cfg, parties, run_mode, crashes, steps, bounce: None, plain: None }
    }

    fn run(sc: &Scenario, keep: bool) -> Report {
        if let Some(b) = &sc.bounce {
            return run_bounce(sc, b, keep);
        }
        if let Some(p) = &sc.plain {
            return run_plain(sc, p, keep);
        }
        let n = sc.parties.len();
        let sh = Shared {
            log: SharedLog::new(keep),
            ticks: (0..n).map(|_| Rc::new(Cell::new(0))).collect(),
            done: (0..n).map(|_| Rc::new(Cell::new(false))).collect(),
        };
        let tick = sc.cfg.tick_us;
        let duration_us = sc.cfg.duration_ms * 1000;
        let mut violation: Option<Violation> = None;
        let mut outcome_tag = String::new();
        let mut steps_taken = 0u64;

        let mut sim = sc.cfg.build();
        let register = |sim: &mut turmoil::Sim<'_>, i: usize, p: &Party| {
            let shc = sh.clone();
            let pc = p.clone();
            if p.client {
                sim.client(format!("p{i}"), party_main(shc, i, pc));
            } else {
                sim.host(format!("p{i}"), move || party_main(shc.clone(), i, pc.clone()));
            }
        };

        if sc.run_mode {
            let mut registered: Vec<(Party, u64)> = Vec::new(); // (party, absolute fate instant); index = party index for phase 0 then phase 1
            let mut index_map: Vec<usize> = Vec::new();
            let phases: &[u8] = if sc.parties.iter().any(|p| p.phase == 1) { &[0, 1] } else { &[0] };
            let mut finished_run = false;
            'phases: for ph in phases {
                let now = us(sim.elapsed());
                for (i, p) in sc.parties.iter().enumerate() {
                    if p.phase == *ph {
                        register(&mut sim, i, p);
                        registered.push((p.clone(), now + p.at_us));
                        index_map.push(i);
                    }
                }
                let start_steps = now / tick;
                // parties of earlier phases that already finished Ok
                let already: Vec<bool> = index_map.iter().map(|i| sh.done[*i].get()).collect();
                let possible: Vec<(Outcome, u64)> = predict(tick, duration_us, start_steps, &registered, &already)
                    .into_iter()
                    .map(|(o, k)| {
                        (
                            match o {
                                Outcome::ErrParty(j) => Outcome::ErrParty(index_map[j]),
                                o => o,
                            },
                            k,
                        )
                    })
                    .collect();
                let r = catch(|| sim.run());
                let (got, detail) = classify(&r);
                // every call to step advances the clock by one tick, also the one that reports an error (C05)
                let got_steps = us(sim.elapsed()) / tick;
                sh.log.ev(format!("run#{ph} -> {:?} after {} steps ({detail}); reference allows {:?}", got, got_steps, possible));
                outcome_tag = format!("{:?}", got).chars().take(6).collect();
                steps_taken = got_steps;
                let ok = possible.iter().any(|(o, k)| *o == got && (got == Outcome::Panic || *k == got_steps));
                if !ok {
                    let class = match (&got, possible.first().map(|p| &p.0)) {
                        (Outcome::Ok, _) => "SpuriousOk",
                        (Outcome::Panic, _) => "UnexpectedPanic",
                        (_, Some(Outcome::Panic)) => "PanicSwallowed",
                        (_, Some(Outcome::Ok)) => "SpuriousErr",
                        _ => "WrongOutcome",
                    };
                    violation = Some(Violation::new(
                        class,
                        format!("Sim::run (call {}) returned {:?} after {} steps ({detail}); the reference allows only {:?}; tick={}us duration={}us", ph + 1, got, got_steps, possible, tick, duration_us),
                    ));
                    break 'phases;
                }
                if got != Outcome::Ok {
                    // software that finished (here: with an error) is never polled again: stepping on
                    // after the error was reported must not panic
                    if matches!(got, Outcome::ErrParty(_) | Outcome::ErrDuration) {
                        let after = catch(|| {
                            let _ = sim.step();
                            let _ = sim.step();
                        });
                        if let Err(p) = after {
                            let other_panic_due = sc.parties.iter().any(|p| matches!(p.fate, FateKind::Panic | FateKind::PanicSpawned | FateKind::PanicTokioSpawned));
                            if !other_panic_due {
                                violation = Some(Violation::new("PolledAfterEnd", format!("after Sim::run reported {:?}, calling step() again panicked: {p}", got)));
                            }
                        }
                    }
                    break;
                }
                finished_run = true;
            }
            let _ = finished_run;
        } else {
            // step mode
            for (i, p) in sc.parties.iter().enumerate() {
                register(&mut sim, i, p);
            }
            let mut crashed = vec![false; n];
            let mut frozen: Vec<Option<u64>> = vec![None; n];
            let r = catch(|| {
                for s in 1..=sc.steps {
                    for (at, h) in &sc.crashes {
                        if *at == s && !crashed[*h] {
                            sim.crash(format!("p{h}"));
                            crashed[*h] = true;
                            frozen[*h] = Some(sh.ticks[*h].get());
                            sh.log.ev(format!("ctl crash p{h} before step {s}"));
                        }
                    }
                    let r = sim.step();
                    // ground truth from the programs themselves
                    let all_clients_done = sc.parties.iter().enumerate().filter(|(_, p)| p.client).all(|(i, _)| sh.done[i].get());
                    sh.log.ev(format!("step {s} -> {:?}; all clients done = {all_clients_done}", r.as_ref().map_err(|e| e.to_string())));
                    for i in 0..n {
                        // software that finished is never polled again (its background task included)
                        if sh.done[i].get() && frozen[i].is_none() {
                            frozen[i] = Some(sh.ticks[i].get());
                        }
                    }
                    match r {
                        Ok(fin) => {
                            if fin != all_clients_done {
                                return Some(Violation::new(
                                    "StepCompletion",
                                    format!("step {s} returned Ok({fin}) but 'every client has finished' is {all_clients_done}"),
                                ));
                            }
                        }
                        Err(e) => {
                            let es = e.to_string();
                            let err_fate_happened = sc.parties.iter().enumerate().any(|(i, p)| p.fate == FateKind::Err && sh.done[i].get() && !crashed[i]);
                            let over = s as u64 * tick > duration_us && !all_clients_done;
                            if !(es.starts_with("fate-err-") && err_fate_happened) && !(es.starts_with("Ran for duration") && over) {
                                return Some(Violation::new("SpuriousErr", format!("step {s} returned Err({es}) without an error fate or an exceeded duration")));
                            }
                            return None;
                        }
                    }
                }
                None
            });
            steps_taken = us(sim.elapsed()) / tick;
            match r {
                Ok(v) => violation = v,
                Err(p) => {
                    // a panic fate must surface as a panic; anything else is unexpected
                    let expected = sc.parties.iter().enumerate().any(|(i, p)| matches!(p.fate, FateKind::Panic | FateKind::PanicSpawned | FateKind::PanicTokioSpawned) && !crashed[i]);
                    if !expected {
                        violation = Some(Violation::new("UnexpectedPanic", format!("Sim::step panicked: {p}")));
                    }
                    outcome_tag = "panic".into();
                }
            }
            if violation.is_none() {
                for i in 0..n {
                    if let Some(f) = frozen[i] {
                        let nowc = sh.ticks[i].get();
                        if nowc != f {
                            violation = Some(Violation::new(
                                "PolledAfterEnd",
                                format!("party p{i} ({}) was polled again after it {}: background ticker went from {f} to {nowc}", if sc.parties[i].client { "client" } else { "host" }, if crashed[i] { "crashed" } else { "finished" }),
                            ));
                            break;
                        }
                    }
                }
            }
        }
        // dropping the sim after a forwarded panic must not panic again into the harness
        let _ = catch(move || drop(sim));

        for p in &sc.parties {
            sh.log.tag(match p.fate {
                FateKind::Ok => "ok",
                FateKind::Err => "err",
                FateKind::Never => "never",
                FateKind::Panic => "panic",
                FateKind::PanicSpawned => "panic_spawned",
                FateKind::PanicTokioSpawned => "panic_tokio_spawned",
            });
            sh.log.tag(if p.client { "c" } else { "h" });
        }
        sh.log.tag(&outcome_tag);
        sh.log.0.borrow_mut().tag_u64(steps_taken);
        let kinds: std::collections::BTreeSet<String> = sc.parties.iter().map(|p| format!("{:?}", p.fate)).collect();
        let mut rep = Report::from_log(sh.log.take());
        rep.violation = violation;
        rep.nontrivial = sc.parties.len() >= 2 && kinds.len() >= 2;
        rep.steps = steps_taken;
        rep.sim_ms = steps_taken * tick / 1000;
        rep.faults.add("host_crash", sc.crashes.len() as u64);
        rep.faults.add("panic_fate", sc.parties.iter().filter(|p| matches!(p.fate, FateKind::Panic | FateKind::PanicSpawned | FateKind::PanicTokioSpawned)).count() as u64);
        rep.faults.add("error_fate", sc.parties.iter().filter(|p| p.fate == FateKind::Err).count() as u64);
        if sc.parties.iter().any(|p| p.at_us % tick == 0) {
            rep.probes.inc("fate_on_step_boundary");
        }
        if sc.parties.iter().any(|p| p.phase == 1) {
            rep.probes.inc("registered_after_earlier_run");
        }
        if !sc.parties.iter().any(|p| p.client) {
            rep.probes.inc("zero_clients");
        }
        rep
    }

    fn shrink(sc: &Scenario) -> Vec<Scenario> {
        let mut out = Vec::new();
        if let Some(b) = &sc.bounce {
            if b.crash_first {
                out.push(Scenario { bounce: Some(BounceSpec { crash_first: false, ..b.clone() }), ..sc.clone() });
            }
            if b.first_ok_at_us.is_some() {
                out.push(Scenario { bounce: Some(BounceSpec { first_ok_at_us: None, ..b.clone() }), ..sc.clone() });
            }
            if sc.cfg.random_order {
                let mut c = sc.clone();
                c.cfg.random_order = false;
                out.push(c);
            }
            return out;
        }
        for i in 0..sc.parties.len() {
            let mut c = sc.clone();
            c.parties.remove(i);
            c.crashes = c.crashes.into_iter().filter(|(_, h)| *h != i).map(|(s, h)| (s, if h > i { h - 1 } else { h })).collect();
            out.push(c);
        }
        for i in 0..sc.crashes.len() {
            let mut c = sc.clone();
            c.crashes.remove(i);
            out.push(c);
        }
        for i in 0..sc.parties.len() {
            if sc.parties[i].phase == 1 {
                let mut c = sc.clone();
                c.parties[i].phase = 0;
                out.push(c);
            }
        }
        if sc.cfg.random_order {
            let mut c = sc.clone();
            c.cfg.random_order = false;
            out.push(c);
        }
        out
    }

    fn signature(sc: &Scenario) -> String {
        if let Some(b) = &sc.bounce {
            return format!("bounce tick={} {:?}", sc.cfg.tick_us, b);
        }
        format!(
            "{} tick={} dur={} {:?}",
            if sc.run_mode { "run" } else { "step" },
            sc.cfg.tick_us,
            sc.cfg.duration_ms,
            sc.parties.iter().map(|p| format!("{}{:?}@{}p{}", if p.client { "c" } else { "h" }, p.fate, p.at_us, p.phase)).collect::<Vec<_>>()
        )
    }
}


/// The bounce family (see `BounceSpec`).
fn run_plain(sc: &Scenario, p: &PlainSpec, keep: bool) -> Report {
    let log = SharedLog::new(keep);
    let tick = p.tick_us;
    let r = catch(|| -> Option<Violation> {
        let mut sim = sc.cfg.build();
        // (every other scenario has no host at all: after the clients nothing is left running)
        if p.late_ticks % 2 == 0 {
            sim.host("h", || async {
                std::future::pending::<()>().await;
                Ok(())
            });
        }
        for (i, y) in p.yields.iter().enumerate() {
            let y = *y;
            sim.client(format!("c{i}"), async move {
                for _ in 0..y {
                    tokio::task::yield_now().await;
                }
                Ok(())
            });
        }
        let r1 = sim.run();
        log.ev(format!("run #1 -> {:?} elapsed={}us", r1.as_ref().map_err(|e| e.to_string()), us(sim.elapsed())));
        if let Err(e) = r1 {
            return Some(Violation::new("WrongOutcome", format!("tick {tick}us: {} clients that only yield (at most 5 times) and return Ok (plus, in every other scenario, a host that never finishes), duration {}ms: Sim::run returned Err({e}) after {}us", p.yields.len(), sc.cfg.duration_ms, us(sim.elapsed()))));
        }
        if p.idle_steps == 0 {
            return None;
        }
        let e1 = us(sim.elapsed());
        for k in 0..p.idle_steps {
            match sim.step() {
                Ok(true) => {}
                other => return Some(Violation::new("WrongStepResult", format!("idle step {k} after every client had finished returned {:?}, expected Ok(true)", other.map_err(|e| e.to_string())))),
            }
        }
        // every step counts towards the duration, also one in which nothing is left to run
        let before = e1 + p.idle_steps as u64 * tick;
        if us(sim.elapsed()) != before {
            return Some(Violation::new("WrongOutcome", format!("{} steps were taken after every client had finished (clock at {e1}us then, tick {tick}us); Sim::elapsed now says {}us instead of {before}us: these steps did not count towards the simulation duration", p.idle_steps, us(sim.elapsed()))));
        }
        let lt = p.late_ticks;
        let tk = Duration::from_micros(tick);
        sim.client("late", async move {
            tokio::time::sleep(tk * lt).await;
            Ok(())
        });
        let r2 = sim.run();
        let after = us(sim.elapsed());
        log.ev(format!("{} idle steps, late client ({lt} ticks): run #2 -> {:?} elapsed {before}us -> {after}us", p.idle_steps, r2.as_ref().map_err(|e| e.to_string())));
        // the reference: every step (also the idle ones) advances the clock by one tick; the late client is done in the
        // step in which its own clock reaches lt ticks, i.e. lt (or lt + 1, boundary) steps after its registration
        let dur = sc.cfg.duration_ms * 1000;
        let done_lo = before + lt as u64 * tick;
        let done_hi = before + (lt as u64 + 1) * tick;
        let must_ok = done_hi <= dur;
        let must_err = done_lo > dur + tick;
        match (&r2, must_ok, must_err) {
            (Err(e), true, _) => Some(Violation::new("WrongOutcome", format!("after {} idle steps (clock at {before}us) a client that needs {lt} ticks was registered; it is done by {done_hi}us <= duration {dur}us, yet Sim::run returned Err({e})", p.idle_steps))),
            (Ok(()), _, true) => Some(Violation::new("WrongOutcome", format!("after {} idle steps the clock stood at {before}us; a client that needs {lt} ticks cannot be done before {done_lo}us, more than a tick beyond the duration {dur}us, yet Sim::run returned Ok (clock now {after}us)", p.idle_steps))),
            _ => None,
        }
    });
    let violation = match r {
        Ok(v) => v,
        Err(m) => Some(Violation::new("UnexpectedPanic", format!("the timer-free family panicked: {m}"))),
    };
    log.tag(if tick < 1000 { "submilli" } else { "idle" });
    log.0.borrow_mut().tag_u64(p.idle_steps as u64);
    let mut rep = Report::from_log(log.take());
    rep.violation = violation;
    rep.nontrivial = true;
    rep.probes.inc(if tick < 1000 { "timer_free_clients_with_a_tick_below_one_millisecond" } else { "idle_steps_then_a_late_client" });
    rep
}

fn run_bounce(sc: &Scenario, b: &BounceSpec, keep: bool) -> Report {
    let log = SharedLog::new(keep);
    let tick = sc.cfg.tick_us;
    let inc = Rc::new(Cell::new(0u32));
    // background ticker polls per incarnation (index = incarnation - 1)
    let ticks: Rc<std::cell::RefCell<Vec<u64>>> = Rc::new(std::cell::RefCell::new(Vec::new()));
    let client_done = Rc::new(Cell::new(false));
    let second_done = Rc::new(Cell::new(false));
    let second_started_us: Rc<Cell<Option<u64>>> = Rc::new(Cell::new(None));
    let mut violation: Option<Violation> = None;
    let mut sim = sc.cfg.build();
    {
        let (inc, ticks, log, b, second_done, second_started_us) = (inc.clone(), ticks.clone(), log.clone(), b.clone(), second_done.clone(), second_started_us.clone());
        let v6 = sc.cfg.ipv6;
        sim.host("h0", move || {
            inc.set(inc.get() + 1);
            let k = inc.get();
            ticks.borrow_mut().push(0);
            let wild = if v6 { "::" } else { "0.0.0.0" };
            let (ticks, log, b, second_done, second_started_us) = (ticks.clone(), log.clone(), b.clone(), second_done.clone(), second_started_us.clone());
            async move {
                let t = ticks.clone();
                tokio::task::spawn_local(async move {
                    loop {
                        t.borrow_mut()[k as usize - 1] += 1;
                        tokio::time::sleep(Duration::from_millis(1)).await;
                    }
                });
                if k == 1 {
                    // a spawned task owns a socket and lives on when the main future returns
                    let l2 = log.clone();
                    tokio::task::spawn_local(async move {
                        let s = turmoil::net::UdpSocket::bind((wild, 9000)).await;
                        l2.ev(format!("h0.1 spawned task: bind 9000 -> {:?}", s.as_ref().map(|_| ()).map_err(|e| e.kind())));
                        std::future::pending::<()>().await;
                        drop(s);
                    });
                    match b.first_ok_at_us {
                        Some(at) => {
                            tokio::time::sleep(Duration::from_micros(at)).await;
                            log.ev(format!("h0.1 main returns Ok at elapsed={}us, its tasks stay behind", us(turmoil::elapsed())));
                            Ok(())
                        }
                        None => {
                            std::future::pending::<()>().await;
                            Ok(())
                        }
                    }
                } else {
                    second_started_us.set(Some(us(turmoil::elapsed())));
                    let s = turmoil::net::UdpSocket::bind((wild, 9000)).await;
                    log.ev(format!("h0.{k} main: bind 9000 -> {:?}", s.as_ref().map(|_| ()).map_err(|e| e.kind())));
                    let _s = s.map_err(|e| format!("restart-bind-failed: {e}"))?;
                    let at = b.second_at_us;
                    match b.second {
                        FateKind::Never => {
                            std::future::pending::<()>().await;
                            Ok(())
                        }
                        FateKind::PanicSpawned => {
                            tokio::task::spawn_local(async move {
                                tokio::time::sleep(Duration::from_micros(at)).await;
                                panic!("fate-panic-0");
                            });
                            std::future::pending::<()>().await;
                            Ok(())
                        }
                        FateKind::PanicTokioSpawned => {
                            tokio::spawn(async move {
                                tokio::time::sleep(Duration::from_micros(at)).await;
                                panic!("fate-panic-0");
                            });
                            std::future::pending::<()>().await;
                            Ok(())
                        }
                        f => {
                            tokio::time::sleep(Duration::from_micros(at)).await;
                            log.ev(format!("h0.{k} fate {f:?} at elapsed={}us", us(turmoil::elapsed())));
                            second_done.set(true);
                            match f {
                                FateKind::Ok => Ok(()),
                                FateKind::Err => Err("fate-err-0".into()),
                                _ => panic!("fate-panic-0"),
                            }
                        }
                    }
                }
            }
        });
    }
    {
        let (cd, at, log) = (client_done.clone(), b.client_at_us, log.clone());
        sim.client("c0", async move {
            tokio::time::sleep(Duration::from_micros(at)).await;
            log.ev(format!("c0 finishes Ok at elapsed={}us", us(turmoil::elapsed())));
            cd.set(true);
            Ok(())
        });
    }
    let mut frozen_first: Option<u64> = None;
    let mut bounced_at_step: Option<u32> = None;
    let mut panicked: Option<(u32, String)> = None;
    let mut err_seen: Option<(u32, String)> = None;
    let mut steps_taken = 0u64;
    let mut sim_cell = Some(sim);
    for s in 1..=sc.steps {
        let sim = sim_cell.as_mut().unwrap();
        if s == b.bounce_before_step {
            if b.crash_first {
                sim.crash("h0");
                log.ev(format!("ctl crash h0 before step {s}"));
            }
            sim.bounce("h0");
            log.ev(format!("ctl bounce h0 before step {s}"));
            frozen_first = Some(ticks.borrow()[0]);
            bounced_at_step = Some(s);
        }
        let r = catch(|| sim.step());
        steps_taken = s as u64;
        match r {
            Err(p) => {
                log.ev(format!("step {s} panicked: {p}"));
                panicked = Some((s, p));
                break;
            }
            Ok(Err(e)) => {
                log.ev(format!("step {s} -> Err({e})"));
                err_seen = Some((s, e.to_string()));
                break;
            }
            Ok(Ok(fin)) => {
                log.ev(format!("step {s} -> Ok({fin}); client done = {}", client_done.get()));
                if fin != client_done.get() {
                    violation = Some(Violation::new("StepCompletion", format!("step {s} returned Ok({fin}) but 'every client has finished' is {}", client_done.get())));
                    break;
                }
            }
        }
        // the first incarnation is gone once bounce returned: nothing of it is polled again
        if let Some(f) = frozen_first {
            let nowc = ticks.borrow()[0];
            if nowc != f {
                violation = Some(Violation::new(
                    "PolledAfterEnd",
                    format!("a task of h0's first incarnation was polled again after Sim::bounce (before step {}): its ticker went from {f} to {nowc} by step {s}", b.bounce_before_step),
                ));
                break;
            }
        }
    }
    if violation.is_none() {
        let is_panic = matches!(b.second, FateKind::Panic | FateKind::PanicSpawned | FateKind::PanicTokioSpawned);
        // step (1-based) in which the second incarnation's fate falls: it started at the beginning of step
        // `bounce_before_step`; a fate exactly on a boundary may show one step later
        let due = bounced_at_step.map(|bs| bs as u64 - 1 + b.second_at_us.div_ceil(tick));
        if let Some((s, p)) = &panicked {
            if !is_panic {
                violation = Some(Violation::new("UnexpectedPanic", format!("step {s} panicked without a panic fate: {p}")));
            } else if let Some(d) = due {
                if (*s as u64) < d || *s as u64 > d + 1 {
                    violation = Some(Violation::new("WrongOutcome", format!("the panic fate of the restarted h0 was due in step {d} (or {}), step {s} panicked", d + 1)));
                }
            }
        } else if let Some((s, e)) = &err_seen {
            let ok = b.second == FateKind::Err && e.starts_with("fate-err-0") && due.map(|d| *s as u64 >= d && *s as u64 <= d + 1).unwrap_or(false);
            if !ok {
                violation = Some(Violation::new("SpuriousErr", format!("step {s} returned Err({e}); the restarted h0 has fate {:?} due in step {:?}", b.second, due)));
            }
        } else if let Some(d) = due {
            if d + 1 <= sc.steps as u64 {
                if is_panic {
                    violation = Some(Violation::new("PanicSwallowed", format!("the restarted h0 ({:?}) panicked in step {d}, yet {} steps ran without a panic of the caller", b.second, sc.steps)));
                } else if b.second == FateKind::Err {
                    violation = Some(Violation::new("ErrorSwallowed", format!("the restarted h0 returned Err in step {d}, yet {} steps ran without step reporting it", sc.steps)));
                }
            }
        }
    }
    let sim = sim_cell.take().unwrap();
    let _ = catch(move || drop(sim));
    log.tag(&format!("{:?}", b.second));
    log.tag(if b.crash_first { "crash" } else { "nocrash" });
    log.tag(if b.first_ok_at_us.is_some() { "first_ok" } else { "first_never" });
    log.0.borrow_mut().tag_u64(steps_taken);
    let first_finished_before_bounce = b.first_ok_at_us.map(|a| a.div_ceil(tick) < b.bounce_before_step as u64).unwrap_or(false);
    let mut rep = Report::from_log(log.take());
    rep.violation = violation;
    rep.nontrivial = true;
    rep.steps = steps_taken;
    rep.sim_ms = steps_taken * tick / 1000;
    rep.faults.inc("host_bounce");
    if b.crash_first {
        rep.faults.inc("host_crash");
    }
    if matches!(b.second, FateKind::Panic | FateKind::PanicSpawned | FateKind::PanicTokioSpawned) {
        rep.faults.inc("panic_fate");
        rep.probes.inc("panic_in_restarted_incarnation");
    }
    if first_finished_before_bounce && !b.crash_first {
        rep.probes.inc("finished_host_with_live_tasks_bounced_without_crash");
    }
    let _ = second_done;
    let _ = second_started_us;
    rep
}
