//! C20 — barriers observe every matching trigger once and suspend only when asked.
//!
//! Sources and the controller run on a tiny deterministic executor whose poll order is the scenario's
//! schedule, so the interleaving of trigger / create / wait / handle drop / barrier drop is ours.
//! A second mode exercises the synchronous trigger path from turmoil-fs's corruption hook inside a Sim.

use crate::core::prng::Rng;
use crate::core::{catch, Log, Property, Report, Tier, Violation};
use serde::{Deserialize, Serialize};
use std::cell::{Cell, RefCell};
use std::collections::VecDeque;
use std::future::Future;
use std::pin::Pin;
use std::rc::Rc;
use std::sync::atomic::{AtomicBool, Ordering};
use std::sync::Arc;
use std::task::{Context, Poll, Wake, Waker};
use turmoil::barriers::{trigger, trigger_noop, Barrier, Reaction, Triggered};

#[derive(Clone, Copy, Debug, PartialEq, Eq, Serialize, Deserialize)]
pub enum React {
    Noop,
    Suspend,
    Panic,
}

#[derive(Clone, Debug, Serialize, Deserialize)]
pub enum SrcOp {
    /// `trigger(v).await`
    Trigger(u32),
    /// `trigger_noop(v)`
    TriggerNoop(u32),
    /// `trigger(v as u64).await` — a type no barrier is declared for
    TriggerOtherType(u32),
}

#[derive(Clone, Debug, Serialize, Deserialize)]
pub enum Step {
    PollSource(usize),
    Create {
        slot: usize,
        react: React,
        values: Vec<u32>,
        /// a Barrier<u64> (the type `TriggerOtherType` triggers) instead of a Barrier<u32>
        #[serde(default)]
        other: bool,
    },
    /// poll `barrier.wait()` once; a returned handle is kept
    Wait { slot: usize },
    /// drop the oldest handle held for this barrier
    DropHandle { slot: usize },
    DropBarrier { slot: usize },
    /// drop the source's future (task abort / select! / timeout): what it triggered so far stays triggered
    CancelSource(usize),
}

#[derive(Clone, Debug, Serialize, Deserialize)]
pub struct Scenario {
    /// 0 = executor mode, 1 = fs corruption hook inside a Sim
    pub mode: u8,
    pub sources: Vec<Vec<SrcOp>>,
    pub schedule: Vec<Step>,
    /// mode 1: number of corrupting reads, barrier matches (true/false), drop barrier after k reads
    pub fs_reads: u32,
    pub fs_match: bool,
    pub fs_drop_after: Option<u32>,
    /// mode 1: corrupting reads performed back to back (no await between them) per round; 0 = 1
    #[serde(default)]
    pub fs_burst: u32,
    /// mode 1: the barrier is created by the host software itself, in the very tick of its first
    /// corrupting reads (instead of by the test before the first step)
    #[serde(default)]
    pub fs_inside: bool,
    /// fs mode: every second read is made while an `FsHandle::enter()` guard of the own host is alive on
    /// the simulation thread (helper code shared with worker threads does that)
    #[serde(default)]
    pub fs_via_handle: bool,
    pub seed: u64,
}

pub struct C20;

struct Flag(AtomicBool);
impl Wake for Flag {
    fn wake(self: Arc<Self>) {
        self.0.store(true, Ordering::SeqCst);
    }
}

type Fut = Pin<Box<dyn Future<Output = ()>>>;

struct Task {
    fut: Option<Fut>,
    flag: Arc<Flag>,
    /// index of the next op to start (= number of ops completed) as reported by the task itself
    progress: Rc<Cell<usize>>,
    panicked: bool,
}

// ---- reference model ----------------------------------------------------------------------------
#[derive(Clone, Debug)]
struct MBarrier {
    slot: usize,
    react: React,
    values: Vec<u32>,
    /// triggers reported and not yet returned by wait: (value, source that is suspended on it)
    queue: VecDeque<(u32, Option<usize>)>,
    live: bool,
    /// listens for u64 triggers
    other: bool,
}

#[derive(Clone, Debug, PartialEq)]
enum SrcState {
    Runnable,
    /// suspended in op `op` until released
    Suspended,
    Finished,
    Panicked,
}

impl Property for C20 {
    const ID: &'static str = "C20";
    const LEVEL: &'static str = "exploration";
    type Scenario = Scenario;

    fn rule() -> String {
        "executor mode: 1-4 source tasks each running a seeded list of trigger(v).await / trigger_noop(v) / trigger of an undeclared type, a controller creating barriers (condition = value set, reaction Noop/Suspend/Panic, overlapping conditions), polling wait, dropping Triggered handles and dropping barriers; the poll order between all of these is the scenario's schedule (seeded interleavings incl. spurious polls of suspended sources). Oracle = reference registry of live barriers in creation order: each trigger goes to the earliest-created live matching barrier only, each barrier's wait results equal its model queue in order and exactly once, after every poll each source has made exactly the progress the model allows (suspended until its handle or the barrier is dropped, proceeds on its next poll afterwards; Noop and unmatched triggers never yield), Panic panics the source. fs mode: corruption_probability=1 inside a turmoil Sim, a Barrier<FsCorruption> sees one event per corrupting read (none if the condition is false or after the barrier is dropped); a read whose corruption event matches a Panic or Suspend barrier (the synchronous hook panics on both) must panic the reading code and nothing else — these scenarios (fs::read, File + Read, read_at with a second handle open; barrier created by the test or by the host) run in a child process, whose death is the violation PanicAbortsProcess; burst mode: 1-600 unmatched triggers inside one poll of a turmoil host task never yield. Every scenario runs on a thread of its own (the registry is thread-local). Non-trivial: >=2 live barriers match one trigger, or a barrier/handle is dropped while a source is suspended; distinct = digest of (step kinds, reactions taken)".into()
    }
    fn components_real() -> Vec<&'static str> {
        vec!["turmoil::barriers (Barrier::build/new/wait, trigger, trigger_noop, Triggered, thread-local registry)", "turmoil::Sim + turmoil-fs corruption hook (fs mode)"]
    }
    fn components_stub() -> Vec<&'static str> {
        vec!["the task executor (hand-written: flag wakers, schedule-driven poll order) and the source/controller programs"]
    }
    fn assumptions() -> Vec<String> {
        vec!["trigger_noop is never aimed at a Suspend barrier (documented panic: misuse, not part of the property)".into()]
    }
    fn budget(tier: Tier) -> u64 {
        match tier {
            Tier::Quick => 300_000,
            Tier::Thorough => 3_000_000,
        }
    }

    fn generate(rng: &mut Rng, _idx: u64, _tier: Tier) -> Scenario {
        if rng.chance(1, 200) {
            // mode 2: a long run of triggers that match nothing, inside one poll of a runtime-driven task
            return Scenario { mode: 2, sources: vec![], schedule: vec![], fs_reads: rng.range(1, 600) as u32, fs_match: rng.bool(), fs_drop_after: None, fs_burst: 0, fs_inside: false, fs_via_handle: false, seed: rng.next_u64() };
        }
        if rng.chance(1, 4000) {
            // mode 3: a Panic (or, for the synchronous hook equally fatal, Suspend) barrier on the corruption event of a
            // read; executed in a child process (fs_burst: how the file is read, fs_reads: reaction)
            return Scenario { mode: 3, sources: vec![], schedule: vec![], fs_reads: rng.below(3) as u32, fs_match: rng.chance(4, 5), fs_drop_after: None, fs_burst: rng.below(3) as u32, fs_inside: rng.chance(1, 3), fs_via_handle: false, seed: rng.next_u64() };
        }
        if rng.chance(1, 40) {
            return Scenario {
                mode: 1,
                sources: vec![],
                schedule: vec![],
                fs_reads: rng.range(1, 6) as u32,
                fs_match: rng.chance(3, 4),
                fs_drop_after: if rng.chance(1, 3) { Some(rng.range(0, 3) as u32) } else { None },
                fs_burst: rng.range(1, 3) as u32,
                fs_inside: rng.chance(1, 3),
                fs_via_handle: rng.chance(1, 4),
                seed: rng.next_u64(),
            };
        }
        let ns = rng.usize(1, 4);
        let nvals = rng.range(2, 4) as u32;
        let nslots = rng.usize(1, 3);
        // model-aware generation so that trigger_noop never meets a Suspend barrier
        let mut barriers: Vec<Option<(React, Vec<u32>)>> = vec![None; nslots];
        let mut order: Vec<usize> = Vec::new(); // creation order of live slots
        let mut sources: Vec<Vec<SrcOp>> = vec![Vec::new(); ns];
        let mut schedule = Vec::new();
        let nsteps = rng.usize(4, 26);
        let first_match = |order: &Vec<usize>, barriers: &Vec<Option<(React, Vec<u32>)>>, v: u32| -> Option<React> {
            order.iter().filter_map(|s| barriers[*s].as_ref()).find(|(_, vals)| vals.contains(&v)).map(|(r, _)| *r)
        };
        // sources' programs are fixed up front; triggers that would misuse trigger_noop are avoided by
        // giving Suspend barriers a value range trigger_noop never uses (values >= 100 are "noop-safe")
        for s in sources.iter_mut() {
            let n = rng.usize(1, 5);
            // sometimes a burst of identical triggers that nobody reaps in between (many unconsumed
            // reports on one barrier)
            if rng.chance(1, 8) {
                let v = rng.below(nvals as u64) as u32;
                let k = rng.usize(17, 40);
                let op = match rng.below(3) {
                    0 => SrcOp::TriggerNoop(100 + v),
                    1 => SrcOp::Trigger(100 + v),
                    _ => SrcOp::Trigger(v),
                };
                for _ in 0..k {
                    s.push(op.clone());
                }
            }
            for _ in 0..n {
                let v = rng.below(nvals as u64) as u32;
                s.push(match rng.below(10) {
                    0..=5 => SrcOp::Trigger(v),
                    6 | 7 => SrcOp::TriggerNoop(100 + v),
                    8 => SrcOp::Trigger(100 + v),
                    _ => SrcOp::TriggerOtherType(v),
                });
            }
        }
        for _ in 0..nsteps {
            let slot = rng.below(nslots as u64) as usize;
            let st = match rng.weighted(&[40, 18, 16, 14, 8, 2]) {
                0 => Step::PollSource(rng.below(ns as u64) as usize),
                5 => Step::CancelSource(rng.below(ns as u64) as usize),
                1 => {
                    if barriers[slot].is_some() {
                        Step::Wait { slot }
                    } else {
                        let react = match rng.below(8) {
                            0..=2 => React::Noop,
                            3..=6 => React::Suspend,
                            _ => React::Panic,
                        };
                        let mut values: Vec<u32> = (0..nvals).filter(|_| rng.chance(1, 2)).collect();
                        if react != React::Suspend {
                            // only non-suspending barriers may match the values trigger_noop uses
                            values.extend((0..nvals).filter(|_| rng.chance(1, 2)).map(|v| 100 + v));
                        }
                        if values.is_empty() {
                            values.push(0);
                        }
                        barriers[slot] = Some((react, values.clone()));
                        order.push(slot);
                        // one barrier in five listens for the other trigger type (never Panic there)
                        let other = react != React::Panic && rng.chance(1, 5);
                        Step::Create { slot, react, values, other }
                    }
                }
                2 => Step::Wait { slot },
                3 => Step::DropHandle { slot },
                _ => {
                    if barriers[slot].is_some() {
                        barriers[slot] = None;
                        order.retain(|s| *s != slot);
                    }
                    Step::DropBarrier { slot }
                }
            };
            schedule.push(st);
        }
        let _ = first_match;
        Scenario { mode: 0, sources, schedule, fs_reads: 0, fs_match: false, fs_drop_after: None, fs_burst: 0, fs_inside: false, fs_via_handle: false, seed: rng.next_u64() }
    }

    /// Every scenario runs on a thread of its own: the barrier registry of the subject is thread-local, and
    /// whatever a run leaves behind in it (a barrier that was not unregistered, a cached lookup) must show
    /// inside that run, reproducibly, instead of leaking into the next scenario of the same worker.
    fn run(sc: &Scenario, keep: bool) -> Report {
        std::thread::scope(|s| {
            std::thread::Builder::new()
                .stack_size(512 << 10)
                .spawn_scoped(s, || run_here(sc, keep))
                .expect("spawn scenario thread")
                .join()
                .expect("scenario thread")
        })
    }

    fn shrink(sc: &Scenario) -> Vec<Scenario> {
        if sc.mode != 0 {
            return vec![];
        }
        let mut out: Vec<Scenario> = crate::core::shrink_list(&sc.schedule).into_iter().map(|schedule| Scenario { schedule, ..sc.clone() }).collect();
        for s in 0..sc.sources.len() {
            for o in 0..sc.sources[s].len() {
                let mut c = sc.clone();
                c.sources[s].remove(o);
                out.push(c);
            }
        }
        out
    }

    fn signature(sc: &Scenario) -> String {
        if sc.mode == 1 {
            return format!("fs reads={} match={} drop={:?}", sc.fs_reads, sc.fs_match, sc.fs_drop_after);
        }
        if sc.mode == 3 {
            return format!("fs read (style {}) under a barrier with reaction #{} on the corruption event, condition {}, created by {}", sc.fs_burst, sc.fs_reads, sc.fs_match, if sc.fs_inside { "the host" } else { "the test" });
        }
        if sc.mode == 2 {
            return format!("burst of {} unmatched triggers in one poll of a host task, other barrier live={}", sc.fs_reads, sc.fs_match);
        }
        sc.schedule
            .iter()
            .map(|s| match s {
                Step::PollSource(i) => format!("p{i}"),
                Step::Create { slot, react, .. } => format!("new{slot}:{:?}", react),
                Step::Wait { slot } => format!("wait{slot}"),
                Step::DropHandle { slot } => format!("droph{slot}"),
                Step::DropBarrier { slot } => format!("dropb{slot}"),
                Step::CancelSource(i) => format!("cancel{i}"),
            })
            .collect::<Vec<_>>()
            .join(",")
    }
}

fn run_here(sc: &Scenario, keep: bool) -> Report {
    let mut log = Log::new(keep);
    let mut rep = Report::default();
    let r = catch(|| match sc.mode {
        0 => run_exec(sc, &mut log, &mut rep),
        2 => run_burst(sc, &mut log, &mut rep),
        3 => run_fs_panic_in_child(sc, &mut log, &mut rep),
        _ => run_fs(sc, &mut log, &mut rep),
    });
    let violation = match r {
        Ok(v) => v,
        Err(p) => Some(Violation::new("Panic", format!("unexpected panic outside a source task: {p}"))),
    };
    rep.abstract_digest = log.abs_digest();
    rep.full_digest = log.full_digest();
    rep.log = log.lines;
    rep.violation = violation;
    rep.steps = sc.schedule.len() as u64;
    rep
}


async fn source_prog(ops: Vec<SrcOp>, progress: Rc<Cell<usize>>) {
    for (i, op) in ops.iter().enumerate() {
        progress.set(i);
        match op {
            SrcOp::Trigger(v) => trigger(*v).await,
            SrcOp::TriggerNoop(v) => trigger_noop(*v),
            SrcOp::TriggerOtherType(v) => trigger(*v as u64).await,
        }
    }
    progress.set(ops.len());
}

fn run_exec(sc: &Scenario, log: &mut Log, rep: &mut Report) -> Option<Violation> {
    let nslots = sc.schedule.iter().map(|s| match s {
        Step::Create { slot, .. } | Step::Wait { slot } | Step::DropHandle { slot } | Step::DropBarrier { slot } => *slot + 1,
        Step::CancelSource(_) => 0,
        _ => 0,
    }).max().unwrap_or(0).max(1);
    // real
    let mut tasks: Vec<Task> = sc
        .sources
        .iter()
        .map(|ops| {
            let progress = Rc::new(Cell::new(0));
            Task { fut: Some(Box::pin(source_prog(ops.clone(), progress.clone()))), flag: Arc::new(Flag(AtomicBool::new(true))), progress, panicked: false }
        })
        .collect();
    enum AnyB {
        A(Barrier<u32>),
        B(Barrier<u64>),
    }
    #[allow(dead_code)]
    enum AnyH {
        A(Triggered<u32>),
        B(Triggered<u64>),
    }
    let mut barriers: Vec<Option<AnyB>> = (0..nslots).map(|_| None).collect();
    let mut handles: Vec<VecDeque<AnyH>> = (0..nslots).map(|_| VecDeque::new()).collect();
    // model
    let mut mb: Vec<MBarrier> = Vec::new(); // creation order, incl. dead ones
    let mut mh: Vec<VecDeque<(u32, Option<usize>)>> = (0..nslots).map(|_| VecDeque::new()).collect();
    let mut state: Vec<SrcState> = vec![SrcState::Runnable; sc.sources.len()];
    let mut mprog: Vec<usize> = vec![0; sc.sources.len()];
    let mut released: Vec<bool> = vec![false; sc.sources.len()];
    let mut nontrivial = false;
    let noop_waker: Waker = Arc::new(Flag(AtomicBool::new(false))).into();

    // the model of one source poll: run ops until one suspends
    fn model_poll(s: usize, sc: &Scenario, mb: &mut Vec<MBarrier>, state: &mut Vec<SrcState>, mprog: &mut Vec<usize>, released: &mut Vec<bool>, nontrivial: &mut bool, rep: &mut Report) {
        match state[s] {
            SrcState::Finished | SrcState::Panicked => return,
            SrcState::Suspended => {
                if !released[s] {
                    return;
                }
                released[s] = false;
                state[s] = SrcState::Runnable;
                mprog[s] += 1;
            }
            SrcState::Runnable => {}
        }
        while mprog[s] < sc.sources[s].len() {
            let (v, is_async, other) = match &sc.sources[s][mprog[s]] {
                SrcOp::Trigger(v) => (*v, true, false),
                SrcOp::TriggerNoop(v) => (*v, false, false),
                SrcOp::TriggerOtherType(v) => (*v, true, true),
            };
            let matching: Vec<usize> = mb.iter().enumerate().filter(|(_, b)| b.live && b.other == other && b.values.contains(&v)).map(|(i, _)| i).collect();
            if matching.len() >= 2 {
                *nontrivial = true;
                rep.probes.inc("several_live_barriers_match");
            }
            match matching.first() {
                None => {
                    rep.probes.inc("trigger_matches_nobody");
                    mprog[s] += 1;
                }
                Some(&bi) => match mb[bi].react {
                    React::Noop => {
                        mb[bi].queue.push_back((v, None));
                        if mb[bi].queue.len() > 16 {
                            rep.probes.inc("more_than_16_unreaped_reports_on_one_barrier");
                        }
                        mprog[s] += 1;
                    }
                    React::Suspend => {
                        debug_assert!(is_async);
                        mb[bi].queue.push_back((v, Some(s)));
                        state[s] = SrcState::Suspended;
                        rep.faults.inc("source_suspended");
                        return;
                    }
                    React::Panic => {
                        state[s] = SrcState::Panicked;
                        rep.faults.inc("injected_panic");
                        return;
                    }
                },
            }
        }
        state[s] = SrcState::Finished;
    }

    for (i, st) in sc.schedule.iter().enumerate() {
        match st {
            Step::PollSource(s) => {
                let s = *s % tasks.len().max(1);
                if tasks.is_empty() {
                    continue;
                }
                let t = &mut tasks[s];
                let woken = t.flag.0.swap(false, Ordering::SeqCst);
                let mut outcome = "idle";
                if let Some(f) = t.fut.as_mut() {
                    let w: Waker = t.flag.clone().into();
                    let mut cx = Context::from_waker(&w);
                    match catch(|| f.as_mut().poll(&mut cx)) {
                        Ok(Poll::Ready(())) => {
                            t.fut = None;
                            outcome = "finished";
                        }
                        Ok(Poll::Pending) => outcome = "pending",
                        Err(_p) => {
                            t.fut = None;
                            t.panicked = true;
                            outcome = "panicked";
                        }
                    }
                }
                if !woken {
                    rep.probes.inc("spurious_poll");
                }
                model_poll(s, sc, &mut mb, &mut state, &mut mprog, &mut released, &mut nontrivial, rep);
                let real_prog = tasks[s].progress.get();
                log.ev(format!("#{i} poll source {s} -> {outcome}, progress {real_prog} (model {} {:?})", mprog[s], state[s]));
                log.tag("p");
                log.tag(outcome);
                let t = &tasks[s];
                let real_state = if t.panicked {
                    SrcState::Panicked
                } else if t.fut.is_none() {
                    SrcState::Finished
                } else if state[s] == SrcState::Suspended {
                    SrcState::Suspended
                } else {
                    SrcState::Runnable
                };
                if real_state != state[s] || (state[s] != SrcState::Panicked && real_prog != mprog[s]) {
                    let class = match (&state[s], &real_state) {
                        (SrcState::Panicked, _) => "PanicNotInjected",
                        (_, SrcState::Panicked) => "SpuriousPanic",
                        (SrcState::Suspended, _) if real_prog > mprog[s] || real_state == SrcState::Finished => "NotSuspended",
                        _ if real_prog < mprog[s] => "BlockedWithoutSuspend",
                        _ => "ProgressMismatch",
                    };
                    return Some(Violation::new(
                        class,
                        format!("step #{i}: after polling source {s} it is {:?} at op {real_prog}; the reference says {:?} at op {}", real_state, state[s], mprog[s]),
                    ));
                }
            }
            Step::CancelSource(s) => {
                if tasks.is_empty() {
                    continue;
                }
                let s = *s % tasks.len();
                if tasks[s].fut.is_some() {
                    let suspended = state[s] == SrcState::Suspended;
                    let unreported = mb.iter().any(|b| b.live && b.queue.iter().any(|(_, src)| *src == Some(s)));
                    tasks[s].fut = None;
                    state[s] = SrcState::Finished;
                    log.ev(format!("#{i} cancel source {s} (suspended={suspended}, its report not yet taken by wait={unreported})"));
                    log.tag("cancel");
                    rep.faults.inc("source_cancelled");
                    if suspended && unreported {
                        nontrivial = true;
                        rep.probes.inc("source_cancelled_while_suspended_before_its_report_was_taken");
                    }
                }
            }
            Step::Create { slot, react, values, other } => {
                if barriers[*slot].is_some() {
                    continue;
                }
                let vals = values.clone();
                let reaction = match react {
                    React::Noop => Reaction::Noop,
                    React::Suspend => Reaction::Suspend,
                    React::Panic => Reaction::Panic,
                };
                barriers[*slot] = Some(if *other {
                    rep.probes.inc("barrier_for_the_other_trigger_type");
                    AnyB::B(Barrier::build(reaction, move |v: &u64| vals.contains(&(*v as u32))))
                } else {
                    AnyB::A(Barrier::build(reaction, move |v: &u32| vals.contains(v)))
                });
                mb.push(MBarrier { slot: *slot, react: *react, values: values.clone(), queue: VecDeque::new(), live: true, other: *other });
                log.ev(format!("#{i} create barrier {slot} {:?} {:?}", react, values));
                log.tag("new");
            }
            Step::Wait { slot } => {
                let Some(b) = barriers[*slot].as_mut() else { continue };
                // (value reported, handle)
                let got: Option<Option<(u32, AnyH)>> = {
                    let mut cx = Context::from_waker(&noop_waker);
                    match b {
                        AnyB::A(b) => {
                            let fut = b.wait();
                            let mut fut = std::pin::pin!(fut);
                            match fut.as_mut().poll(&mut cx) {
                                Poll::Ready(x) => Some(x.map(|t| (*t, AnyH::A(t)))),
                                Poll::Pending => None,
                            }
                        }
                        AnyB::B(b) => {
                            let fut = b.wait();
                            let mut fut = std::pin::pin!(fut);
                            match fut.as_mut().poll(&mut cx) {
                                Poll::Ready(x) => Some(x.map(|t| (*t as u32, AnyH::B(t)))),
                                Poll::Pending => None,
                            }
                        }
                    }
                };
                let m = mb.iter_mut().rev().find(|m| m.slot == *slot && m.live).expect("model barrier");
                let expect = m.queue.pop_front();
                log.ev(format!("#{i} wait barrier {slot} -> {:?} (model {:?})", got.as_ref().map(|o| o.as_ref().map(|t| t.0)), expect));
                log.tag("wait");
                match (got, expect) {
                    (None, None) => {}
                    (Some(Some((t, h))), Some((v, src))) => {
                        if t != v {
                            return Some(Violation::new("WrongTriggerReported", format!("step #{i}: barrier {slot} reported trigger {t} but the next matching trigger in order is {v}")));
                        }
                        handles[*slot].push_back(h);
                        mh[*slot].push_back((v, src));
                    }
                    (Some(Some((t, _))), None) => {
                        return Some(Violation::new("UnexpectedTriggerReported", format!("step #{i}: barrier {slot} reported trigger {t} that the reference does not route to it (duplicate, or it belongs to an earlier-created barrier / nobody)")));
                    }
                    (None, Some((v, _))) | (Some(None), Some((v, _))) => {
                        return Some(Violation::new("TriggerLost", format!("step #{i}: barrier {slot} has nothing to report but trigger {v} matched it and was not reported yet")));
                    }
                    (Some(None), None) => {
                        return Some(Violation::new("WaitEnded", format!("step #{i}: wait on live barrier {slot} returned None")));
                    }
                }
            }
            Step::DropHandle { slot } => {
                if let Some(h) = handles[*slot].pop_front() {
                    drop(h);
                    let (v, src) = mh[*slot].pop_front().expect("model handle");
                    if let Some(s) = src {
                        released[s] = true;
                        if state[s] == SrcState::Suspended {
                            nontrivial = true;
                            rep.faults.inc("handle_dropped_while_source_suspended");
                        }
                    }
                    log.ev(format!("#{i} drop handle of barrier {slot} (trigger {v})"));
                    log.tag("droph");
                }
            }
            Step::DropBarrier { slot } => {
                let taken = barriers[*slot].take();
                let was = taken.is_some();
                if i % 3 == 0 {
                    // every third drop happens while a panic unwinds through the barrier's owner
                    // (the panic is caught: the test goes on, the barrier is gone all the same)
                    if was {
                        rep.probes.inc("barrier_dropped_by_an_unwinding_panic");
                    }
                    let _ = catch(move || {
                        let _owner = taken;
                        if was {
                            panic!("harness: the owner of the barrier panics");
                        }
                    });
                } else {
                    drop(taken);
                }
                if was {
                    let m = mb.iter_mut().rev().find(|m| m.slot == *slot && m.live).expect("model barrier");
                    m.live = false;
                    // triggers queued but never handed out: their sources are released
                    for (_, src) in m.queue.drain(..) {
                        if let Some(s) = src {
                            released[s] = true;
                            nontrivial = true;
                            rep.faults.inc("barrier_dropped_while_source_suspended");
                        }
                    }
                    log.ev(format!("#{i} drop barrier {slot}"));
                    log.tag("dropb");
                }
            }
        }
    }
    // tear down: handles, barriers, then the tasks
    for h in handles.iter_mut() {
        h.clear();
    }
    for b in barriers.iter_mut() {
        *b = None;
    }
    tasks.clear();
    rep.nontrivial = nontrivial;
    None
}

/// fs mode: turmoil-fs's corruption hook is a synchronous trigger source (`trigger_noop(FsCorruption)`).
fn run_fs(sc: &Scenario, log: &mut Log, rep: &mut Report) -> Option<Violation> {
    use turmoil::fs::shim::std::fs as sfs;
    use turmoil::fs::FsCorruption;
    let mut b = turmoil::Builder::new();
    b.rng_seed(sc.seed).epoch(std::time::UNIX_EPOCH + std::time::Duration::from_secs(1_600_000_000));
    b.fs().corruption_probability(1.0);
    // every other run creates the test's barrier before the simulation is built
    let early: Option<Barrier<FsCorruption>> = if !sc.fs_inside && sc.seed % 2 == 0 {
        let m = sc.fs_match;
        rep.probes.inc("fs_barrier_created_before_the_simulation_was_built");
        Some(Barrier::new(move |c: &FsCorruption| m && c.path.ends_with("data")))
    } else {
        None
    };
    let mut sim = b.build();
    let reads = sc.fs_reads;
    let done = Rc::new(Cell::new(0u32));
    let reads_done = done.clone();
    let gate: Rc<RefCell<u32>> = Rc::new(RefCell::new(0)); // how many reads the host may perform so far
    let gate2 = gate.clone();
    let matches = sc.fs_match;
    let bcell: Rc<RefCell<Option<Barrier<FsCorruption>>>> = Rc::new(RefCell::new(None));
    let inside = sc.fs_inside;
    let via_handle = sc.fs_via_handle;
    if via_handle {
        rep.probes.inc("fs_reads_under_an_entered_fs_handle_on_the_simulation_thread");
    }
    if let Some(e) = early {
        *bcell.borrow_mut() = Some(e);
    } else if !inside {
        *bcell.borrow_mut() = Some(Barrier::new(move |c: &FsCorruption| matches && c.path.ends_with("data")));
    }
    let bcell2 = bcell.clone();
    sim.client("h", async move {
        if inside {
            *bcell2.borrow_mut() = Some(Barrier::new(move |c: &FsCorruption| matches && c.path.ends_with("data")));
        }
        sfs::write("/data", b"0123456789abcdef")?;
        loop {
            if reads_done.get() >= reads {
                break;
            }
            if reads_done.get() < *gate2.borrow() {
                let _guard = if via_handle && reads_done.get() % 2 == 1 { Some(turmoil::fs::FsHandle::current().enter()) } else { None };
                let _ = sfs::read("/data")?;
                reads_done.set(reads_done.get() + 1);
            } else {
                tokio::time::sleep(std::time::Duration::from_millis(1)).await;
            }
        }
        Ok(())
    });
    if inside {
        rep.probes.inc("fs_barrier_created_by_host_software_in_the_tick_of_the_reads");
    }
    let noop_waker: Waker = Arc::new(Flag(AtomicBool::new(false))).into();
    let mut seen = 0u32;
    let mut expected = 0u32;
    let burst = sc.fs_burst.max(1);
    let rounds = reads.div_ceil(burst);
    for k in 0..rounds {
        if sc.fs_drop_after == Some(k) {
            *bcell.borrow_mut() = None;
            log.ev(format!("drop barrier after {k} reads"));
            rep.faults.inc("barrier_dropped_mid_run");
        }
        // the host performs the reads of one round in one poll, without yielding in between
        let upto = ((k + 1) * burst).min(reads);
        let in_round = upto - k * burst;
        *gate.borrow_mut() = upto;
        if in_round >= 2 {
            rep.probes.inc("fs_corrupting_reads_back_to_back_in_one_tick");
        }
        for _ in 0..4 {
            if let Err(e) = sim.step() {
                return Some(Violation::new("SimError", format!("fs mode: step failed: {e}")));
            }
        }
        if done.get() != upto {
            return Some(Violation::new("ReadBlocked", format!("fs mode: the reads of round {k} did not complete ({} of {upto} done; Noop barriers must never block the triggering code)", done.get())));
        }
        if bcell.borrow().is_some() && matches {
            expected += in_round;
        }
        rep.faults.add("corrupting_read", in_round as u64);
        let mut guard = bcell.borrow_mut();
        if let Some(b) = guard.as_mut() {
            loop {
                let got = {
                    let fut = b.wait();
                    let mut fut = std::pin::pin!(fut);
                    let mut cx = Context::from_waker(&noop_waker);
                    match fut.as_mut().poll(&mut cx) {
                        Poll::Ready(x) => x,
                        Poll::Pending => None,
                    }
                };
                match got {
                    Some(t) => {
                        seen += 1;
                        log.ev(format!("corruption event path={:?} offset={} len={}", t.path, t.offset, t.len));
                        log.tag("ev");
                    }
                    None => break,
                }
            }
        }
        if seen != expected {
            return Some(Violation::new(
                if seen < expected { "TriggerLost" } else { "UnexpectedTriggerReported" },
                format!("fs mode: after {upto} corrupting reads ({burst} per tick) the barrier (condition {}) reported {seen} events, expected {expected}", matches),
            ));
        }
    }
    *bcell.borrow_mut() = None;
    drop(sim);
    rep.nontrivial = reads >= 2;
    rep.probes.inc("fs_corruption_hook_trigger");
    None
}


/// Mode 3, parent side: the scenario runs in a child process, because the failure it looks for takes the
/// whole process down (a second panic while the first one unwinds aborts).
fn run_fs_panic_in_child(sc: &Scenario, log: &mut Log, rep: &mut Report) -> Option<Violation> {
    let exe = std::env::current_exe().expect("current_exe");
    let json = serde_json::to_string(sc).expect("scenario json");
    let out = match std::process::Command::new(&exe).arg("c20-child").arg(&json).output() {
        Ok(o) => o,
        Err(e) => {
            rep.harness_error = Some(format!("could not spawn the child process: {e}"));
            return None;
        }
    };
    rep.probes.inc("fs_read_under_panic_or_suspend_barrier_in_child_process");
    rep.nontrivial = sc.fs_match;
    let stdout = String::from_utf8_lossy(&out.stdout).to_string();
    let line = stdout.lines().find(|l| l.starts_with("C20CHILD ")).map(|l| l.to_string());
    log.ev(format!("child status {:?} says {:?}", out.status, line));
    match line.as_deref() {
        Some("C20CHILD ok") if out.status.success() => {
            if sc.fs_match && sc.fs_reads != 0 {
                rep.faults.inc("injected_panic_on_corrupting_read");
            }
            None
        }
        Some(l) if l.starts_with("C20CHILD violation ") => {
            let rest = &l["C20CHILD violation ".len()..];
            let (class, msg) = rest.split_once('|').unwrap_or(("FsPanic", rest));
            Some(Violation::new(class, msg.to_string()))
        }
        _ => {
            let err = String::from_utf8_lossy(&out.stderr);
            let tail: String = err.lines().rev().take(4).collect::<Vec<_>>().into_iter().rev().collect::<Vec<_>>().join(" / ");
            Some(Violation::new(
                "PanicAbortsProcess",
                format!("fs mode: the barrier's reaction to the corruption event of a read is to panic the triggering code; instead the whole process died ({:?}) — stderr ends: {}", out.status, tail.chars().take(400).collect::<String>()),
            ))
        }
    }
}

/// Mode 3, child side (`vcheck c20-child <scenario json>`).
pub fn child(json: &str) -> i32 {
    let Ok(sc) = serde_json::from_str::<Scenario>(json) else {
        println!("C20CHILD violation HarnessError|scenario does not parse");
        return 2;
    };
    match catch(|| fs_panic_here(&sc)) {
        Ok(None) => println!("C20CHILD ok"),
        Ok(Some(v)) => println!("C20CHILD violation {}|{}", v.class, v.message.replace('\n', " ")),
        Err(p) => println!("C20CHILD violation Panic|unexpected panic outside the simulation: {}", p.replace('\n', " ")),
    }
    0
}

/// What the clean-up guard of the reading code reports when it is dropped — on the normal path or while a
/// panic injected by a barrier unwinds.
#[derive(Clone, Debug)]
struct CleanupEv(u32);

struct Cleanup(u32);

impl Drop for Cleanup {
    fn drop(&mut self) {
        trigger_noop(CleanupEv(self.0));
    }
}

fn fs_panic_here(sc: &Scenario) -> Option<Violation> {
    use turmoil::fs::shim::std::fs as sfs;
    use turmoil::fs::FsCorruption;
    let mut b = turmoil::Builder::new();
    b.rng_seed(sc.seed).epoch(std::time::UNIX_EPOCH + std::time::Duration::from_secs(1_600_000_000));
    b.fs().corruption_probability(1.0);
    let mut sim = b.build();
    let reaction = |n: u32| match n {
        0 => Reaction::Noop,
        1 => Reaction::Suspend,
        _ => Reaction::Panic,
    };
    let matches = sc.fs_match;
    let bcell: Rc<RefCell<Option<Barrier<FsCorruption>>>> = Rc::new(RefCell::new(None));
    if !sc.fs_inside {
        *bcell.borrow_mut() = Some(Barrier::build(reaction(sc.fs_reads), move |c: &FsCorruption| matches && c.path.ends_with("data")));
    }
    let (bcell2, inside, style, react_no) = (bcell.clone(), sc.fs_inside, sc.fs_burst, sc.fs_reads);
    // a Noop barrier of the test watches the clean-up guard of the reading code
    let mut cleanup_seen: Barrier<CleanupEv> = Barrier::new(|c: &CleanupEv| c.0 == 7);
    let reached = Rc::new(Cell::new(false));
    let reached2 = reached.clone();
    sim.client("h", async move {
        if inside {
            *bcell2.borrow_mut() = Some(Barrier::build(reaction(react_no), move |c: &FsCorruption| matches && c.path.ends_with("data")));
        }
        sfs::write("/data", b"0123456789abcdef")?;
        let _cleanup = Cleanup(7);
        match style {
            0 => {
                let _ = sfs::read("/data")?;
            }
            1 => {
                use std::io::Read;
                let mut f = sfs::File::open("/data")?;
                let mut buf = [0u8; 16];
                let _ = f.read(&mut buf)?;
                drop(f);
            }
            _ => {
                use std::os::unix::fs::FileExt;
                let f = sfs::OpenOptions::new().read(true).write(true).open("/data")?;
                let g = sfs::File::open("/data")?;
                let mut buf = [0u8; 8];
                let _ = f.read_at(&mut buf, 4)?;
                drop((f, g));
            }
        }
        reached2.set(true);
        Ok(())
    });
    let r = catch(|| {
        for _ in 0..6 {
            match sim.step() {
                Ok(true) => break,
                Ok(false) => {}
                Err(e) => return Some(e.to_string()),
            }
        }
        None
    });
    let must_panic = sc.fs_match && sc.fs_reads != 0;
    let v = match (&r, must_panic) {
        (Err(p), true) => {
            if reached.get() {
                Some(Violation::new("NotSuspended", format!("fs mode: the step panicked ({p}) but the reading code had already proceeded past the read")))
            } else {
                None
            }
        }
        (Err(p), false) => Some(Violation::new("SpuriousPanic", format!("fs mode: no live barrier with a panicking reaction matches, yet the step panicked: {p}"))),
        (Ok(Some(e)), _) => Some(Violation::new("SimError", format!("fs mode: step failed: {e}"))),
        (Ok(None), true) => Some(Violation::new("PanicNotInjected", format!("fs mode: a barrier with reaction #{} matches the corruption event of the read; the triggering code was not panicked (read code proceeded: {})", sc.fs_reads, reached.get()))),
        (Ok(None), false) => {
            if reached.get() {
                None
            } else {
                Some(Violation::new("ReadBlocked", "fs mode: the read under a Noop / non-matching barrier did not complete".to_string()))
            }
        }
    };
    *bcell.borrow_mut() = None;
    drop(sim);
    if v.is_some() {
        return v;
    }
    {
        let w: Waker = Arc::new(Flag(AtomicBool::new(false))).into();
        let mut n = 0;
        loop {
            let fut = cleanup_seen.wait();
            let mut fut = std::pin::pin!(fut);
            let mut cx = Context::from_waker(&w);
            match fut.as_mut().poll(&mut cx) {
                Poll::Ready(Some(_)) => n += 1,
                _ => break,
            }
        }
        if n != 1 {
            return Some(Violation::new(
                if n == 0 { "TriggerLost" } else { "UnexpectedTriggerReported" },
                format!("fs mode: the clean-up guard of the reading code fired its trigger once when it was dropped ({}); the live Noop barrier that matches it reported {n} events", if must_panic { "while the injected panic unwound" } else { "on the normal path" }),
            ));
        }
    }
    // afterwards, on the same thread: another simulation, a Noop barrier, one corrupting read — the event must
    // be reported as if nothing had happened before
    let mut b = turmoil::Builder::new();
    b.rng_seed(sc.seed ^ 1).epoch(std::time::UNIX_EPOCH + std::time::Duration::from_secs(1_600_000_000));
    b.fs().corruption_probability(1.0);
    let mut sim = b.build();
    let mut after: Barrier<FsCorruption> = Barrier::new(|c: &FsCorruption| c.path.ends_with("later"));
    sim.client("g", async move {
        sfs::write("/later", b"0123456789abcdef")?;
        let _ = sfs::read("/later")?;
        Ok(())
    });
    let r = catch(|| {
        for _ in 0..6 {
            match sim.step() {
                Ok(true) => break,
                Ok(false) => {}
                Err(e) => return Some(e.to_string()),
            }
        }
        None
    });
    if !matches!(r, Ok(None)) {
        return Some(Violation::new("SimError", format!("fs mode: the simulation after the injected panic failed: {r:?}")));
    }
    let noop_waker: Waker = Arc::new(Flag(AtomicBool::new(false))).into();
    let got = {
        let fut = after.wait();
        let mut fut = std::pin::pin!(fut);
        let mut cx = Context::from_waker(&noop_waker);
        matches!(fut.as_mut().poll(&mut cx), Poll::Ready(Some(_)))
    };
    drop(sim);
    if !got {
        return Some(Violation::new("TriggerLost", "fs mode: after a barrier had panicked a corrupting read, the corruption event of a read in the next simulation on this thread was reported to no barrier although a live Noop barrier matches it".to_string()));
    }
    None
}

/// Mode 2: inside a turmoil host (a task driven by a tokio runtime, with its cooperative budget) `n`
/// `trigger(v).await` calls in a row match no live barrier. They return immediately: the host never
/// yields in the middle, so a sibling task spawned just before the run first runs after all `n`.
fn run_burst(sc: &Scenario, log: &mut Log, rep: &mut Report) -> Option<Violation> {
    let n = sc.fs_reads;
    let mut b = turmoil::Builder::new();
    b.rng_seed(sc.seed).epoch(std::time::UNIX_EPOCH + std::time::Duration::from_secs(1_600_000_000));
    let mut sim = b.build();
    let counter = Rc::new(Cell::new(0u32));
    let seen: Rc<Cell<Option<u32>>> = Rc::new(Cell::new(None));
    let (c2, s2) = (counter.clone(), seen.clone());
    // a live barrier whose condition matches none of the values (half of the scenarios)
    let other: Option<Barrier<u32>> = if sc.fs_match { Some(Barrier::new(|v: &u32| *v == 7)) } else { None };
    sim.client("h", async move {
        let (c3, s3) = (c2.clone(), s2.clone());
        tokio::task::spawn_local(async move {
            s3.set(Some(c3.get()));
        });
        for k in 0..n {
            trigger(1000 + k).await;
            c2.set(k + 1);
        }
        Ok(())
    });
    for _ in 0..4 {
        match sim.step() {
            Ok(true) => break,
            Ok(false) => {}
            Err(e) => return Some(Violation::new("SimError", format!("burst mode: step failed: {e}"))),
        }
    }
    drop(other);
    drop(sim);
    log.ev(format!("burst of {n} unmatched triggers: sibling task first ran at count {:?}, final count {}", seen.get(), counter.get()));
    log.tag("burst");
    rep.probes.inc("burst_of_unmatched_triggers_in_one_task_poll");
    if n > 128 {
        rep.probes.inc("burst_longer_than_tokio_coop_budget");
    }
    rep.nontrivial = n > 128;
    if counter.get() != n {
        return Some(Violation::new("BlockedWithoutSuspend", format!("burst mode: only {} of {n} triggers that match no live barrier returned within 4 steps", counter.get())));
    }
    match seen.get() {
        Some(k) if k == n => None,
        other => Some(Violation::new(
            "BlockedWithoutSuspend",
            format!("burst mode: {n} triggers that match no live barrier ran in a row in one host task, yet a sibling task got to run after {other:?} of them: a trigger yielded although no Suspend barrier asked for it"),
        )),
    }
}
